(* Model of jug's lock classes as programs over atomic store primitives.
     file_based_lock, file_keepalive_based_lock   (jug/backends/file_store.py)
     redis_lock                                   (jug/backends/redis_store.py, after the SETNX fix;
                                                   BRedisOld = the original GETSET program)
     dict_lock                                    (jug/backends/dict_store.py; method-atomic)
   N clients, each with a history of operations, interleaved at primitive granularity by a
   schedule (list of client ids).  Executable definitions only. *)
From Coq Require Import List ZArith Bool Arith.
Import ListNotations.

Definition name := nat.
Definition cid := nat.

Inductive backend := BFile | BKeep | BRedis | BRedisOld | BDict.
(* OTick d: d seconds pass (the scheduler's "time passes" step, issued by a clock client between any
   two primitives of the others); the name it is filed under is irrelevant *)
(* OReopen: the store is closed and opened again (dict_store with a backing file: close() then a new
   dict_store(FILE); file stores: a new store object on the same directory; redis: a new connection);
   every client continues with fresh handles.  Like OTick it is issued by the environment client. *)
Inductive lockop := OGet | ORelease | OFail | OIsLocked | OIsFailed | OTick (d : Z) | OReopen.

(* constants of the source (Gen/LockConsts.v instantiates them) and the abstract clock *)
Record params := mkParams {
  p_now : Z;       (* mtime a lock file gets when created = value of time() during the run *)
  p_expiry : Z;    (* file_keepalive_based_lock.is_failed: 30*60 *)
  p_failed : Z;    (* file_based_lock._FAILED_TIMESTAMP[1] *)
  p_L : Z; p_F : Z;                 (* redis _LOCKED / _FAILED (byte values) *)
  p_d0 : Z; p_dL : Z; p_dF : Z      (* dict _NOT_LOCKED, _LOCKED, _FAILED *)
}.

Inductive prim :=
| PExists (n : name)              (* os.path.exists(lockfile) *)
| POpenExcl (n : name)            (* os.open(lockfile, O_RDWR|O_CREAT|O_EXCL) *)
| PUnlink (n : name)              (* os.unlink(lockfile) *)
| PUtime (n : name) (mt : Z)      (* os.utime(lockfile, (mt, mt)) *)
| PStat (n : name)                (* os.stat(lockfile).st_mtime *)
| RGetSet (n : name) (v : Z) | RSet (n : name) (v : Z) | RSetNx (n : name) (v : Z)
| RGet (n : name) | RDel (n : name)
| DOp (o : lockop) (n : name)     (* one whole dict_lock method, atomic *)
| PTick (d : Z)                   (* d seconds pass: the identity on every store (no lock of the file, redis and dict
                                     backends carries an expiry; the keep-alive backend is modelled on a frozen clock,
                                     its behaviour in time is Model/Keepalive.v) *)
| PReopen                         (* close + reopen of a persistent store: the identity on the lock state (a lock held
                                     through a handle of the closed store stays held: the crash residue that
                                     remove_locks clears; a failed marker stays) *)
| PUnknown (k : nat).             (* any other store access: never issued by the model *)

Inductive resp := RB (b : bool) | RV (v : option Z) | RU | RE.
Inductive ores := OB (b : bool) | OU | OE.      (* result of a lock operation; OE = exception *)

Definition lkstate := name -> option Z.   (* file: mtime of the lock file; redis/dict: value of the key *)
Definition upd (st : lkstate) (n : name) (v : option Z) : lkstate :=
  fun m => if Nat.eqb m n then v else st m.

Definition is_some {A} (x : option A) : bool := match x with Some _ => true | None => false end.

(* dict_lock methods, each executed without interleaving (single process) *)
Definition dict_op (P : params) (st : lkstate) (o : lockop) (n : name) : lkstate * resp :=
  let cur := match st n with Some v => v | None => p_d0 P end in   (* store.get(name, _NOT_LOCKED) *)
  match o with
  | OGet => (* previous = get; store[name] = L; if previous == F: store[name] = F; return previous == NOT_LOCKED *)
      (upd st n (Some (if Z.eqb cur (p_dF P) then p_dF P else p_dL P)), RB (Z.eqb cur (p_d0 P)))
  | ORelease => match st n with Some _ => (upd st n None, RU) | None => (st, RE) end   (* del store[name] *)
  | OFail => (* if get == L: store[name] = F ; return store[name] == F   (KeyError when missing) *)
      let st1 := if Z.eqb cur (p_dL P) then upd st n (Some (p_dF P)) else st in
      match st1 n with Some v => (st1, RB (Z.eqb v (p_dF P))) | None => (st1, RE) end
  | OIsLocked => (st, RB (Z.eqb cur (p_dL P) || Z.eqb cur (p_dF P)))
  | OIsFailed => (st, RB (Z.eqb cur (p_dF P)))
  | OTick _ | OReopen => (st, RU)
  end.

Definition runp (P : params) (st : lkstate) (p : prim) : lkstate * resp :=
  match p with
  | PExists n => (st, RB (is_some (st n)))
  | POpenExcl n => match st n with None => (upd st n (Some (p_now P)), RB true) | Some _ => (st, RB false) end
  | PUnlink n => match st n with Some _ => (upd st n None, RB true) | None => (st, RB false) end
  | PUtime n mt => match st n with Some _ => (upd st n (Some mt), RB true) | None => (st, RB false) end
  | PStat n => (st, RV (st n))
  | RGetSet n v => (upd st n (Some v), RV (st n))
  | RSet n v => (upd st n (Some v), RB true)
  | RSetNx n v => match st n with None => (upd st n (Some v), RB true) | Some _ => (st, RB false) end
  | RGet n => (st, RV (st n))
  | RDel n => match st n with Some _ => (upd st n None, RB true) | None => (st, RB false) end
  | DOp o n => dict_op P st o n
  | PTick _ | PReopen => (st, RU)
  | PUnknown _ => (st, RE)
  end.

(* is_failed's test on what it read *)
Definition isfailedv (P : params) (b : backend) (v : Z) : bool :=
  match b with
  | BFile => Z.eqb v (p_failed P)                       (* t.st_mtime == _FAILED_TIMESTAMP[0] *)
  | BKeep => Z.leb v (p_now P - p_expiry P)             (* t.st_mtime <= time() - 30*60 *)
  | BRedis | BRedisOld => Z.eqb v (p_F P)
  | BDict => Z.eqb v (p_dF P)
  end.

Inductive outcome := Next (pc : nat) | Done (r : ores).

(* the primitive an operation issues at program counter pc *)
Definition op_prim (P : params) (b : backend) (o : lockop) (n : name) (pc : nat) : prim :=
  match b with
  | BFile | BKeep =>
      match o, pc with
      | OGet, O => PExists n | OGet, S _ => POpenExcl n
      | ORelease, _ => PUnlink n
      | OFail, _ => PUtime n (p_failed P)
      | OIsLocked, _ => PExists n
      | OIsFailed, O => PExists n | OIsFailed, S _ => PStat n
      | OTick d, _ => PTick d
      | OReopen, _ => PReopen
      end
  | BRedis =>
      match o, pc with
      | OGet, _ => RSetNx n (p_L P)
      | ORelease, _ => RDel n
      | OFail, O => RGet n | OFail, S _ => RSet n (p_F P)
      | OIsLocked, _ => RGet n
      | OIsFailed, _ => RGet n
      | OTick d, _ => PTick d
      | OReopen, _ => PReopen
      end
  | BRedisOld =>
      match o, pc with
      | OGet, O => RGetSet n (p_L P) | OGet, S _ => RSet n (p_F P)
      | ORelease, _ => RDel n
      | OFail, O => RGet n | OFail, S _ => RSet n (p_F P)
      | OIsLocked, _ => RGet n
      | OIsFailed, _ => RGet n
      | OTick d, _ => PTick d
      | OReopen, _ => PReopen
      end
  | BDict => match o with OTick d => PTick d | OReopen => PReopen | _ => DOp o n end
  end.

Definition redis_fail_next (P : params) (pc : nat) (r : resp) : outcome :=
  match pc, r with
  | O, RV (Some v) => if Z.eqb v (p_L P) then Next 1 else if Z.eqb v (p_F P) then Done (OB true) else Done (OB false)
  | O, RV None => Done (OB false)
  | S _, RB _ => Done (OB true)
  | _, _ => Done OE
  end.

(* what the operation does with the primitive's response *)
Definition op_next (P : params) (b : backend) (o : lockop) (pc : nat) (r : resp) : outcome :=
  match b with
  | BFile | BKeep =>
      match o, pc, r with
      | OGet, O, RB true => Done (OB false)          (* if exists(fullname): return False *)
      | OGet, O, RB false => Next 1
      | OGet, S _, RB c => Done (OB c)               (* created: True / FileExistsError: False *)
      | ORelease, _, RB _ => Done OU                 (* OSError ignored *)
      | OFail, _, RB c => Done (OB c)                (* OSError: False *)
      | OIsLocked, _, RB c => Done (OB c)
      | OIsFailed, O, RB true => Next 1
      | OIsFailed, O, RB false => Done (OB false)
      | OIsFailed, S _, RV (Some mt) => Done (OB (isfailedv P b mt))
      | OIsFailed, S _, RV None => Done (OB false)   (* OSError: pass *)
      | OTick _, _, RU | OReopen, _, RU => Done OU
      | _, _, _ => Done OE
      end
  | BRedis =>
      match o, r with
      | OGet, RB c => Done (OB c)                    (* bool(setnx(name, L)) *)
      | ORelease, RB _ => Done OU
      | OFail, _ => redis_fail_next P pc r
      | OIsLocked, RV (Some v) => Done (OB (Z.eqb v (p_L P) || Z.eqb v (p_F P)))
      | OIsLocked, RV None => Done (OB false)
      | OIsFailed, RV (Some v) => Done (OB (Z.eqb v (p_F P)))
      | OIsFailed, RV None => Done (OB false)
      | OTick _, RU | OReopen, RU => Done OU
      | _, _ => Done OE
      end
  | BRedisOld =>
      match o, pc, r with
      | OGet, O, RV (Some v) => if Z.eqb v (p_F P) then Next 1 else Done (OB false)
      | OGet, O, RV None => Done (OB true)           (* previous is None *)
      | OGet, S _, RB _ => Done (OB false)           (* after redis.set(name, previous) *)
      | ORelease, _, RB _ => Done OU
      | OFail, _, _ => redis_fail_next P pc r
      | OIsLocked, _, RV (Some v) => Done (OB (Z.eqb v (p_L P) || Z.eqb v (p_F P)))
      | OIsLocked, _, RV None => Done (OB false)
      | OIsFailed, _, RV (Some v) => Done (OB (Z.eqb v (p_F P)))
      | OIsFailed, _, RV None => Done (OB false)
      | OTick _, _, RU | OReopen, _, RU => Done OU
      | _, _, _ => Done OE
      end
  | BDict =>
      match r with RB c => Done (OB c) | RU => Done OU | _ => Done OE end
  end.

(* ------------------------------------------------------------------ clients and schedules *)
Record client := mkClient { cur : option (lockop * name * nat); todo : list (lockop * name) }.

(* ghost lock status, updated from OBSERVABLE events only:
   get returned True -> held by that client; release begins -> free; fail returned True -> failed *)
Inductive gst := GFree | GHeld (c : cid) | GFailed.

Record cfg := mkCfg { sh : lkstate; gh : name -> gst; cls : cid -> client }.

Record event := mkEvent {
  e_c : cid; e_op : lockop; e_n : name; e_pc : nat;
  e_prim : prim; e_resp : resp; e_ret : option ores }.

Definition pick (cl : client) : option (lockop * name * nat * list (lockop * name)) :=
  match cur cl with
  | Some (o, n, pc) => Some (o, n, pc, todo cl)
  | None => match todo cl with [] => None | (o, n) :: r => Some (o, n, O, r) end
  end.

Definition ghost_upd (g : gst) (o : lockop) (c : cid) (pc : nat) (ret : option ores) : gst :=
  match o with
  | OGet => match ret with Some (OB true) => GHeld c | _ => g end
  | ORelease => match pc with O => GFree | S _ => g end
  | OFail => match ret with Some (OB true) => GFailed | _ => g end
  | _ => g
  end.

Definition updg (g : name -> gst) (n : name) (x : gst) : name -> gst :=
  fun m => if Nat.eqb m n then x else g m.
Definition updc (f : cid -> client) (c : cid) (x : client) : cid -> client :=
  fun d => if Nat.eqb d c then x else f d.

(* client c executes its next primitive (a finished client: nothing happens) *)
Definition sched_step (P : params) (b : backend) (k : cfg) (c : cid) : cfg * option event :=
  match pick (cls k c) with
  | None => (k, None)
  | Some (o, n, pc, rest) =>
      let p := op_prim P b o n pc in
      let sr := runp P (sh k) p in
      let out := op_next P b o pc (snd sr) in
      let ret := match out with Done v => Some v | Next _ => None end in
      let cl' := match out with
                 | Done _ => mkClient None rest
                 | Next pc' => mkClient (Some (o, n, pc')) rest
                 end in
      (mkCfg (fst sr) (updg (gh k) n (ghost_upd (gh k n) o c pc ret)) (updc (cls k) c cl'),
       Some (mkEvent c o n pc p (snd sr) ret))
  end.

(* well-formed use of the lock API: release / fail are begun only by the holder, or on a failed
   lock (cleanup --failed-only; execution_loop).  Task.unlock's docstring excludes the rest. *)
Definition wf_step (k : cfg) (c : cid) : bool :=
  match pick (cls k c) with
  | None => true
  | Some (o, n, pc, _) =>
      match pc, o with
      | O, ORelease | O, OFail =>
          match gh k n with GHeld d => Nat.eqb d c | GFailed => true | GFree => false end
      | _, _ => true
      end
  end.

Fixpoint run (P : params) (b : backend) (k : cfg) (s : list cid) : cfg * list event :=
  match s with
  | [] => (k, [])
  | c :: s' =>
      let ke := sched_step P b k c in
      let kt := run P b (fst ke) s' in
      (fst kt, match snd ke with Some e => e :: snd kt | None => snd kt end)
  end.

Fixpoint wf_run (P : params) (b : backend) (k : cfg) (s : list cid) : bool :=
  match s with
  | [] => true
  | c :: s' => wf_step k c && wf_run P b (fst (sched_step P b k c)) s'
  end.

Definition init (hists : list (list (lockop * name))) : cfg :=
  mkCfg (fun _ => None) (fun _ => GFree) (fun c => mkClient None (nth c hists [])).

(* ------------------------------------------------------------------ the atomic specification *)
Definition spec_op (o : lockop) (c : cid) (g : gst) : gst * ores :=
  match o with
  | OGet => match g with GFree => (GHeld c, OB true) | _ => (g, OB false) end
  | ORelease => (GFree, OU)
  | OFail => match g with GFree => (GFree, OB false) | _ => (GFailed, OB true) end
  | OIsLocked => (g, OB (match g with GFree => false | _ => true end))
  | OIsFailed => (g, OB (match g with GFailed => true | _ => false end))
  | OTick _ => (g, OU)             (* time passes: the atomic lock does not change *)
  | OReopen => (g, OU)             (* the store is reopened: the atomic lock does not change *)
  end.

(* ------------------------------------------------------------------ comparison (for the tie) *)
Definition lockop_eqb (a b : lockop) : bool :=
  match a, b with
  | OGet, OGet | ORelease, ORelease | OFail, OFail | OIsLocked, OIsLocked | OIsFailed, OIsFailed => true
  | OTick x, OTick y => Z.eqb x y
  | OReopen, OReopen => true
  | _, _ => false
  end.

Definition prim_eqb (a b : prim) : bool :=
  match a, b with
  | PExists n, PExists m | POpenExcl n, POpenExcl m | PUnlink n, PUnlink m | PStat n, PStat m
  | RGet n, RGet m | RDel n, RDel m => Nat.eqb n m
  | PUtime n v, PUtime m w | RGetSet n v, RGetSet m w | RSet n v, RSet m w | RSetNx n v, RSetNx m w =>
      Nat.eqb n m && Z.eqb v w
  | DOp o n, DOp q m => lockop_eqb o q && Nat.eqb n m
  | PTick x, PTick y => Z.eqb x y
  | PReopen, PReopen => true
  | _, _ => false
  end.

Definition optz_eqb (a b : option Z) : bool :=
  match a, b with Some x, Some y => Z.eqb x y | None, None => true | _, _ => false end.

Definition resp_eqb (a b : resp) : bool :=
  match a, b with
  | RB x, RB y => Bool.eqb x y | RV x, RV y => optz_eqb x y | RU, RU => true | RE, RE => true | _, _ => false
  end.

Definition ores_eqb (a b : ores) : bool :=
  match a, b with OB x, OB y => Bool.eqb x y | OU, OU => true | OE, OE => true | _, _ => false end.

Definition oores_eqb (a b : option ores) : bool :=
  match a, b with Some x, Some y => ores_eqb x y | None, None => true | _, _ => false end.

(* an observed step: (client, primitive, response, operation result if the operation returned) *)
Definition obs := (cid * prim * resp * option ores)%type.

Definition obs_of (e : event) : obs := (e_c e, e_prim e, e_resp e, e_ret e).

Definition obs_eqb (a b : obs) : bool :=
  match a, b with
  | (c, p, r, v), (c', p', r', v') => Nat.eqb c c' && prim_eqb p p' && resp_eqb r r' && oores_eqb v v'
  end.

Fixpoint obs_list_eqb (a b : list obs) : bool :=
  match a, b with
  | [], [] => true
  | x :: a', y :: b' => obs_eqb x y && obs_list_eqb a' b'
  | _, _ => false
  end.

(* trace validation: the model, run on the same histories and schedule, produces exactly the
   recorded primitive trace, the recorded results and the recorded final store contents *)
Definition tie_check (P : params) (b : backend) (hists : list (list (lockop * name)))
           (s : list cid) (tr : list obs) (final : list (name * option Z)) : bool :=
  let kt := run P b (init hists) s in
  obs_list_eqb (map obs_of (snd kt)) tr &&
  forallb (fun nv => optz_eqb (sh (fst kt) (fst nv)) (snd nv)) final.

(* the same when some commands were lost with their connection (redis.ConnectionError): the operation raised, so it
   gave no answer; a command that never reached the server is as if the operation had not been called (the harness
   leaves it out of the history); a WRITE that the server applied before the reply was lost is the operation having
   happened with its answer discarded: it stays in the history and [lost] lists the positions in the trace at which only
   the client and the primitive are compared, not the response and the result. *)
Definition obs_eqb_sent (a b : obs) : bool :=
  match a, b with (c, p, _, _), (c', p', _, _) => Nat.eqb c c' && prim_eqb p p' end.

Fixpoint obs_list_eqb_lost (i : nat) (lost : list nat) (a b : list obs) : bool :=
  match a, b with
  | [], [] => true
  | x :: a', y :: b' =>
      (if existsb (Nat.eqb i) lost then obs_eqb_sent x y else obs_eqb x y) && obs_list_eqb_lost (S i) lost a' b'
  | _, _ => false
  end.

Definition tie_check_lost (P : params) (b : backend) (hists : list (list (lockop * name)))
           (s : list cid) (tr : list obs) (final : list (name * option Z)) (lost : list nat) : bool :=
  let kt := run P b (init hists) s in
  obs_list_eqb_lost 0 lost (map obs_of (snd kt)) tr &&
  forallb (fun nv => optz_eqb (sh (fst kt) (fst nv)) (snd nv)) final.

(* ------------------------------------------------------------------ store value of a lock status *)
Definition lockedv (P : params) (b : backend) : Z :=
  match b with BFile | BKeep => p_now P | BRedis | BRedisOld => p_L P | BDict => p_dL P end.
Definition failedv (P : params) (b : backend) : Z :=
  match b with BFile | BKeep => p_failed P | BRedis | BRedisOld => p_F P | BDict => p_dF P end.

Definition repr (P : params) (b : backend) (g : gst) : option Z :=
  match g with GFree => None | GHeld _ => Some (lockedv P b) | GFailed => Some (failedv P b) end.

(* side conditions on the constants: a fresh lock does not read as failed, a failed one does,
   and the dict markers differ from the default for a missing key *)
Definition params_ok (P : params) (b : backend) : bool :=
  negb (isfailedv P b (lockedv P b)) && isfailedv P b (failedv P b) &&
  match b with
  | BDict => negb (Z.eqb (p_dL P) (p_d0 P)) && negb (Z.eqb (p_dF P) (p_d0 P))
  | _ => true
  end.

Definition repaired (b : backend) : bool := match b with BRedisOld => false | _ => true end.

(* ------------------------------------------------------------------ the observable lock status *)
(* status of every name after a trace, computed from OBSERVABLE facts only (who called what, and
   what the call returned): get returned True -> held by the caller; a release begins -> free;
   fail returned True -> failed.  Nothing else changes it. *)
Definition ghost_ev (g : name -> gst) (e : event) : name -> gst :=
  updg g (e_n e) (ghost_upd (g (e_n e)) (e_op e) (e_c e) (e_pc e) (e_ret e)).

Definition all_free : name -> gst := fun _ => GFree.
Definition status_after (tr : list event) : name -> gst := fold_left ghost_ev tr all_free.

(* ------------------------------------------------------------------ sequential runs of the specification *)
(* the operations, each taken as ONE atomic step of [spec_op] at the primitive after which it
   returned, in trace order, explain every returned value *)
Fixpoint spec_accepts (g : name -> gst) (tr : list event) : bool :=
  match tr with
  | [] => true
  | e :: r =>
      match e_ret e with
      | None => spec_accepts g r
      | Some v =>
          let gv := spec_op (e_op e) (e_c e) (g (e_n e)) in
          ores_eqb v (snd gv) && spec_accepts (updg g (e_n e) (fst gv)) r
      end
  end.

Fixpoint spec_final (g : name -> gst) (tr : list event) : name -> gst :=
  match tr with
  | [] => g
  | e :: r =>
      match e_ret e with
      | None => spec_final g r
      | Some _ => spec_final (updg g (e_n e) (fst (spec_op (e_op e) (e_c e) (g (e_n e))))) r
      end
  end.

(* the same for ONE lock, on the sub-trace of one name: no other name is mentioned *)
Fixpoint spec_accepts1 (g : gst) (tr : list event) : bool :=
  match tr with
  | [] => true
  | e :: r =>
      match e_ret e with
      | None => spec_accepts1 g r
      | Some v => ores_eqb v (snd (spec_op (e_op e) (e_c e) g)) && spec_accepts1 (fst (spec_op (e_op e) (e_c e) g)) r
      end
  end.

(* ------------------------------------------------------------------ event classes *)
Definition ev_on (n : name) (e : event) : bool := Nat.eqb (e_n e) n.
(* a get on n returned (with whatever value) at this primitive *)
Definition get_returned (n : name) (e : event) : bool :=
  ev_on n e && lockop_eqb (e_op e) OGet && is_some (e_ret e).
(* a get on n returned True at this primitive *)
Definition get_won (n : name) (e : event) : bool :=
  ev_on n e && lockop_eqb (e_op e) OGet && oores_eqb (e_ret e) (Some (OB true)).

(* configurations reached along a schedule *)
Definition cfg_after (P : params) (b : backend) (hists : list (list (lockop * name))) (s : list cid) : cfg :=
  fst (run P b (init hists) s).
Definition trace_of (P : params) (b : backend) (hists : list (list (lockop * name))) (s : list cid) : list event :=
  snd (run P b (init hists) s).
