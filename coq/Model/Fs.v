(* Fs - a small file-system model with a volatile and a durable view, for crash reasoning
   about the write protocol of jug/backends/file_store.py (dump, resave_pack, update_pack,
   remove_many).  Executable definitions only.

   Names, inodes and contents are interned by the harness:
     name   = (directory id, leaf id)
     inoid  = one id per file ever created (never reused, unlike st_ino)
     cid    = one id per distinct byte string; [empty_cid] is the empty string.

   An inode has volatile data [i_data] (what any process reading it now sees, and what
   survives a PROCESS KILL) and durable data [i_synced] (what survives a POWER LOSS):
   after a data write and until the next fsync of that inode the durable data is [Garbage]
   (any truncation / mixture of blocks).
   A directory entry has a volatile binding [vol n] and a list [dur n] of the bindings a
   power loss at this instant may leave behind for n: the binding n had at the last
   [FsyncDir] of its directory and every binding given to it since (each later directory
   operation may independently have reached the disk or not; a rename is atomic per entry:
   the destination refers to the old inode or to the new one, never to a mixture).
   A directory created by the trace ([Mkdir]) may itself be lost, with everything in it, until it
   is itself fsynced ([FsyncDir d] makes the entries of d durable and d itself: the behaviour of
   the journalling file systems; strict POSIX would also want an fsync of the parent). *)
From Coq Require Import List PArith Bool.
Import ListNotations.

Definition dirid := positive.
Definition name := (positive * positive)%type.
Definition inoid := positive.
Definition cid := positive.

Definition empty_cid : cid := 1%positive.

Inductive content := Cid (c : cid) | Garbage.

Inductive fsop :=
| Mkstemp (n : name) (i : inoid)        (* open(n, O_CREAT|O_EXCL): n did not exist, i is a new file *)
| OpenTrunc (n : name) (i : inoid)      (* open n for writing (w/a/r+, O_TRUNC or not); creates i when n is absent.
                                           Never issued on a final name by the correct protocol. *)
| WriteData (i : inoid) (c : cid)       (* the content of i is now c (volatile); c may be a partial prefix *)
| Fsync (i : inoid)
| Close (i : inoid)
| FsyncDir (d : dirid)
| Rename (src dst : name)
| Unlink (n : name) (rm : bool)         (* rm: issued by an operation entitled to remove n (remove_many, update_pack) *)
| Mkdir (d : dirid).

Record inode := { i_data : content; i_synced : content; i_pub : bool; i_used : bool }.

Record fs := {
  inodes : inoid -> inode;
  vol : name -> option inoid;
  dur : name -> list (option inoid);
  fresh_dir : dirid -> bool
}.

Definition name_eqb (a b : name) : bool := Pos.eqb (fst a) (fst b) && Pos.eqb (snd a) (snd b).

Definition content_eqb (a b : content) : bool :=
  match a, b with
  | Cid x, Cid y => Pos.eqb x y
  | Garbage, Garbage => true
  | _, _ => false
  end.

Definition no_inode : inode := {| i_data := Garbage; i_synced := Garbage; i_pub := false; i_used := false |}.
Definition new_inode : inode := {| i_data := Cid empty_cid; i_synced := Garbage; i_pub := false; i_used := true |}.

Definition empty_fs : fs :=
  {| inodes := fun _ => no_inode; vol := fun _ => None; dur := fun _ => [None]; fresh_dir := fun _ => false |}.

Definition set_ino (s : fs) (i : inoid) (x : inode) : fs :=
  {| inodes := fun j => if Pos.eqb i j then x else inodes s j;
     vol := vol s; dur := dur s; fresh_dir := fresh_dir s |}.

(* give entry n the binding b: volatile at once, durable maybe *)
Definition bind (s : fs) (n : name) (b : option inoid) : fs :=
  {| inodes := inodes s;
     vol := fun m => if name_eqb n m then b else vol s m;
     dur := fun m => if name_eqb n m then b :: dur s m else dur s m;
     fresh_dir := fresh_dir s |}.

Definition written (x : inode) (c : cid) : inode :=
  {| i_data := Cid c; i_synced := Garbage; i_pub := i_pub x; i_used := true |}.
Definition fsynced (x : inode) : inode :=
  {| i_data := i_data x; i_synced := i_data x; i_pub := i_pub x; i_used := i_used x |}.
Definition published (x : inode) : inode :=
  {| i_data := i_data x; i_synced := i_synced x; i_pub := true; i_used := i_used x |}.

Definition sync_dir (s : fs) (d : dirid) : fs :=
  {| inodes := inodes s; vol := vol s;
     dur := fun m => if Pos.eqb (fst m) d then [vol s m] else dur s m;
     fresh_dir := fun e => if Pos.eqb d e then false else fresh_dir s e |}.

Definition mark_fresh (s : fs) (d : dirid) : fs :=
  {| inodes := inodes s; vol := vol s; dur := dur s;
     fresh_dir := fun e => if Pos.eqb d e then true else fresh_dir s e |}.

Section Protocol.
  Variable fin : name -> bool.        (* final names: result files and packs/jugpack *)
  Variable complete : cid -> bool.    (* the byte string is the complete encoding of a value *)

  (* effect of an operation (total; says nothing about whether the protocol allows it) *)
  Definition step (s : fs) (op : fsop) : fs :=
    match op with
    | Mkstemp n i => bind (set_ino s i new_inode) n (Some i)
    | OpenTrunc n i =>
        match vol s n with
        | None => bind (set_ino s i new_inode) n (Some i)
        | Some _ => s
        end
    | WriteData i c => set_ino s i (written (inodes s i) c)
    | Fsync i => set_ino s i (fsynced (inodes s i))
    | Close _ => s
    | FsyncDir d => sync_dir s d
    | Rename src dst =>
        match vol s src with
        | None => s
        | Some i =>
            let s1 := if fin dst then set_ino s i (published (inodes s i)) else s in
            bind (bind s1 src None) dst (Some i)
        end
    | Unlink n _ => bind s n None
    | Mkdir d => mark_fresh s d
    end.

  Definition is_fresh_ino (s : fs) (i : inoid) : bool :=
    negb (i_used (inodes s i)) && negb (i_pub (inodes s i)).

  Definition synced_complete (x : inode) : bool :=
    match i_data x, i_synced x with
    | Cid c, Cid c' => Pos.eqb c c' && complete c
    | _, _ => false
    end.

  (* the write protocol, one operation at a time *)
  Definition guard (s : fs) (op : fsop) : bool :=
    match op with
    | Mkstemp n i => negb (fin n) && is_fresh_ino s i
    | OpenTrunc n i =>
        negb (fin n) &&
        match vol s n with
        | None => is_fresh_ino s i
        | Some j => Pos.eqb i j
        end
    | WriteData i _ => negb (i_pub (inodes s i))
    | Fsync _ => true
    | Close _ => true
    | FsyncDir _ => true
    | Rename src dst =>
        negb (fin src) &&
        match vol s src with
        | None => false
        | Some i => if fin dst then synced_complete (inodes s i) else true
        end
    | Unlink n rm => if fin n then rm else true
    | Mkdir _ => true
    end.

  Fixpoint run (s : fs) (tr : list fsop) : fs :=
    match tr with
    | [] => s
    | op :: r => run (step s op) r
    end.

  Fixpoint accepts (s : fs) (tr : list fsop) : bool :=
    match tr with
    | [] => true
    | op :: r => guard s op && accepts (step s op) r
    end.

  (* index of the first operation the protocol rejects (diagnostics for replays) *)
  Fixpoint first_reject (s : fs) (tr : list fsop) (k : nat) : option nat :=
    match tr with
    | [] => None
    | op :: r => if guard s op then first_reject (step s op) r (S k) else Some k
    end.
End Protocol.

Definition write_protocol (fin : name -> bool) (complete : cid -> bool) (tr : list fsop) : bool :=
  accepts fin complete empty_fs tr.

(* ---- what a reader / a fresh process sees ------------------------------------------- *)

(* PROCESS KILL at this instant, or a concurrent reader doing exists/open now:
   the volatile directory and the volatile data *)
Definition kill_view (s : fs) (n : name) : option content :=
  match vol s n with
  | Some i => Some (i_data (inodes s i))
  | None => None
  end.

(* POWER LOSS at this instant: the possible bindings of n afterwards ... *)
Definition pl_bindings (s : fs) (n : name) : list (option inoid) :=
  (if fresh_dir s (fst n) then [None] else []) ++ dur s n.

(* ... and what a fresh process may then find under n *)
Definition pl_outcomes (s : fs) (n : name) : list (option content) :=
  map (fun b => match b with Some i => Some (i_synced (inodes s i)) | None => None end) (pl_bindings s n).

(* a post-power-loss image: one outcome per name, chosen independently *)
Definition pl_image (s : fs) (img : name -> option content) : Prop :=
  forall n, In (img n) (pl_outcomes s n).

(* absent, or a complete encoding *)
Definition ok_content (complete : cid -> bool) (o : option content) : bool :=
  match o with
  | None => true
  | Some (Cid c) => complete c
  | Some Garbage => false
  end.

(* exhaustive check of the conclusion on a list of names (used on concrete traces) *)
Definition views_ok (complete : cid -> bool) (s : fs) (ns : list name) : bool :=
  forallb (fun n => ok_content complete (kill_view s n) && forallb (ok_content complete) (pl_outcomes s n)) ns.

Fixpoint all_prefixes_ok (fin : name -> bool) (complete : cid -> bool) (s : fs) (tr : list fsop) (ns : list name) : bool :=
  views_ok complete s ns &&
  match tr with
  | [] => true
  | op :: r => all_prefixes_ok fin complete (step fin s op) r ns
  end.

(* does the operation (re)bind or remove the final name n? *)
Definition touches (op : fsop) (n : name) : bool :=
  match op with
  | Rename _ dst => name_eqb dst n
  | Unlink m _ => name_eqb m n
  | _ => false
  end.

Definition unlinks (op : fsop) (n : name) : bool :=
  match op with
  | Unlink m _ => name_eqb m n
  | _ => false
  end.

(* ---- results moved into the pack (update_pack) -----------------------------------------
   [covers c n]: the byte string c is a pack that contains the key of the result file n with the
   value that file holds.  [covered s pk n]: in EVERY view of the pack name pk - the volatile
   binding and every binding a power loss at this instant may leave - pk refers to a file whose
   volatile and durable contents are such packs.  The harness evaluates it at every unlink that
   update_pack issues. *)
Definition pack_view_covers (covers : cid -> name -> bool) (s : fs) (n : name) (b : option inoid) : bool :=
  match b with
  | Some i =>
      match i_data (inodes s i), i_synced (inodes s i) with
      | Cid c, Cid c' => covers c n && covers c' n
      | _, _ => false
      end
  | None => false
  end.

Definition covered (covers : cid -> name -> bool) (s : fs) (pk n : name) : bool :=
  forallb (pack_view_covers covers s n) (vol s pk :: pl_bindings s pk).

Definition makes_dir (op : fsop) (d : dirid) : bool :=
  match op with
  | Mkdir e => Pos.eqb e d
  | _ => false
  end.

(* ---- helpers for the generated correspondence cases --------------------------------- *)
Definition opt_content_eqb (a b : option content) : bool :=
  match a, b with
  | None, None => true
  | Some x, Some y => content_eqb x y
  | _, _ => false
  end.

Definition opt_ino_eqb (a b : option inoid) : bool :=
  match a, b with
  | None, None => true
  | Some x, Some y => Pos.eqb x y
  | _, _ => false
  end.

Definition mem_pos (l : list positive) (c : positive) : bool := existsb (Pos.eqb c) l.

(* set equality of two lists of bindings *)
Definition subset_b (a b : list (option inoid)) : bool :=
  forallb (fun x => existsb (opt_ino_eqb x) b) a.
Definition same_set_b (a b : list (option inoid)) : bool := subset_b a b && subset_b b a.

(* ---- redis: dump is one SET of the complete value ----------------------------------- *)
Definition kv := positive -> option cid.
Inductive rcmd := RSet (k : positive) (v : cid) | RDel (k : positive).
Definition rstep (s : kv) (c : rcmd) : kv :=
  match c with
  | RSet k v => fun j => if Pos.eqb k j then Some v else s j
  | RDel k => fun j => if Pos.eqb k j then None else s j
  end.
Definition redis_dump (k : positive) (enc : cid) : list rcmd := [RSet k enc].
Fixpoint rrun (s : kv) (cs : list rcmd) : kv :=
  match cs with
  | [] => s
  | c :: r => rrun (rstep s c) r
  end.
