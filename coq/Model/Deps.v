(* Model of argument structure, the dependency walk (Task.dependencies + the
   __jug_dependencies__ hooks), argument resolution (value()) and task invocation
   (Task._execute).  Executable definitions only. *)
From Coq Require Import List Arith ZArith Bool PArith.
From JugV Require Import Model.MapReduce Model.Slice.
Import ListNotations.

Definition tid := positive.          (* a task, identified by its (interned) hash *)

Inductive key := KInt (z : Z) | KAtom (a : positive).

(* run-time values *)
Inductive val : Type :=
| VInt (z : Z)
| VAtom (a : positive)                  (* any other atomic value, interned *)
| VSlice (sl : pyslice)
| VList (l : list val)
| VTuple (l : list val)
| VDict (kvs : list (key * val))
| VTaskRef (t : tid)                    (* a Task OBJECT handed over unresolved (NoHash(task), task inside a set) *)
| VApp (f : positive) (args : list val) (kwargs : list (positive * val)).
                                        (* the free ("Herbrand") result of calling function f on these arguments:
                                           an opaque, non-indexable object that records exactly what f received *)

Inductive tlfun :=
| FGetCheck (i n : nat)                 (* partial(_get_check, i=i, n=n): return_tuple *)
| FWrap.                                (* a plain function x -> (x,) used by the generators *)

(* what can stand in an argument position of a Task *)
Inductive arg : Type :=
| AVal (v : val)                        (* plain value: value() returns it unchanged *)
| ATask (t : tid)
| AList (xs : list arg)
| ATuple (xs : list arg)
| ADict (kvs : list (key * arg))
| AGetitem (base idx : arg)             (* Tasklet(base, _getitem(idx)): base[idx] *)
| AFun (base : arg) (f : tlfun)         (* Tasklet(base, f) *)
| AMapSeq (blocks : list tid) (bs : nat) (len : Z)                 (* block_access *)
| AMapSlice (blocks : list tid) (bs : nat) (len : Z) (r : prange)  (* block_access_slice *)
| ACustom (x : arg)                     (* CustomHash(x, h) *)
| ANoHashVal (v : val)                  (* NoHash(plain value) *)
| ANoHashTask (t : tid)                 (* NoHash(task): the task object itself is handed over *)
| AOpaque (declared : list tid) (v : val).
    (* an object value() hands over as it is (v, possibly with VTaskRef's inside).  [declared] = the tasks inside
       it that Task.dependencies() nevertheless yields: an instance of a list/tuple/dict SUBCLASS (namedtuple,
       OrderedDict, defaultdict, ...) is walked by the isinstance tests of dependencies() but left alone by the
       exact type tests of value();  a set / frozenset / any other object holding tasks is ignored by both:
       [declared] = [] *)

(* ---- the dependency walk of the code ------------------------------------------------------- *)
(* Task.dependencies(): work-list over args/kwargs; an object with __jug_dependencies__ contributes
   what that hook returns (walked again), a Task is yielded, list/tuple/dict values are walked,
   anything else is ignored.  Hooks: Tasklet -> base (+ its operation if that has the hook),
   _getitem -> [index], block_access -> blocks, block_access_slice -> base's, CustomHash -> [obj]. *)
Fixpoint impl_deps (a : arg) : list tid :=
  match a with
  | AVal _ => []
  | ATask t => [t]
  | AList xs | ATuple xs => flat_map impl_deps xs
  | ADict kvs => flat_map (fun kv => impl_deps (snd kv)) kvs
  | AGetitem base idx => impl_deps base ++ impl_deps idx
  | AFun base _ => impl_deps base
  | AMapSeq blocks _ _ => blocks
  | AMapSlice blocks _ _ _ => blocks
  | ACustom x => impl_deps x
  | ANoHashVal _ | ANoHashTask _ => []
  | AOpaque declared _ => declared
  end.

(* ---- value() ------------------------------------------------------------------------------- *)
(* outcome of resolving an argument: a value, "a needed result is not in the store"
   (Task.load asserts can_load), or an exception raised by an operation (IndexError, KeyError, ...) *)
Inductive res (A : Type) : Type := Ok (a : A) | Missing | Raised.
Arguments Ok {A} a.
Arguments Missing {A}.
Arguments Raised {A}.

Definition rbind {A B} (r : res A) (f : A -> res B) : res B :=
  match r with Ok x => f x | Missing => Missing | Raised => Raised end.
Definition rmap {A B} (f : A -> B) (r : res A) : res B := rbind r (fun x => Ok (f x)).
Definition of_opt {A} (o : option A) : res A := match o with Some x => Ok x | None => Raised end.

(* left to right; the first failure wins (Python evaluation order) *)
Fixpoint rsequence {A} (l : list (res A)) : res (list A) :=
  match l with
  | [] => Ok []
  | r :: t => rbind r (fun x => rmap (cons x) (rsequence t))
  end.

Definition key_eqb (a b : key) : bool :=
  match a, b with
  | KInt x, KInt y => Z.eqb x y
  | KAtom x, KAtom y => Pos.eqb x y
  | _, _ => false
  end.

Fixpoint dict_get (kvs : list (key * val)) (k : key) : option val :=
  match kvs with
  | [] => None
  | (k', v) :: t => if key_eqb k' k then Some v else dict_get t k
  end.

(* obj[idx] on run-time values; None = an exception (IndexError/KeyError/TypeError) *)
Definition val_getitem (o idx : val) : option val :=
  match o, idx with
  | VList l, VInt z => py_list_get l z
  | VTuple l, VInt z => py_list_get l z
  | VList l, VSlice sl =>
      match py_list_slice l sl with Some r => option_map VList (sequence_opt r) | None => None end
  | VTuple l, VSlice sl =>
      match py_list_slice l sl with Some r => option_map VTuple (sequence_opt r) | None => None end
  | VDict kvs, VInt z => dict_get kvs (KInt z)
  | VDict kvs, VAtom a => dict_get kvs (KAtom a)
  | _, _ => None
  end.

Definition seq_items (v : val) : option (list val) :=
  match v with VList l | VTuple l => Some l | _ => None end.

Definition tl_apply (f : tlfun) (o : val) : option val :=
  match f with
  | FGetCheck i n => match seq_items o with
                     | Some l => if Nat.eqb (length l) n then nth_error l i else None
                     | None => None
                     end
  | FWrap => Some (VTuple [o])
  end.

Section Resolve.
  Variable st : tid -> option val.       (* the store: results by task *)

  Definition load (t : tid) : res val := match st t with Some v => Ok v | None => Missing end.

  (* value(block task) as a sequence (res.extend(value(blk))) *)
  Definition block_items (b : tid) : res (list val) := rbind (load b) (fun v => of_opt (seq_items v)).

  (* element p (0 <= p) of a mapped sequence: value(self.blocks[p // bs][p % bs]) - only that block is read *)
  Definition mapseq_elem (blocks : list tid) (bs : nat) (p : nat) : res val :=
    match nth_error blocks (p / bs) with
    | Some b => rbind (block_items b) (fun l => of_opt (nth_error l (p mod bs)))
    | None => Raised
    end.

  (* value(m[i]) for the i-th position of the slice's range *)
  Definition mapslice_elem (blocks : list tid) (bs : nat) (len : Z) (r : prange) (i : nat) : res val :=
    match range_get r (Z.of_nat i) with
    | Some q =>
        let q' := if (q <? 0)%Z then (q + len)%Z else q in
        if ((0 <=? q') && (q' <? len))%Z then mapseq_elem blocks bs (Z.to_nat q') else Raised
    | None => Raised
    end.

  (* value(elem).  *)
  Fixpoint resolve (a : arg) : res val :=
    match a with
    | AVal v => Ok v
    | ATask t => load t
    | AList xs => rmap VList (rsequence (map resolve xs))
    | ATuple xs => rmap VTuple (rsequence (map resolve xs))
    | ADict kvs => rmap VDict (rsequence (map (fun kv => rmap (fun v => (fst kv, v)) (resolve (snd kv))) kvs))
    | AGetitem base idx => rbind (resolve base) (fun o => rbind (resolve idx) (fun i => of_opt (val_getitem o i)))
    | AFun base f => rbind (resolve base) (fun o => of_opt (tl_apply f o))
    | AMapSeq blocks _ _ => rmap (fun bl => VList (concat bl)) (rsequence (map block_items blocks))
    | AMapSlice blocks bs len r =>
        rmap VList (rsequence (map (mapslice_elem blocks bs len r) (seq 0 (Z.to_nat (range_len r)))))
    | ACustom x => resolve x
    | ANoHashVal v => Ok v
    | ANoHashTask t => Ok (VTaskRef t)
    | AOpaque _ v => Ok v
    end.
End Resolve.

(* ---- tasks and their invocation ------------------------------------------------------------ *)
Record task := { t_id : tid; t_fn : positive; t_args : list arg; t_kwargs : list (positive * arg) }.

Definition task_deps (t : task) : list tid :=
  flat_map impl_deps (t_args t) ++ flat_map (fun kv => impl_deps (snd kv)) (t_kwargs t).

(* Task._execute: args = [value(a)], kwargs = {k: value(v)} *)
Definition task_inputs (st : tid -> option val) (t : task) : res (list val * list (positive * val)) :=
  rbind (rsequence (map (resolve st) (t_args t))) (fun a =>
  rbind (rsequence (map (fun kv => rmap (fun v => (fst kv, v)) (resolve st (snd kv))) (t_kwargs t))) (fun k =>
  Ok (a, k))).

(* The task functions of the generated programs are free constructors: what they return records
   exactly what they received.  [fkind] says how the free result is packaged (so that tasklets can
   index into it) or that the function raises. *)
Inductive fkind := FkApp | FkList (n : nat) | FkTuple (n : nat) | FkDict | FkRaise.

Definition fsem (k : fkind) (f : positive) (args : list val) (kw : list (positive * val)) : option val :=
  let h := VApp f args kw in
  match k with
  | FkApp => Some h
  | FkList n => Some (VList (h :: map (fun i => VInt (Z.of_nat i)) (seq 1 n)))
  | FkTuple n => Some (VTuple (h :: map (fun i => VInt (Z.of_nat i)) (seq 1 n)))
  | FkDict => Some (VDict [(KInt 0, h); (KInt 1, VInt 1)])
  | FkRaise => None
  end.

(* outcome of running a task against a store *)
Inductive fres := FRet (v : val) | FRaise | FMissing.

Definition task_run (kinds : positive -> fkind) (st : tid -> option val) (t : task) : fres :=
  match task_inputs st t with
  | Ok (a, k) => match fsem (kinds (t_fn t)) (t_fn t) a k with Some v => FRet v | None => FRaise end
  | Missing => FMissing
  | Raised => FRaise
  end.

(* ---- executable equality on values (case files) --------------------------------------------- *)
Definition oz_eqb (a b : option Z) : bool :=
  match a, b with None, None => true | Some x, Some y => Z.eqb x y | _, _ => false end.
Definition slice_eqb (a b : pyslice) : bool :=
  oz_eqb (sl_start a) (sl_start b) && oz_eqb (sl_stop a) (sl_stop b) && oz_eqb (sl_step a) (sl_step b).

Fixpoint val_eqb (a b : val) : bool :=
  match a, b with
  | VInt x, VInt y => Z.eqb x y
  | VAtom x, VAtom y => Pos.eqb x y
  | VSlice x, VSlice y => slice_eqb x y
  | VList l, VList l' | VTuple l, VTuple l' =>
      (fix go (l l' : list val) : bool :=
         match l, l' with
         | [], [] => true
         | x :: t, y :: t' => val_eqb x y && go t t'
         | _, _ => false
         end) l l'
  | VDict l, VDict l' =>
      (fix go (l l' : list (key * val)) : bool :=
         match l, l' with
         | [], [] => true
         | (k, x) :: t, (k', y) :: t' => key_eqb k k' && val_eqb x y && go t t'
         | _, _ => false
         end) l l'
  | VTaskRef x, VTaskRef y => Pos.eqb x y
  | VApp f l k, VApp f' l' k' =>
      Pos.eqb f f' &&
      (fix go (l l' : list val) : bool :=
         match l, l' with
         | [], [] => true
         | x :: t, y :: t' => val_eqb x y && go t t'
         | _, _ => false
         end) l l' &&
      (fix go (l l' : list (positive * val)) : bool :=
         match l, l' with
         | [], [] => true
         | (n, x) :: t, (n', y) :: t' => Pos.eqb n n' && val_eqb x y && go t t'
         | _, _ => false
         end) k k'
  | _, _ => false
  end.

Definition res_eqb {A} (eqb : A -> A -> bool) (a b : res A) : bool :=
  match a, b with
  | Ok x, Ok y => eqb x y
  | Missing, Missing | Raised, Raised => true
  | _, _ => false
  end.

Definition fres_eqb (a b : fres) : bool :=
  match a, b with
  | FRet x, FRet y => val_eqb x y
  | FRaise, FRaise | FMissing, FMissing => true
  | _, _ => false
  end.

(* set-equality of task lists (order and multiplicity of Task.dependencies() are not specified) *)
Definition tids_subset (a b : list tid) : bool := forallb (fun x => existsb (Pos.eqb x) b) a.
Definition tids_seteq (a b : list tid) : bool := tids_subset a b && tids_subset b a.

(* association-list stores for the case files *)
Fixpoint st_of (l : list (tid * val)) (t : tid) : option val :=
  match l with [] => None | (k, v) :: r => if Pos.eqb k t then Some v else st_of r t end.
