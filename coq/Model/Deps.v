(* Model of argument structure, the dependency walk (Task.dependencies + the
   __jug_dependencies__ hooks) and argument resolution (value()).  Executable definitions only. *)
From Coq Require Import List Arith ZArith Bool PArith.
From JugV Require Import Model.MapReduce Model.Slice.
Import ListNotations.

Definition tid := positive.          (* a task, identified by its (interned) hash *)

Inductive key := KInt (z : Z) | KAtom (a : positive).

(* run-time values *)
Inductive val : Type :=
| VInt (z : Z)
| VAtom (a : positive)                  (* any other atomic value, interned *)
| VSlice (sl : pyslice)
| VList (l : list val)
| VTuple (l : list val)
| VDict (kvs : list (key * val))
| VTaskRef (t : tid).                   (* a Task OBJECT handed over unresolved (NoHash(task), task inside a set) *)

Inductive tlfun :=
| FGetCheck (i n : nat)                 (* partial(_get_check, i=i, n=n): return_tuple *)
| FWrap.                                (* a plain function x -> (x,) used by the generators *)

(* what can stand in an argument position of a Task *)
Inductive arg : Type :=
| AVal (v : val)                        (* plain value: value() returns it unchanged *)
| ATask (t : tid)
| AList (xs : list arg)
| ATuple (xs : list arg)
| ADict (kvs : list (key * arg))
| AGetitem (base idx : arg)             (* Tasklet(base, _getitem(idx)): base[idx] *)
| AFun (base : arg) (f : tlfun)         (* Tasklet(base, f) *)
| AMapSeq (blocks : list tid) (bs : nat) (len : Z)                 (* block_access *)
| AMapSlice (blocks : list tid) (bs : nat) (len : Z) (r : prange)  (* block_access_slice *)
| ACustom (x : arg)                     (* CustomHash(x, h) *)
| ANoHashVal (v : val)                  (* NoHash(plain value) *)
| ANoHashTask (t : tid)                 (* NoHash(task): the task object itself is handed over *)
| AOpaque (inside : list tid) (v : val). (* an object value() leaves alone although tasks occur inside it *)

(* ---- the dependency walk of the code ------------------------------------------------------- *)
(* Task.dependencies(): work-list over args/kwargs; an object with __jug_dependencies__ contributes
   what that hook returns (walked again), a Task is yielded, list/tuple/dict values are walked,
   anything else is ignored.  Hooks: Tasklet -> base (+ its operation if that has the hook),
   _getitem -> [index], block_access -> blocks, block_access_slice -> base's, CustomHash -> [obj]. *)
Fixpoint impl_deps (a : arg) : list tid :=
  match a with
  | AVal _ => []
  | ATask t => [t]
  | AList xs | ATuple xs => flat_map impl_deps xs
  | ADict kvs => flat_map (fun kv => impl_deps (snd kv)) kvs
  | AGetitem base idx => impl_deps base ++ impl_deps idx
  | AFun base _ => impl_deps base
  | AMapSeq blocks _ _ => blocks
  | AMapSlice blocks _ _ _ => blocks
  | ACustom x => impl_deps x
  | ANoHashVal _ | ANoHashTask _ | AOpaque _ _ => []
  end.

(* ---- value() ------------------------------------------------------------------------------- *)
Definition key_eqb (a b : key) : bool :=
  match a, b with
  | KInt x, KInt y => Z.eqb x y
  | KAtom x, KAtom y => Pos.eqb x y
  | _, _ => false
  end.

Fixpoint dict_get (kvs : list (key * val)) (k : key) : option val :=
  match kvs with
  | [] => None
  | (k', v) :: t => if key_eqb k' k then Some v else dict_get t k
  end.

(* obj[idx] on run-time values; None = an exception (IndexError/KeyError/TypeError) *)
Definition val_getitem (o idx : val) : option val :=
  match o, idx with
  | VList l, VInt z => py_list_get l z
  | VTuple l, VInt z => py_list_get l z
  | VList l, VSlice sl =>
      match py_list_slice l sl with Some r => option_map VList (sequence_opt r) | None => None end
  | VTuple l, VSlice sl =>
      match py_list_slice l sl with Some r => option_map VTuple (sequence_opt r) | None => None end
  | VDict kvs, VInt z => dict_get kvs (KInt z)
  | VDict kvs, VAtom a => dict_get kvs (KAtom a)
  | _, _ => None
  end.

Definition seq_items (v : val) : option (list val) :=
  match v with VList l | VTuple l => Some l | _ => None end.

Definition tl_apply (f : tlfun) (o : val) : option val :=
  match f with
  | FGetCheck i n => match seq_items o with
                     | Some l => if Nat.eqb (length l) n then nth_error l i else None
                     | None => None
                     end
  | FWrap => Some (VTuple [o])
  end.

Definition bind {A B} (o : option A) (f : A -> option B) : option B :=
  match o with Some x => f x | None => None end.

Section Resolve.
  Variable st : tid -> option val.       (* the store: results by task *)

  (* value of the blocks of a mapped sequence: each block task's result must be a sequence *)
  Definition block_values (blocks : list tid) : option (list (list val)) :=
    sequence_opt (map (fun b => bind (st b) seq_items) blocks).

  (* value(elem).  None = some needed result is missing or an operation raised. *)
  Fixpoint resolve (a : arg) : option val :=
    match a with
    | AVal v => Some v
    | ATask t => st t
    | AList xs => option_map VList (sequence_opt (map resolve xs))
    | ATuple xs => option_map VTuple (sequence_opt (map resolve xs))
    | ADict kvs =>
        option_map VDict (sequence_opt (map (fun kv => option_map (fun v => (fst kv, v)) (resolve (snd kv))) kvs))
    | AGetitem base idx => bind (resolve base) (fun o => bind (resolve idx) (fun i => val_getitem o i))
    | AFun base f => bind (resolve base) (tl_apply f)
    | AMapSeq blocks _ _ => option_map (fun bl => VList (mapseq_value bl)) (block_values blocks)
    | AMapSlice blocks bs len r =>
        bind (block_values blocks) (fun bl =>
          option_map VList (sequence_opt (bslice_value
            {| bs_base := {| ba_blocks := bl; ba_bs := bs; ba_len := len |}; bs_range := r |})))
    | ACustom x => resolve x
    | ANoHashVal v => Some v
    | ANoHashTask t => Some (VTaskRef t)
    | AOpaque _ v => Some v
    end.
End Resolve.

(* ---- tasks and DAGs ------------------------------------------------------------------------ *)
Record task := { t_id : tid; t_fn : positive; t_args : list arg; t_kwargs : list (positive * arg) }.

Definition task_deps (t : task) : list tid :=
  flat_map impl_deps (t_args t) ++ flat_map (fun kv => impl_deps (snd kv)) (t_kwargs t).

(* Task._execute: args = [value(a)], kwargs = {k: value(v)} *)
Definition task_inputs (st : tid -> option val) (t : task) : option (list val * list (positive * val)) :=
  bind (sequence_opt (map (resolve st) (t_args t))) (fun a =>
  bind (sequence_opt (map (fun kv => option_map (fun v => (fst kv, v)) (resolve st (snd kv))) (t_kwargs t))) (fun k =>
  Some (a, k))).

(* ---- executable equality on values (case files) --------------------------------------------- *)
Definition oz_eqb (a b : option Z) : bool :=
  match a, b with None, None => true | Some x, Some y => Z.eqb x y | _, _ => false end.
Definition slice_eqb (a b : pyslice) : bool :=
  oz_eqb (sl_start a) (sl_start b) && oz_eqb (sl_stop a) (sl_stop b) && oz_eqb (sl_step a) (sl_step b).

Fixpoint val_eqb (a b : val) : bool :=
  match a, b with
  | VInt x, VInt y => Z.eqb x y
  | VAtom x, VAtom y => Pos.eqb x y
  | VSlice x, VSlice y => slice_eqb x y
  | VList l, VList l' | VTuple l, VTuple l' =>
      (fix go (l l' : list val) : bool :=
         match l, l' with
         | [], [] => true
         | x :: t, y :: t' => val_eqb x y && go t t'
         | _, _ => false
         end) l l'
  | VDict l, VDict l' =>
      (fix go (l l' : list (key * val)) : bool :=
         match l, l' with
         | [], [] => true
         | (k, x) :: t, (k', y) :: t' => key_eqb k k' && val_eqb x y && go t t'
         | _, _ => false
         end) l l'
  | VTaskRef x, VTaskRef y => Pos.eqb x y
  | _, _ => false
  end.

(* set-equality of task lists (order and multiplicity of Task.dependencies() are not specified) *)
Definition tids_subset (a b : list tid) : bool := forallb (fun x => existsb (Pos.eqb x) b) a.
Definition tids_seteq (a b : list tid) : bool := tids_subset a b && tids_subset b a.
