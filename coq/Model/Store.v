(* C06 - the result stores of jug as key-value maps.  Executable definitions only.

   Keys and values are interned by the harness: a key is a [positive], a value an id in [Z]
   (id 0 is Python's None).  What is modelled is the BOOKKEEPING of
     jug/backends/file_store.py   (files + the in-memory copy [packed] of the pack file),
     jug/backends/dict_store.py   (prefixed dict + optional backing file written on close),
     jug/backends/redis_store.py  (key-value server),
     jug/backends/base.py         (default remove_many),
   as it is AFTER the repairs D8-D11, and the FRAMING decisions of encode.py / file_store.dump
   ([file_frame], [stream_frame]).  The byte level lives in Proofs/StoreFacts.v (section Codec). *)
From Coq Require Import List ZArith PArith Bool.
Import ListNotations.

Definition key := positive.
Definition valid := Z.
Definition vnone : valid := 0%Z.

(* ---- association lists keyed by [key] (a Python dict / a directory) ---------------------- *)
Section AList.
  Context {V : Type}.

  Fixpoint aget (k : key) (l : list (key * V)) : option V :=
    match l with
    | [] => None
    | (k', v) :: r => if Pos.eqb k k' then Some v else aget k r
    end.

  Definition amem (k : key) (l : list (key * V)) : bool :=
    match aget k l with Some _ => true | None => false end.

  Fixpoint aremove (k : key) (l : list (key * V)) : list (key * V) :=
    match l with
    | [] => []
    | (k', v) :: r => if Pos.eqb k k' then aremove k r else (k', v) :: aremove k r
    end.

  (* d[k] = v  /  (re)writing the file k *)
  Definition aset (k : key) (v : V) (l : list (key * V)) : list (key * V) := (k, v) :: aremove k l.

  Definition akeys (l : list (key * V)) : list key := map fst l.

  (* keep the entries whose key satisfies p *)
  Definition akeep (p : key -> bool) (l : list (key * V)) : list (key * V) :=
    filter (fun kv => p (fst kv)) l.
End AList.

Definition kmem (k : key) (ks : list key) : bool := existsb (Pos.eqb k) ks.
(* set.add *)
Definition kadd (k : key) (ks : list key) : list key := if kmem k ks then ks else k :: ks.

Fixpoint kinsert (k : key) (l : list key) : list key :=
  match l with
  | [] => [k]
  | x :: r => if Pos.leb k x then k :: l else x :: kinsert k r
  end.
(* sorted(...) - duplicates are kept *)
Definition sort_keys (l : list key) : list key := fold_right kinsert [] l.

(* ---- operations and their observable results ------------------------------------------------- *)
Inductive sop :=
| SDump (k : key) (v : valid)        (* store.dump(v, k) *)
| SLoad (k : key)                    (* store.load(k) *)
| SCanLoad (k : key)                 (* store.can_load(k) *)
| SRemove (k : key)                  (* store.remove(k) *)
| SRemoveMany (ks : list key)        (* store.remove_many(ks) *)
| SList                              (* store.list() *)
| SCleanup (active : list key)       (* store.cleanup(active) *)
| SPack                              (* jug pack = store.update_pack() *)
| SReopen                            (* store.close(); a new store object on the same location *)
| SPackCrash (n : nat).              (* `jug pack` dies inside update_pack(): the new pack file is in place, n of the
                                        result files it replaces (in key order) are unlinked, the others still exist
                                        - so their keys are in the pack AND files; then a new store object is opened *)

Inductive sres :=
| RUnit
| RVal (v : valid)                   (* load returned the value with this id *)
| RMissing                           (* load raised KeyError / FileNotFoundError *)
| RBool (b : bool)                   (* truthiness of can_load / remove *)
| RKeys (ks : list key)              (* list(), remove_many(): a collection of keys *)
| RCount (n : nat)                   (* cleanup(), update_pack(): number of objects removed / packed *)
| RErr (e : Z).                      (* any other exception (never produced by the model) *)

(* ---- the specification: a finite map key -> value -------------------------------------------- *)
Definition smap := list (key * valid).

Definition spec_step (s : smap) (op : sop) : smap * sres :=
  match op with
  | SDump k v => (aset k v s, RUnit)
  | SLoad k => (s, match aget k s with Some v => RVal v | None => RMissing end)
  | SCanLoad k => (s, RBool (amem k s))
  | SRemove k => (aremove k s, RBool (amem k s))
  | SRemoveMany ks => (akeep (fun k => negb (kmem k ks)) s, RKeys (filter (fun k => kmem k ks) (akeys s)))
  | SList => (s, RKeys (akeys s))
  | SCleanup act => (akeep (fun k => kmem k act) s,
                     RCount (length (akeep (fun k => negb (kmem k act)) s)))
  | SPack => (s, RUnit)
  | SReopen => (s, RUnit)
  | SPackCrash _ => (s, RUnit)
  end.

(* run a step function over an operation sequence, collecting the results *)
Fixpoint run {S : Type} (step : S -> sop -> S * sres) (s : S) (ops : list sop) : S * list sres :=
  match ops with
  | [] => (s, [])
  | op :: r => let '(s1, x) := step s op in let '(s2, xs) := run step s1 r in (s2, x :: xs)
  end.

(* "the last thing that happened to k": the history reading of the specification.
   [hist] is the operation sequence, most recent operation FIRST. *)
Fixpoint last_write (hist : list sop) (k : key) : option valid :=
  match hist with
  | [] => None
  | op :: older =>
      match op with
      | SDump k' v => if Pos.eqb k k' then Some v else last_write older k
      | SRemove k' => if Pos.eqb k k' then None else last_write older k
      | SRemoveMany ks => if kmem k ks then None else last_write older k
      | SCleanup act => if kmem k act then last_write older k else None
      | _ => last_write older k
      end
  end.

(* ---- framing: which on-disk form does a value get ---------------------------------------------- *)
Inductive frame :=
| FEmpty      (* zero bytes: None *)
| FRaw        (* a raw .npy file (np.lib.format.write_array), not compressed *)
| FPickle     (* zlib stream of  b'P' + pickle *)
| FNumpy.     (* zlib stream of  b'N' + np.save *)

(* encode.encode_to: redis values, the pack file, and files of the file store when not raw *)
Definition stream_frame (isnone isarr : bool) : frame :=
  if isnone then FEmpty else if isarr then FNumpy else FPickle.

(* file_store.dump *)
Definition file_frame (compress_numpy isnone isarr : bool) : frame :=
  if negb compress_numpy && isarr then FRaw else stream_frame isnone isarr.

(* per-value facts supplied by the harness: is it exactly a numpy.ndarray; would its raw / encoded
   file be at most MAX_FILESIZE_IN_PACK bytes *)
Record venv := { isarr : valid -> bool; small_raw : valid -> bool; small_enc : valid -> bool }.

(* ---- file_store ------------------------------------------------------------------------------------ *)
Record fstore := {
  f_files : list (key * (valid * bool));      (* key -> (value, stored as raw .npy) : jugdir/xx/yyyy... *)
  f_packed : list (key * valid);              (* self.packed *)
  f_packfile : option (list (key * valid));   (* jugdir/packs/jugpack on disk, if it exists *)
  f_compress : bool                           (* compress_numpy *)
}.

Definition f_init (compress : bool) : fstore :=
  {| f_files := []; f_packed := []; f_packfile := None; f_compress := compress |}.

Definition set_files (s : fstore) fl :=
  {| f_files := fl; f_packed := f_packed s; f_packfile := f_packfile s; f_compress := f_compress s |}.
Definition set_packed (s : fstore) p :=
  {| f_files := f_files s; f_packed := p; f_packfile := f_packfile s; f_compress := f_compress s |}.
(* resave_pack *)
Definition resave (s : fstore) :=
  {| f_files := f_files s; f_packed := f_packed s; f_packfile := Some (f_packed s); f_compress := f_compress s |}.

(* load: packed first, then the file (raw .npy tried first, else decode: both give back the value) *)
Definition f_load (s : fstore) (k : key) : option valid :=
  match aget k (f_packed s) with
  | Some v => Some v
  | None => match aget k (f_files s) with Some (v, _) => Some v | None => None end
  end.

Definition f_can_load (s : fstore) (k : key) : bool := amem k (f_packed s) || amem k (f_files s).

Definition f_dump (E : venv) (s : fstore) (k : key) (v : valid) : fstore :=
  let s1 := if amem k (f_packed s) then resave (set_packed s (aremove k (f_packed s))) else s in
  set_files s1 (aset k (v, negb (f_compress s1) && isarr E v) (f_files s1)).

Fixpoint f_remove_loop (ks : list key) (files : list (key * (valid * bool))) (packed : list (key * valid))
         (removed : list key) : list (key * (valid * bool)) * list (key * valid) * list key :=
  match ks with
  | [] => (files, packed, removed)
  | k :: r =>
      let inp := amem k packed in
      let packed1 := if inp then aremove k packed else packed in
      let removed1 := if inp then kadd k removed else removed in
      let inf := amem k files in
      let files1 := if inf then aremove k files else files in          (* os.unlink / OSError *)
      let removed2 := if inf then kadd k removed1 else removed1 in
      f_remove_loop r files1 packed1 removed2
  end.

Definition f_remove_many (s : fstore) (ks : list key) : fstore * list key :=
  match f_remove_loop ks (f_files s) (f_packed s) [] with
  | (fl, p, removed) => (resave (set_packed (set_files s fl) p), removed)
  end.

Definition f_cleanup (s : fstore) (act : list key) : fstore * nat :=
  let fl := akeep (fun k => kmem k act) (f_files s) in
  let nf := length (akeep (fun k => negb (kmem k act)) (f_files s)) in
  let p := akeep (fun k => kmem k act) (f_packed s) in
  let np := length (akeep (fun k => negb (kmem k act)) (f_packed s)) in
  let s1 := set_packed (set_files s fl) p in
  ((if Nat.eqb np 0 then s1 else resave s1), (nf + np)%nat).

Definition entry_small (E : venv) (x : valid * bool) : bool :=
  if snd x then small_raw E (fst x) else small_enc E (fst x).

(* the loop of update_pack: files are only read here; they are unlinked afterwards *)
Fixpoint f_pack_loop (E : venv) (todo : list (key * (valid * bool))) (s : fstore) (to_remove : list key)
  : fstore * list key :=
  match todo with
  | [] => (s, to_remove)
  | (k, x) :: r =>
      if entry_small E x then
        match f_load s k with
        | Some v => f_pack_loop E r (set_packed s (aset k v (f_packed s))) (k :: to_remove)
        | None => f_pack_loop E r s to_remove      (* cannot happen: the file was just listed *)
        end
      else f_pack_loop E r s to_remove
  end.

Definition f_pack (E : venv) (s : fstore) : fstore * nat :=
  match f_pack_loop E (f_files s) s [] with
  | (s1, rm) =>
      let s2 := resave s1 in
      (set_files s2 (fold_left (fun fl k => aremove k fl) rm (f_files s2)), length rm)
  end.

(* a new file_store on the same directory reads the pack file *)
Definition f_reopen (s : fstore) : fstore :=
  set_packed s (match f_packfile s with Some p => p | None => [] end).

(* update_pack killed at its (n+1)-th os.unlink of a result file: the loop and resave_pack() are done, the
   files are unlinked in the order of _iter_filekeys() (sorted); the next process opens the directory *)
Definition f_pack_crash (E : venv) (s : fstore) (n : nat) : fstore :=
  match f_pack_loop E (f_files s) s [] with
  | (s1, rm) =>
      let s2 := resave s1 in
      f_reopen (set_files s2 (fold_left (fun fl k => aremove k fl) (firstn n (sort_keys rm)) (f_files s2)))
  end.

Definition fstep (E : venv) (s : fstore) (op : sop) : fstore * sres :=
  match op with
  | SDump k v => (f_dump E s k v, RUnit)
  | SLoad k => (s, match f_load s k with Some v => RVal v | None => RMissing end)
  | SCanLoad k => (s, RBool (f_can_load s k))
  | SRemove k => let '(s1, removed) := f_remove_many s [k] in
                 (s1, RBool (match removed with [] => false | _ => true end))
  | SRemoveMany ks => let '(s1, removed) := f_remove_many s ks in (s1, RKeys removed)
  | SList => (s, RKeys (akeys (f_packed s) ++ akeys (f_files s)))
  | SCleanup act => let '(s1, n) := f_cleanup s act in (s1, RCount n)
  | SPack => let '(s1, n) := f_pack E s in (s1, RCount n)
  | SReopen => (f_reopen s, RUnit)
  | SPackCrash n => (f_pack_crash E s n, RUnit)
  end.

(* ---- base_store.remove_many: call remove for every name, collect those that report True ----------- *)
Fixpoint base_remove_many {S : Type} (remove : S -> key -> S * bool) (s : S) (ks : list key) (acc : list key)
  : S * list key :=
  match ks with
  | [] => (s, rev acc)
  | k :: r => let '(s1, b) := remove s k in base_remove_many remove s1 r (if b then k :: acc else acc)
  end.

(* ---- dict_store ------------------------------------------------------------------------------------- *)
Record dstore := {
  d_mem : list (key * valid);             (* self.store, result: entries (values are pickled at dump time) *)
  d_file : option (list (key * valid));   (* the backing file on disk, if it has been written *)
  d_backed : bool                         (* constructed with a backing file name *)
}.

Definition d_init (backed : bool) : dstore := {| d_mem := []; d_file := None; d_backed := backed |}.
Definition d_set_mem (s : dstore) m := {| d_mem := m; d_file := d_file s; d_backed := d_backed s |}.

Definition d_remove (s : dstore) (k : key) : dstore * bool :=
  if amem k (d_mem s) then (d_set_mem s (aremove k (d_mem s)), true) else (s, false).

Definition d_cleanup (s : dstore) (act : list key) : dstore * nat :=
  let existing := filter (fun k => negb (kmem k act)) (akeys (d_mem s)) in
  (d_set_mem s (fold_left (fun m k => aremove k m) existing (d_mem s)), length existing).

(* close() writes the dict to the backing file; dict_store(file) reads it.  Without a backing file a
   new dict_store() is empty. *)
Definition d_reopen (s : dstore) : dstore :=
  if d_backed s then
    let f := Some (d_mem s) in
    {| d_mem := match f with Some m => m | None => [] end; d_file := f; d_backed := true |}
  else {| d_mem := []; d_file := d_file s; d_backed := false |}.

Definition dstep (s : dstore) (op : sop) : dstore * sres :=
  match op with
  | SDump k v => (d_set_mem s (aset k v (d_mem s)), RUnit)
  | SLoad k => (s, match aget k (d_mem s) with Some v => RVal v | None => RMissing end)
  | SCanLoad k => (s, RBool (amem k (d_mem s)))
  | SRemove k => let '(s1, b) := d_remove s k in (s1, RBool b)
  | SRemoveMany ks => let '(s1, removed) := base_remove_many d_remove s ks [] in (s1, RKeys removed)
  | SList => (s, RKeys (akeys (d_mem s)))
  | SCleanup act => let '(s1, n) := d_cleanup s act in (s1, RCount n)
  | SPack => (s, RUnit)                    (* `jug pack` refuses: no update_pack *)
  | SReopen => (d_reopen s, RUnit)
  | SPackCrash _ => (s, RUnit)             (* nothing to interrupt: `jug pack` refuses before doing anything *)
  end.

(* ---- redis_store ------------------------------------------------------------------------------------ *)
Definition rstore := list (key * valid).    (* the result:* keys of the server *)

Definition r_remove (s : rstore) (k : key) : rstore * bool :=
  if amem k s then (aremove k s, true) else (s, false).      (* DEL returns the number of keys deleted *)

Definition r_cleanup (s : rstore) (act : list key) : rstore * nat :=
  let existing := filter (fun k => negb (kmem k act)) (akeys s) in
  (fold_left (fun m k => aremove k m) existing s, length existing).

Definition rstep (s : rstore) (op : sop) : rstore * sres :=
  match op with
  | SDump k v => (aset k v s, RUnit)
  (* GET of an absent key gives None, `if s:` is skipped and decode(None) is Python's None:
     loading a key that is not there does not raise, it returns None *)
  | SLoad k => (s, match aget k s with Some v => RVal v | None => RVal vnone end)
  | SCanLoad k => (s, RBool (amem k s))
  | SRemove k => let '(s1, b) := r_remove s k in (s1, RBool b)
  | SRemoveMany ks => let '(s1, removed) := base_remove_many r_remove s ks [] in (s1, RKeys removed)
  | SList => (s, RKeys (akeys s))
  | SCleanup act => let '(s1, n) := r_cleanup s act in (s1, RCount n)
  | SPack => (s, RUnit)
  | SReopen => (s, RUnit)                  (* a new client of the same server *)
  | SPackCrash _ => (s, RUnit)
  end.

(* ---- helpers for the correspondence cases ------------------------------------------------------------ *)
Inductive sconfig := CFile (compress : bool) | CDict (backed : bool) | CRedis.

Definition norm_res (r : sres) : sres :=
  match r with RKeys l => RKeys (sort_keys l) | _ => r end.

(* final bookkeeping state of a file store: sorted packed keys, sorted raw-file keys, sorted encoded-file keys *)
Definition f_shape (s : fstore) : list key * list key * list key :=
  (sort_keys (akeys (f_packed s)),
   sort_keys (akeys (filter (fun kv => snd (snd kv)) (f_files s))),
   sort_keys (akeys (filter (fun kv => negb (snd (snd kv))) (f_files s)))).

Definition model_run (c : sconfig) (E : venv) (ops : list sop) : list sres * option (list key * list key * list key) :=
  match c with
  | CFile compress => let '(s, out) := run (fstep E) (f_init compress) ops in (map norm_res out, Some (f_shape s))
  | CDict backed => let '(s, out) := run dstep (d_init backed) ops in (map norm_res out, None)
  | CRedis => let '(s, out) := run rstep [] ops in (map norm_res out, None)
  end.

Definition spec_run (ops : list sop) : list sres := map norm_res (snd (run spec_step [] ops)).

Definition key_list_eqb (a b : list key) : bool :=
  (Nat.eqb (length a) (length b)) && forallb (fun p => Pos.eqb (fst p) (snd p)) (combine a b).

Definition sres_eqb (a b : sres) : bool :=
  match a, b with
  | RUnit, RUnit => true
  | RVal x, RVal y => Z.eqb x y
  | RMissing, RMissing => true
  | RBool x, RBool y => Bool.eqb x y
  | RKeys x, RKeys y => key_list_eqb x y
  | RCount x, RCount y => Nat.eqb x y
  | RErr x, RErr y => Z.eqb x y
  | _, _ => false
  end.

Definition sres_list_eqb (a b : list sres) : bool :=
  (Nat.eqb (length a) (length b)) && forallb (fun p => sres_eqb (fst p) (snd p)) (combine a b).

(* value table (id, (isarr, small_raw, small_enc)) -> venv *)
Definition venv_of (tbl : list (valid * (bool * bool * bool))) : venv :=
  let look (f : bool * bool * bool -> bool) (v : valid) :=
    match find (fun e => Z.eqb (fst e) v) tbl with Some e => f (snd e) | None => false end in
  {| isarr := look (fun t => fst (fst t)); small_raw := look (fun t => snd (fst t)); small_enc := look (fun t => snd t) |}.

Definition shape_eqb (a b : option (list key * list key * list key)) : bool :=
  match a, b with
  | None, None => true
  | Some (p, r, e), Some (p', r', e') => key_list_eqb p p' && key_list_eqb r r' && key_list_eqb e e'
  | _, _ => false
  end.

(* one correspondence case: configuration, value table, operations, the results the real store gave
   (key collections sorted), and for a file store the final split packed / raw files / encoded files *)
Definition case_ok (c : sconfig * list (valid * (bool * bool * bool)) * list sop * list sres
                        * option (list key * list key * list key)) : bool :=
  match c with
  | (cfg, tbl, ops, obs, shape) =>
      let '(out, sh) := model_run cfg (venv_of tbl) ops in
      sres_list_eqb out obs && shape_eqb sh shape
  end.

Definition frame_code (f : frame) : nat :=
  match f with FEmpty => 0 | FRaw => 1 | FPickle => 2 | FNumpy => 3 end.

(* (compress_numpy, isnone, isarr, observed code of the file, observed code of encode()) *)
Definition frame_case_ok (c : bool * bool * bool * nat * nat) : bool :=
  match c with
  | (compress, isnone, isarr, ffile, fstream) =>
      Nat.eqb (frame_code (file_frame compress isnone isarr)) ffile &&
      Nat.eqb (frame_code (stream_frame isnone isarr)) fstream
  end.
