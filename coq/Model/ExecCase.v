(* Glue between the argument/task model (Deps) and the execution protocol (Exec): the
   configuration a generated program denotes, and the checks the correspondence case files run.
   Executable definitions only. *)
From Coq Require Import List Arith ZArith Bool PArith.
From JugV Require Import Model.CaseLib Model.MapReduce Model.Slice Model.Deps Model.Exec.
Import ListNotations.

(* a generated program: its tasks in definition order, how each function packages its free result *)
Record program := {
  p_tasks : list task;
  p_kinds : list (positive * fkind);        (* function id -> kind; absent = FkApp *)
  p_keep_going : bool;
  p_keep_failed : bool
}.

Fixpoint kind_of (l : list (positive * fkind)) (f : positive) : fkind :=
  match l with [] => FkApp | (g, k) :: r => if Pos.eqb g f then k else kind_of r f end.

Fixpoint find_task (l : list task) (t : tid) : option task :=
  match l with [] => None | x :: r => if Pos.eqb (t_id x) t then Some x else find_task r t end.

Definition prog_sem (p : program) (t : tid) (st : tid -> option val) : out val :=
  match find_task (p_tasks p) t with
  | Some x => match task_run (kind_of (p_kinds p)) st x with
              | FRet v => Ret v
              | FRaise => Raise
              | FMissing => NoInput
              end
  | None => NoInput
  end.

Definition prog_deps (p : program) (t : tid) : list tid :=
  match find_task (p_tasks p) t with Some x => task_deps x | None => [] end.

Definition prog_cfg (p : program) : cfg val :=
  {| c_tasks := map t_id (p_tasks p); c_deps := prog_deps p; c_sem := prog_sem p; c_eqb := val_eqb;
     c_keep_going := p_keep_going p; c_keep_failed := p_keep_failed p |}.

(* well-formed: task ids are distinct and every dependency is a task defined earlier (what executing
   a jugfile top to bottom guarantees) *)
Fixpoint wf_tasks (seen : list tid) (l : list task) : bool :=
  match l with
  | [] => true
  | x :: r => negb (mem (t_id x) seen) && forallb (fun d => mem d seen) (task_deps x) && wf_tasks (t_id x :: seen) r
  end.
Definition wf_prog (p : program) : bool := wf_tasks [] (p_tasks p).

(* the values plain sequential evaluation of the program gives (no store, no workers) *)
Definition prog_seq (p : program) (r0 : list (tid * val)) : tid -> option val :=
  seq_eval (prog_cfg p) (map t_id (p_tasks p)) (st_of r0).

(* one recorded run: the program, the results present at the start, the event trace of all workers
   in the order the events happened, and the store content at the end (value per task, None = no result) *)
Definition exec_case := (program * list (tid * val) * list (ev val) * list (tid * option val))%type.

Definition final_agrees (s : st val) (fin : list (tid * option val)) : bool :=
  forallb (fun kv => option_eqb val_eqb (results s (fst kv)) (snd kv)) fin.

(* the run is a run of the protocol, and the store ends as the model says *)
Definition exec_case_ok (c : exec_case) : bool :=
  match c with (p, r0, tr, fin) =>
    wf_prog p &&
    match run (prog_cfg p) (init (st_of r0)) tr with
    | Some s => final_agrees s fin
    | None => false
    end
  end.

(* diagnosis of a failing case: Some i = event i (from 0) is not enabled in the model;
   None = all events accepted (then the final store differs) *)
Definition exec_case_diag (c : exec_case) : option nat :=
  match c with (p, r0, tr, fin) => first_reject (prog_cfg p) (init (st_of r0)) tr 0 end.

(* every value in the final store is the one sequential evaluation gives *)
Definition final_is_sequential (c : exec_case) : bool :=
  match c with (p, r0, tr, fin) =>
    forallb (fun kv => match snd kv with
                       | Some v => option_eqb val_eqb (prog_seq p r0 (fst kv)) (Some v)
                       | None => true
                       end) fin
  end.

(* ---- programs with barriers, run by many workers ------------------------------------------------
   barrier() makes everything after it wait for everything before it, and bvalue(t) makes everything
   after it wait for t (C14: the loader passes a barrier only if every earlier task is stored, and
   bvalue only with the stored value).  For the execution protocol that is an extra scheduling
   dependency: [bp_extra] lists, for each task defined after a barrier / bvalue, the tasks it thereby
   waits for.  The task list is the full sequential unfolding of the jugfile. *)
Record bprogram := { bp_prog : program; bp_extra : list (tid * list tid) }.

Fixpoint extra_of (l : list (tid * list tid)) (t : tid) : list tid :=
  match l with [] => [] | (k, ds) :: r => if Pos.eqb k t then ds else extra_of r t end.

Definition bprog_deps (bp : bprogram) (t : tid) : list tid :=
  prog_deps (bp_prog bp) t ++ (if mem t (map t_id (p_tasks (bp_prog bp))) then extra_of (bp_extra bp) t else []).

Definition bprog_cfg (bp : bprogram) : cfg val :=
  {| c_tasks := map t_id (p_tasks (bp_prog bp)); c_deps := bprog_deps bp; c_sem := prog_sem (bp_prog bp);
     c_eqb := val_eqb; c_keep_going := p_keep_going (bp_prog bp); c_keep_failed := p_keep_failed (bp_prog bp) |}.

Fixpoint wf_btasks (extra : list (tid * list tid)) (seen : list tid) (l : list task) : bool :=
  match l with
  | [] => true
  | x :: r => negb (mem (t_id x) seen) && forallb (fun d => mem d seen) (task_deps x ++ extra_of extra (t_id x))
              && wf_btasks extra (t_id x :: seen) r
  end.
Definition wf_bprog (bp : bprogram) : bool := wf_btasks (bp_extra bp) [] (p_tasks (bp_prog bp)).

Definition bexec_case := (bprogram * list (tid * val) * list (ev val) * list (tid * option val))%type.

Definition bexec_case_ok (c : bexec_case) : bool :=
  match c with (bp, r0, tr, fin) =>
    wf_bprog bp &&
    match run (bprog_cfg bp) (init (st_of r0)) tr with
    | Some s => final_agrees s fin
    | None => false
    end
  end.

Definition bexec_case_diag (c : bexec_case) : option nat :=
  match c with (bp, r0, tr, fin) => first_reject (bprog_cfg bp) (init (st_of r0)) tr 0 end.

(* sequential evaluation ignores barriers: they only delay *)
Definition bfinal_is_sequential (c : bexec_case) : bool :=
  match c with (bp, r0, tr, fin) => final_is_sequential (bp_prog bp, r0, tr, fin) end.
