(* The task graph of a loaded jugfile, relative to the direct-dependency lists.
   Executable definitions only (plus the inductive reading of reachability).

   A jugfile, once loaded, is the list [task.alltasks] in creation order.  Every entry is one Task
   OBJECT: [n_tid] is its (interned) hash, [n_name] its (interned) function name "module.function",
   [n_deps] the hashes of what [Task.dependencies()] yields for it (Tasklets, containers, keyword
   arguments, mapped sequences ... are already seen through: that walk is Model/Deps.v's subject).
   Two objects may carry the same hash (the same call written twice), so the list may mention a
   tid more than once; the store and the locks are keyed by hash.
   Shared by C09 (Model/Invalidate.v) and C15 (Model/Status.v); independent of the other models. *)
From Coq Require Import List PArith Bool Arith.
Import ListNotations.

Definition tid := positive.
Definition fname := positive.
Definition node := (tid * fname * list tid)%type.
Definition n_tid (n : node) : tid := fst (fst n).
Definition n_name (n : node) : fname := snd (fst n).
Definition n_deps (n : node) : list tid := snd n.
Definition dag := list node.

Definition tids (d : dag) : list tid := map n_tid d.

Definition mem (x : tid) (l : list tid) : bool := existsb (Pos.eqb x) l.
Definition subset_b (a b : list tid) : bool := forallb (fun x => mem x b) a.
Definition seteq_b (a b : list tid) : bool := subset_b a b && subset_b b a.

(* first object with hash [t] *)
Fixpoint find_node (d : dag) (t : tid) : option node :=
  match d with
  | [] => None
  | n :: r => if Pos.eqb (n_tid n) t then Some n else find_node r t
  end.

(* ---- well-formedness --------------------------------------------------------------------------
   (1) the dependencies of an object are (hashes of) objects created earlier;
   (2) objects with the same hash have the same name and the same set of dependencies
       (the hash is computed from name and arguments). *)
Definition agrees (n' n : node) : Prop :=
  n_tid n' = n_tid n -> n_name n' = n_name n /\ (forall x, In x (n_deps n') <-> In x (n_deps n)).

Definition wf_dag (d : dag) : Prop :=
  forall p n s, d = p ++ n :: s ->
    (forall x, In x (n_deps n) -> In x (tids p)) /\
    (forall n', In n' p -> agrees n' n).

Definition agrees_b (n' n : node) : bool :=
  if Pos.eqb (n_tid n') (n_tid n)
  then Pos.eqb (n_name n') (n_name n) && seteq_b (n_deps n') (n_deps n)
  else true.

Fixpoint wf_from (earlier : list node) (d : dag) : bool :=
  match d with
  | [] => true
  | n :: r => subset_b (n_deps n) (map n_tid earlier) && forallb (fun n' => agrees_b n' n) earlier &&
              wf_from (earlier ++ [n]) r
  end.
Definition wf_dagb (d : dag) : bool := wf_from [] d.

(* ---- reachability ------------------------------------------------------------------------------ *)
(* a -> b : some object with hash a lists b among its direct dependencies *)
Definition edge (d : dag) (a b : tid) : Prop :=
  exists n, In n d /\ n_tid n = a /\ In b (n_deps n).

(* a depends on c, directly or transitively, or a = c *)
Inductive depends_on (d : dag) : tid -> tid -> Prop :=
| dep_refl : forall a, depends_on d a a
| dep_step : forall a b c, edge d a b -> depends_on d b c -> depends_on d a c.

(* executable: one pass in creation order collects the tasks that are selected or have a
   dependency already collected *)
Fixpoint closure_from (sel : node -> bool) (d : dag) (acc : list tid) : list tid :=
  match d with
  | [] => acc
  | n :: r => if sel n || existsb (fun x => mem x acc) (n_deps n)
              then closure_from sel r (n_tid n :: acc) else closure_from sel r acc
  end.
Definition closure (sel : node -> bool) (d : dag) : list tid := closure_from sel d [].
Definition depends_on_b (d : dag) (a c : tid) : bool :=
  Pos.eqb a c || mem a (closure (fun n => Pos.eqb (n_tid n) c) d).

(* ---- shared state: results and locks, keyed by hash --------------------------------------------- *)
Definition store := tid -> bool.                 (* can_load *)
Definition st_of (l : list tid) : store := fun t => mem t l.
Definition st_add (st : store) (t : tid) : store := fun x => Pos.eqb x t || st x.

Inductive lockst := Free | Held | Failed.        (* no lock / lock held / lock marked failed *)
Definition locks := tid -> lockst.
Fixpoint lk_of (l : list (tid * lockst)) : locks :=
  fun t => match l with
           | [] => Free
           | (k, s) :: r => if Pos.eqb k t then s else lk_of r t
           end.

(* results are dependency-closed: a stored result was computed from results that are still there *)
Definition closed (d : dag) (st : store) : Prop :=
  forall n, In n d -> st (n_tid n) = true -> forall x, In x (n_deps n) -> st x = true.
Definition closed_b (d : dag) (st : store) : bool :=
  forallb (fun n => negb (st (n_tid n)) || forallb st (n_deps n)) d.
