(* The task graph of a loaded jugfile, relative to the direct-dependency lists.
   Executable definitions only (plus the inductive reading of reachability).

   A jugfile, once loaded, is the list [task.alltasks] in creation order.  Every entry is one Task
   OBJECT: [n_tid] is its (interned) hash, [n_name] its (interned) function name "module.function",
   [n_deps] the hashes of what [Task.dependencies()] yields for it (Tasklets, containers, keyword
   arguments, mapped sequences ... are already seen through: that walk is Model/Deps.v's subject).
   Two objects may carry the same hash (the same call written twice), so the list may mention a
   tid more than once; the store and the locks are keyed by hash.
   Shared by C09 (Model/Invalidate.v) and C15 (Model/Status.v); independent of the other models. *)
From Coq Require Import List PArith Bool Arith.
Import ListNotations.

Definition tid := positive.
Definition fname := positive.
Definition node := (tid * fname * list tid)%type.
Definition n_tid (n : node) : tid := fst (fst n).
Definition n_name (n : node) : fname := snd (fst n).
Definition n_deps (n : node) : list tid := snd n.
Definition dag := list node.

Definition tids (d : dag) : list tid := map n_tid d.

Definition mem (x : tid) (l : list tid) : bool := existsb (Pos.eqb x) l.
Definition subset_b (a b : list tid) : bool := forallb (fun x => mem x b) a.
Definition seteq_b (a b : list tid) : bool := subset_b a b && subset_b b a.

(* first object with hash [t] *)
Fixpoint find_node (d : dag) (t : tid) : option node :=
  match d with
  | [] => None
  | n :: r => if Pos.eqb (n_tid n) t then Some n else find_node r t
  end.

(* ---- well-formedness --------------------------------------------------------------------------
   Creation order is NOT dependency order in general: a jugfile may hand a task a mutable
   container and fill it with tasks afterwards (hashes and dependencies are computed lazily), so
   an object may depend on objects created after it.  What every loaded jugfile satisfies:
   (1) every dependency is (the hash of) one of the objects of the jugfile;
   (2) objects with the same hash have the same name and the same set of dependencies
       (the hash is computed from name and arguments);
   (3) the graph is acyclic: there is a topological numbering of the hashes below the number of
       objects (every dependency gets a smaller number than its consumer). *)
Definition agrees (n' n : node) : Prop :=
  n_tid n' = n_tid n -> n_name n' = n_name n /\ (forall x, In x (n_deps n') <-> In x (n_deps n)).

Definition wf_dag (d : dag) : Prop :=
  (forall n x, In n d -> In x (n_deps n) -> In x (tids d)) /\
  (forall n n', In n d -> In n' d -> agrees n' n) /\
  (exists rank : tid -> nat,
     (forall n, In n d -> rank (n_tid n) < length d) /\
     (forall n x, In n d -> In x (n_deps n) -> rank x < rank (n_tid n))).

(* the special case "every dependency was created before its consumer" (what the sqlite status
   cache of C15 needs) *)
Definition ordered_dag (d : dag) : Prop :=
  forall p n s, d = p ++ n :: s -> forall x, In x (n_deps n) -> In x (tids p).

Fixpoint ordered_from (earlier : list tid) (d : dag) : bool :=
  match d with
  | [] => true
  | n :: r => subset_b (n_deps n) earlier && ordered_from (earlier ++ [n_tid n]) r
  end.
Definition ordered_dagb (d : dag) : bool := ordered_from [] d.

Definition agrees_b (n' n : node) : bool :=
  if Pos.eqb (n_tid n') (n_tid n)
  then Pos.eqb (n_name n') (n_name n) && seteq_b (n_deps n') (n_deps n)
  else true.

(* executable check: compute a candidate order (rounds of "all dependencies already placed"),
   then CHECK that it is a topological numbering; soundness does not depend on how the candidate
   was found (DagFacts.wf_dagb_sound) *)
Fixpoint index_of (t : tid) (o : list tid) : nat :=
  match o with
  | [] => 0
  | x :: r => if Pos.eqb x t then 0 else S (index_of t r)
  end.
Definition topo_pass (d : dag) (acc : list tid) : list tid :=
  fold_left (fun acc n => if mem (n_tid n) acc then acc
                          else if subset_b (n_deps n) acc then acc ++ [n_tid n] else acc) d acc.
Fixpoint topo_rounds (k : nat) (d : dag) (acc : list tid) : list tid :=
  match k with O => acc | S k' => topo_rounds k' d (topo_pass d acc) end.
Definition topo (d : dag) : list tid := topo_rounds (length d) d [].

Definition wf_with (o : list tid) (d : dag) : bool :=
  forallb (fun n => subset_b (n_deps n) (tids d)) d &&
  forallb (fun n => forallb (fun n' => agrees_b n' n) d) d &&
  forallb (fun n => Nat.ltb (index_of (n_tid n) o) (length d) &&
                    forallb (fun x => Nat.ltb (index_of x o) (index_of (n_tid n) o)) (n_deps n)) d.
Definition wf_dagb (d : dag) : bool := wf_with (topo d) d.

(* ---- reachability ------------------------------------------------------------------------------ *)
(* a -> b : some object with hash a lists b among its direct dependencies *)
Definition edge (d : dag) (a b : tid) : Prop :=
  exists n, In n d /\ n_tid n = a /\ In b (n_deps n).

(* a depends on c, directly or transitively, or a = c *)
Inductive depends_on (d : dag) : tid -> tid -> Prop :=
| dep_refl : forall a, depends_on d a a
| dep_step : forall a b c, edge d a b -> depends_on d b c -> depends_on d a c.

(* ---- shared state: results and locks, keyed by hash --------------------------------------------- *)
Definition store := tid -> bool.                 (* can_load *)
Definition st_of (l : list tid) : store := fun t => mem t l.
Definition st_add (st : store) (t : tid) : store := fun x => Pos.eqb x t || st x.

Inductive lockst := Free | Held | Failed.        (* no lock / lock held / lock marked failed *)
Definition locks := tid -> lockst.
Fixpoint lk_of (l : list (tid * lockst)) : locks :=
  fun t => match l with
           | [] => Free
           | (k, s) :: r => if Pos.eqb k t then s else lk_of r t
           end.

(* results are dependency-closed: a stored result was computed from results that are still there *)
Definition closed (d : dag) (st : store) : Prop :=
  forall n, In n d -> st (n_tid n) = true -> forall x, In x (n_deps n) -> st x = true.
Definition closed_b (d : dag) (st : store) : bool :=
  forallb (fun n => negb (st (n_tid n)) || forallb st (n_deps n)) d.
