(* C09 - model of `jug invalidate` (jug/subcommands/invalidate.py), of the interactive shell's
   invalidate() (jug/subcommands/shell.py) and of what a following sequential `jug execute` runs.
   Executable definitions only.

   The target matcher [prepare_task_matcher(target)] is a predicate on function names; here it is
   any [fname -> bool] (the regex engine is an oracle: the harness evaluates it per name). *)
From Coq Require Import List PArith Bool Arith.
From JugV Require Import Model.Dag.
Import ListNotations.

Definition matcher := fname -> bool.

(* ---- InvalidateCommand.run: the memoised depth-first search ------------------------------------
     cache = {}
     def isinvalid(t):
         h = t.hash()
         if h in cache: return cache[h]
         if task_matcher(t.name): cache[h] = True; return True
         for dep in t.dependencies():
             if isinvalid(dep): cache[h] = True; return True
         cache[h] = False; return False
     invalid = list(filter(isinvalid, tasks))
   The cache is keyed by hash, newest binding first.  Python's recursion is bounded by the depth
   of the graph; [fuel] plays that role ([S (length d)] is enough, InvalidateFacts.v). *)
Definition cache := list (tid * bool).
Fixpoint cache_get (c : cache) (t : tid) : option bool :=
  match c with
  | [] => None
  | (k, b) :: r => if Pos.eqb k t then Some b else cache_get r t
  end.

(* `for dep in deps: if rec(dep): return True` - stops at the first invalid dependency *)
Fixpoint any_dep (rec : cache -> tid -> bool * cache) (ds : list tid) (c : cache) : bool * cache :=
  match ds with
  | [] => (false, c)
  | x :: r => let '(b, c') := rec c x in if b then (true, c') else any_dep rec r c'
  end.

Fixpoint isinvalid (fuel : nat) (d : dag) (m : matcher) (c : cache) (n : node) : bool * cache :=
  match fuel with
  | O => (false, c)
  | S f =>
      match cache_get c (n_tid n) with
      | Some b => (b, c)
      | None =>
          if m (n_name n) then (true, (n_tid n, true) :: c)
          else
            let rec := fun c x => match find_node d x with
                                  | Some nx => isinvalid f d m c nx
                                  | None => (false, c)     (* a dependency is always in alltasks *)
                                  end in
            let '(b, c') := any_dep rec (n_deps n) c in
            (b, (n_tid n, b) :: c')
      end
  end.

(* filter(isinvalid, tasks), the cache surviving from one task to the next *)
Fixpoint cli_filter (fuel : nat) (d : dag) (m : matcher) (c : cache) (ns : list node) : list node :=
  match ns with
  | [] => []
  | n :: r => let '(b, c') := isinvalid fuel d m c n in
              if b then n :: cli_filter fuel d m c' r else cli_filter fuel d m c' r
  end.

Definition cli_invalid_nodes (d : dag) (m : matcher) : list node := cli_filter (S (length d)) d m [] d.
(* the hashes handed to store.remove_many *)
Definition cli_invalid (d : dag) (m : matcher) : list tid := map n_tid (cli_invalid_nodes d m).

(* ---- the store: remove_many / remove on the abstract map (refined per backend by C06) ---------- *)
Definition remove_keys (st : store) (ks : list tid) : store := fun t => st t && negb (mem t ks).

Definition cli_store (d : dag) (m : matcher) (st : store) : store := remove_keys st (cli_invalid d m).
(* what remove_many reports: the names that were actually removed *)
Definition cli_removed (d : dag) (m : matcher) (st : store) : list tid := filter st (cli_invalid d m).

(* the "Invalidated" table: per function name, the number of invalid task objects whose hash is
   in the set remove_many reported *)
Definition count_name (nm : fname) (ns : list node) : nat :=
  length (filter (fun n => Pos.eqb (n_name n) nm) ns).
Definition cli_count (d : dag) (m : matcher) (st : store) (nm : fname) : nat :=
  count_name nm (filter (fun n => st (n_tid n)) (cli_invalid_nodes d m)).

Inductive cli_msg := NothingInvalid | NothingRemoved | Table.
Definition cli_message (d : dag) (m : matcher) (st : store) : cli_msg :=
  match cli_invalid_nodes d m with
  | [] => NothingInvalid
  | _ => match cli_removed d m st with [] => NothingRemoved | _ => Table end
  end.

(* ---- shell invalidate(tasklist, reverse, task) ------------------------------------------------------
     for t in tasklist:
         for d in t.dependencies(): reverse.setdefault(d.hash(), []).append(t)
     queue = [task]; seen = set()
     while queue:
         task = queue.pop()
         if task.hash() in seen: continue
         seen.add(task.hash()); task.invalidate()
         queue.extend([t for t in reverse.get(task.hash(), []) if t.hash() not in seen])
   [rev_edges]: the pairs (dependency, dependent) in the order they are appended.  The queue is a
   stack (pop() takes the last element); here its top is the head of the list. *)
Definition rev_edges (d : dag) : list (tid * tid) :=
  flat_map (fun n => map (fun x => (x, n_tid n)) (n_deps n)) d.
Definition rdeps (re : list (tid * tid)) (t : tid) : list tid :=
  map snd (filter (fun p => Pos.eqb (fst p) t) re).

(* returns the hashes in the order task.invalidate() is called on them, and what is left of the
   queue when the fuel runs out ([] whenever fuel > number of reverse edges, InvalidateFacts.v) *)
Fixpoint shell_loop (fuel : nat) (re : list (tid * tid)) (queue seen : list tid) : list tid * list tid :=
  match fuel with
  | O => (rev seen, queue)
  | S f =>
      match queue with
      | [] => (rev seen, [])
      | t :: rest =>
          if mem t seen then shell_loop f re rest seen
          else
            let seen' := t :: seen in
            let new := filter (fun x => negb (mem x seen')) (rdeps re t) in
            shell_loop f re (rev new ++ rest) seen'
      end
  end.

Definition shell_fuel (d : dag) : nat := S (S (length (rev_edges d))).
Definition shell_invalid (d : dag) (seed : tid) : list tid :=
  fst (shell_loop (shell_fuel d) (rev_edges d) [seed] []).

(* executable reachability (any graph): a depends on c iff the work-list started at c reaches a *)
Definition depends_on_b (d : dag) (a c : tid) : bool := mem a (shell_invalid d c).

(* a shell session: invalidate(t) for each seed in turn (the reverse map is built once) *)
Definition shell_session (d : dag) (seeds : list tid) : list tid :=
  flat_map (shell_invalid d) seeds.
Definition shell_store (d : dag) (seeds : list tid) (st : store) : store :=
  remove_keys st (shell_session d seeds).

(* "the same target": the shell user invalidates every task whose name matches *)
Definition seeds_of (d : dag) (m : matcher) : list tid :=
  map n_tid (filter (fun n => m (n_name n)) d).

(* ---- a following `jug execute` by one worker -------------------------------------------------------
   execution_loop keeps going round the task list until no task can run: a task object is run iff
   its result cannot be loaded and its dependencies can; running stores the result.  One pass in
   creation order per round; [length d] rounds exhaust an acyclic graph (InvalidateFacts.v).
   Returns the final store and the invocation log. *)
Fixpoint exec_pass (ns : list node) (st : store) (log : list tid) : store * list tid :=
  match ns with
  | [] => (st, log)
  | n :: r =>
      if st (n_tid n) then exec_pass r st log
      else if forallb st (n_deps n) then exec_pass r (st_add st (n_tid n)) (n_tid n :: log)
      else exec_pass r st log
  end.
Fixpoint exec_rounds (k : nat) (d : dag) (st : store) (log : list tid) : store * list tid :=
  match k with
  | O => (st, log)
  | S k' => exec_rounds k' d (fst (exec_pass d st log)) (snd (exec_pass d st log))
  end.
Definition exec_log (d : dag) (st : store) : list tid := rev (snd (exec_rounds (length d) d st [])).
Definition exec_store (d : dag) (st : store) : store := fst (exec_rounds (length d) d st []).
