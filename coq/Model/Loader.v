(* Loader - a jugfile as a staged program, loaded against a store.

   Transcribes what jug.init (jug/jug.py), barrier()/bvalue() (jug/barrier.py), CompoundTask
   (jug/compound.py), the reload loop of `jug execute` (jug/subcommands/execute.py), `jug check`
   (jug/subcommands/check.py) and `jug cleanup` (store.cleanup(alltasks)) do, at the level of
   task identifiers (the hash of a task, interned to a [positive]) and values.
   Executable definitions only; the proofs are in Proofs/LoaderFacts.v and Proofs/CompoundFacts.v. *)
From Coq Require Import List PArith ZArith Bool.
Import ListNotations.

Definition tid := positive.          (* Task.hash(), interned *)
Definition mark := positive.         (* a marker side effect in the jugfile (e.g. a line appended to a log) *)

(* values: integers and (nested) tuples of values *)
Inductive val := VInt (z : Z) | VTup (vs : list val).

(* what a jugfile can pass around: a plain value, a Task object (by hash), a tuple of those.
   [resolve] below is jug.task.value() on it. *)
Inductive arg := AVal (v : val) | ATask (t : tid) | ATup (xs : list arg).

Record task := mkTask { tid_of : tid; targs : list arg; tfun : list val -> val }.

Definition store := list (tid * val).       (* results; first binding wins *)

Fixpoint lookup (st : store) (t : tid) : option val :=
  match st with
  | [] => None
  | (k, v) :: r => if Pos.eqb k t then Some v else lookup r t
  end.

Definition stored (st : store) (t : tid) : bool :=
  match lookup st t with Some _ => true | None => false end.

(* value(a): a Task loads its result from the store (fails if there is none) *)
Fixpoint resolve (f : tid -> option val) (a : arg) : option val :=
  match a with
  | AVal v => Some v
  | ATask t => f t
  | ATup xs =>
      match (fix go (xs : list arg) : option (list val) :=
               match xs with
               | [] => Some []
               | x :: r => match resolve f x, go r with
                           | Some v, Some vs => Some (v :: vs)
                           | _, _ => None
                           end
               end) xs with
      | Some vs => Some (VTup vs)
      | None => None
      end
  end.

Fixpoint resolve_list (f : tid -> option val) (xs : list arg) : option (list val) :=
  match xs with
  | [] => Some []
  | x :: r => match resolve f x, resolve_list f r with
              | Some v, Some vs => Some (v :: vs)
              | _, _ => None
              end
  end.

(* the Task objects occurring in an argument (Task.dependencies()) *)
Fixpoint atids (a : arg) : list tid :=
  match a with
  | AVal _ => []
  | ATask t => [t]
  | ATup xs => (fix go (xs : list arg) : list tid :=
                  match xs with [] => [] | x :: r => atids x ++ go r end) xs
  end.

Fixpoint atids_list (xs : list arg) : list tid :=
  match xs with [] => [] | x :: r => atids x ++ atids_list r end.

(* ------------------------------------------------------------------ the staged program *)
Inductive jprog :=
| Ret (r : arg)                                   (* end of the jugfile / `return r` of a compound's builder *)
| Def (t : task) (k : jprog)                      (* Task(f, args...) *)
| Mark (m : mark) (k : jprog)                     (* any other statement with an observable side effect *)
| Barrier (k : jprog)                             (* barrier() *)
| BValue (a : arg) (k : val -> jprog)             (* v = bvalue(a); the rest depends on v *)
| Compound (h : tid) (cargs : list arg) (body : jprog) (k : jprog).
                                                  (* c = CompoundTask(f, cargs...): h = hash of Task(f, cargs...),
                                                     body = what f(cargs...) does, ending in [Ret inner];
                                                     k refers to c as [ATask h] *)

(* what loading does, in order *)
Inductive ev :=
| ETask (t : task)              (* appended to alltasks *)
| EMark (m : mark)
| EBar                          (* a barrier() call returned *)
| EBV (a : arg) (v : val)       (* a bvalue(a) call returned v *)
| EStop.                        (* BarrierError: the rest of the jugfile is not executed *)

Fixpoint tasks_rev (tr : list ev) : list task :=     (* tr is kept most-recent-first *)
  match tr with
  | [] => []
  | ETask t :: r => t :: tasks_rev r
  | _ :: r => tasks_rev r
  end.

Definition all_stored (st : store) (ts : list task) : bool :=
  forallb (fun t => stored st (tid_of t)) ts.

(* Task(f, cargs...) when its hash is stored: returned as it is, never run *)
Definition probe (h : tid) (cargs : list arg) : task := mkTask h cargs (fun _ => VInt 0).
(* Task(compound_task_execute, inner, h) with __jug_hash__ = h *)
Definition final (h : tid) (inner : arg) : task :=
  mkTask h [inner] (fun vs => match vs with v :: _ => v | [] => VInt 0 end).

(* [tr]: events so far, most recent first.  Result: all events, and the builder's return value
   ([None] after EStop). *)
Fixpoint load_from (st : store) (p : jprog) (tr : list ev) : list ev * option arg :=
  match p with
  | Ret r => (tr, Some r)
  | Def t k => load_from st k (ETask t :: tr)
  | Mark m k => load_from st k (EMark m :: tr)
  | Barrier k =>
      if all_stored st (tasks_rev tr) then load_from st k (EBar :: tr) else (EStop :: tr, None)
  | BValue a k =>
      match resolve (lookup st) a with
      | Some v => load_from st (k v) (EBV a v :: tr)
      | None => (EStop :: tr, None)
      end
  | Compound h cargs body k =>
      if stored st h then load_from st k (ETask (probe h cargs) :: tr)
      else match load_from st body tr with
           | (tr1, Some inner) => load_from st k (ETask (final h inner) :: tr1)
           | (tr1, None) => (tr1, None)
           end
  end.

Record loaded := mkLoaded { l_events : list ev;            (* in program order *)
                            l_tasks : list task;           (* alltasks *)
                            l_marks : list mark;
                            l_hasbarrier : bool }.         (* jugspace['__jug__hasbarrier__'] *)

Fixpoint marks_of (tr : list ev) : list mark :=
  match tr with [] => [] | EMark m :: r => m :: marks_of r | _ :: r => marks_of r end.

Definition is_none {A : Type} (o : option A) : bool := match o with None => true | Some _ => false end.

Definition load (st : store) (p : jprog) : loaded :=
  let '(tr, out) := load_from st p [] in
  mkLoaded (rev tr) (rev (tasks_rev tr)) (rev (marks_of tr)) (is_none out).

(* ------------------------------------------------------------------ executing what was loaded *)
(* execution_loop on one worker: a loadable task is skipped; otherwise it runs if its arguments load *)
Definition exec_task (st : store) (t : task) : store * list tid :=
  if stored st (tid_of t) then (st, [])
  else match resolve_list (lookup st) (targs t) with
       | Some vs => ((tid_of t, tfun t vs) :: st, [tid_of t])
       | None => (st, [])
       end.

Fixpoint exec_all (st : store) (ts : list task) : store * list tid :=   (* new store, tasks executed *)
  match ts with
  | [] => (st, [])
  | t :: r => let '(st1, e1) := exec_task st t in
              let '(st2, e2) := exec_all st1 r in (st2, e1 ++ e2)
  end.

(* ExecuteCommand.run: load; run; reload while the namespace has __jug__hasbarrier__ *)
Fixpoint run_phases (fuel : nat) (st : store) (p : jprog) : store * list (list tid) :=
  match fuel with
  | O => (st, [])
  | S f =>
      let l := load st p in
      let '(st1, ex) := exec_all st (l_tasks l) in
      if l_hasbarrier l then let '(st2, exs) := run_phases f st1 p in (st2, ex :: exs)
      else (st1, [ex])
  end.

(* `jug check` (check.py after the D18 repair): 0 iff every task in alltasks can be loaded.
   It does not read __jug__hasbarrier__. *)
Definition check (st : store) (p : jprog) : nat :=
  if all_stored st (l_tasks (load st p)) then 0 else 1.

(* `jug cleanup`: store.cleanup(alltasks) keeps exactly the keys that are hashes of loaded tasks *)
Definition keep_keys (keys : list tid) (st : store) : store :=
  filter (fun kv => existsb (Pos.eqb (fst kv)) keys) st.

Definition cleanup (st : store) (p : jprog) : store :=
  keep_keys (map tid_of (l_tasks (load st p))) st.

(* ------------------------------------------------------------------ locks held by others
   execution_loop does not run a task whose lock it cannot take: held by another worker, left behind
   by a worker that was killed, or marked failed (--keep-failed; a task whose function raises under
   --keep-going is in the same position: no result, its dependents cannot run).  Nothing else reads
   locks: the loader (barrier, bvalue, CompoundTask), check and cleanup take the store only -
   [load], [check] and [cleanup] above have no lock parameter. *)
Definition is_locked (locks : list tid) (t : tid) : bool := existsb (Pos.eqb t) locks.

Definition unlocked (locks : list tid) (ts : list task) : list task :=
  filter (fun t => negb (is_locked locks (tid_of t))) ts.

Fixpoint run_phases_l (locks : list tid) (fuel : nat) (st : store) (p : jprog) : store * list (list tid) :=
  match fuel with
  | O => (st, [])
  | S f =>
      let l := load st p in
      let '(st1, ex) := exec_all st (unlocked locks (l_tasks l)) in
      if l_hasbarrier l then let '(st2, exs) := run_phases_l locks f st1 p in (st2, ex :: exs)
      else (st1, [ex])
  end.

(* ------------------------------------------------------------------ a store that shrinks under the worker
   Other processes may REMOVE results while `jug execute` runs (jug invalidate, jug cleanup): [rms] lists what
   disappears before each load.  Every load is [load] of the store as it is then - the loader keeps no memory of
   what it saw in an earlier phase - so everything proved about [load] for any store applies to every phase. *)
Definition remove_keys (ks : list tid) (st : store) : store :=
  filter (fun kv => negb (existsb (Pos.eqb (fst kv)) ks)) st.

Fixpoint run_phases_rm (rms : list (list tid)) (fuel : nat) (st : store) (p : jprog) : store * list (list tid) :=
  match fuel with
  | O => (st, [])
  | S f =>
      let st0 := remove_keys (hd [] rms) st in
      let l := load st0 p in
      let '(st1, ex) := exec_all st0 (l_tasks l) in
      if l_hasbarrier l then let '(st2, exs) := run_phases_rm (tl rms) f st1 p in (st2, ex :: exs)
      else (st1, [ex])
  end.

(* ------------------------------------------------------------------ `jug invalidate`
   InvalidateCommand.run / the shell's invalidate(): the loaded tasks that are selected (by name on the command
   line, a task object in the shell) and every loaded task that has one of those under its arguments - directly
   or through other loaded tasks; alltasks is in creation order, arguments are created before their users - lose
   their results.  A collapsed compound is [probe h cargs]: its arguments are those of the call. *)
Definition mem_tid (t : tid) (l : list tid) : bool := existsb (Pos.eqb t) l.

Definition inv_step (sel : tid -> bool) (bad : list tid) (t : task) : list tid :=
  if sel (tid_of t) || existsb (fun d => mem_tid d bad) (atids_list (targs t)) then tid_of t :: bad else bad.

Definition invalid_ids (sel : tid -> bool) (ts : list task) : list tid := fold_left (inv_step sel) ts [].

Definition invalidate (sel : tid -> bool) (st : store) (p : jprog) : store :=
  remove_keys (invalid_ids sel (l_tasks (load st p))) st.

(* ------------------------------------------------------------------ `jug sleep-until`
   SleepUntilCommand.run (jug/subcommands/check.py): load; wait until every loaded task has a result
   (polling, one sleep per poll that fails); if the namespace has __jug__hasbarrier__ load again and
   wait again; otherwise exit 0.  It is the reload loop with "wait" in the place of "execute": the
   results come from other workers.  [incs]: what the others add to the store during each sleep
   (a result that is there already is left as it is).  [None]: still waiting when the script ends. *)
Fixpoint add_new (inc st : store) : store :=
  match inc with
  | [] => st
  | (k, v) :: r => let st1 := add_new r st in if stored st1 k then st1 else (k, v) :: st1
  end.

Fixpoint wait_all (ts : list task) (st : store) (incs : list store) : option (store * list store * nat) :=
  if all_stored st ts then Some (st, incs, 0)
  else match incs with
       | [] => None
       | i :: r => match wait_all ts (add_new i st) r with
                   | Some (s, r', n) => Some (s, r', S n)
                   | None => None
                   end
       end.

(* result: the store when sleep-until exits, the number of sleeps, the number of loads *)
Fixpoint sleep_until (fuel : nat) (st : store) (incs : list store) (p : jprog) : option (store * nat * nat) :=
  match fuel with
  | O => None
  | S f =>
      let l := load st p in
      match wait_all (l_tasks l) st incs with
      | None => None
      | Some (st1, incs1, n) =>
          if l_hasbarrier l then
            match sleep_until f st1 incs1 p with
            | Some (s, n2, k) => Some (s, n + n2, S k)
            | None => None
            end
          else Some (st1, n, 1)
      end
  end.

(* ------------------------------------------------------------------ sequential reference semantics
   No store: every Task is evaluated where it is defined, barrier() does nothing, bvalue(a) is the
   value of a, a compound is its builder followed by the value of what the builder returned.
   The evaluation is recorded as a [spine]: the path it took, decorated with the values. *)
Inductive spine :=
| SRet (r : arg) (v : val)
| SDef (t : task) (v : val) (s : spine)
| SMark (m : mark) (s : spine)
| SBar (s : spine)
| SBV (a : arg) (v : val) (s : spine)
| SComp (h : tid) (cargs : list arg) (body : spine) (v : val) (s : spine).

(* [env]: the Task objects in (Python) scope with their values; a builder's inner tasks go out of
   scope when it returns *)
Fixpoint unfold (p : jprog) (env : store) : option (spine * val) :=
  match p with
  | Ret r => match resolve (lookup env) r with Some v => Some (SRet r v, v) | None => None end
  | Def t k =>
      match resolve_list (lookup env) (targs t) with
      | Some vs => let v := tfun t vs in
                   match unfold k ((tid_of t, v) :: env) with
                   | Some (s, w) => Some (SDef t v s, w)
                   | None => None
                   end
      | None => None
      end
  | Mark m k => match unfold k env with Some (s, w) => Some (SMark m s, w) | None => None end
  | Barrier k => match unfold k env with Some (s, w) => Some (SBar s, w) | None => None end
  | BValue a k =>
      match resolve (lookup env) a with
      | Some v => match unfold (k v) env with Some (s, w) => Some (SBV a v s, w) | None => None end
      | None => None
      end
  | Compound h cargs body k =>
      match resolve_list (lookup env) cargs with
      | Some _ =>
          match unfold body env with
          | Some (sb, v) =>
              match unfold k ((h, v) :: env) with
              | Some (s, w) => Some (SComp h cargs sb v s, w)
              | None => None
              end
          | None => None
          end
      | None => None
      end
  end.

(* every (task, value) the sequential evaluation computed, inner tasks of compounds included *)
Fixpoint slog (s : spine) : list (tid * val) :=
  match s with
  | SRet _ _ => []
  | SDef t v s' => (tid_of t, v) :: slog s'
  | SMark _ s' | SBar s' | SBV _ _ s' => slog s'
  | SComp h _ sb v s' => slog sb ++ (h, v) :: slog s'
  end.

(* the tasks still in scope at the end of the jugfile, with their values *)
Fixpoint stop_env (s : spine) : list (tid * val) :=
  match s with
  | SRet _ _ => []
  | SDef t v s' => (tid_of t, v) :: stop_env s'
  | SMark _ s' | SBar s' | SBV _ _ s' => stop_env s'
  | SComp h _ _ v s' => (h, v) :: stop_env s'
  end.

(* number of barrier()/bvalue() calls the sequential evaluation went through *)
Fixpoint sbn (s : spine) : nat :=
  match s with
  | SRet _ _ => 0
  | SDef _ _ s' | SMark _ s' => sbn s'
  | SBar s' | SBV _ _ s' => S (sbn s')
  | SComp _ _ sb _ s' => sbn sb + sbn s'
  end.

Definition seq_eval (p : jprog) : option spine :=
  match unfold p [] with Some (s, _) => Some s | None => None end.

(* value of the builder's result on a spine *)
Fixpoint sres (s : spine) : val :=
  match s with
  | SRet _ v => v
  | SDef _ _ s' | SMark _ s' | SBar s' | SBV _ _ s' | SComp _ _ _ _ s' => sres s'
  end.

(* the loader run on a recorded path (used by the proofs; coincides with load_from when the
   store agrees with the recorded values) *)
Fixpoint sload (st : store) (s : spine) (tr : list ev) : list ev * option arg :=
  match s with
  | SRet r _ => (tr, Some r)
  | SDef t _ s' => sload st s' (ETask t :: tr)
  | SMark m s' => sload st s' (EMark m :: tr)
  | SBar s' => if all_stored st (tasks_rev tr) then sload st s' (EBar :: tr) else (EStop :: tr, None)
  | SBV a _ s' =>
      match resolve (lookup st) a with
      | Some v => sload st s' (EBV a v :: tr)
      | None => (EStop :: tr, None)
      end
  | SComp h cargs sb _ s' =>
      if stored st h then sload st s' (ETask (probe h cargs) :: tr)
      else match sload st sb tr with
           | (tr1, Some inner) => sload st s' (ETask (final h inner) :: tr1)
           | (tr1, None) => (tr1, None)
           end
  end.

(* ------------------------------------------------------------------ decidable equalities for the case files *)
Fixpoint val_eqb (a b : val) : bool :=
  match a, b with
  | VInt x, VInt y => Z.eqb x y
  | VTup xs, VTup ys =>
      (fix go (xs ys : list val) : bool :=
         match xs, ys with
         | [], [] => true
         | x :: xr, y :: yr => val_eqb x y && go xr yr
         | _, _ => false
         end) xs ys
  | _, _ => false
  end.

Fixpoint store_sub (a b : store) : bool :=      (* every binding of a is the binding of b *)
  match a with
  | [] => true
  | (k, v) :: r => match lookup b k with Some w => val_eqb v w | None => false end && store_sub r b
  end.

Definition keys_sub (a b : store) : bool := forallb (fun kv => stored b (fst kv)) a.

(* same keys, same values *)
Definition store_eqb (a b : store) : bool := store_sub a b && keys_sub b a.

(* one value per identifier in a log (hypothesis of the reload-loop theorem, checked on every case) *)
Definition functionalb (L : list (tid * val)) : bool :=
  forallb (fun kv => match lookup L (fst kv) with Some w => val_eqb (snd kv) w | None => false end) L.

(* [bindp body f]: the statements of [body], then [f] applied to what [body] returns - the builder of
   a compound written out in place *)
Fixpoint bindp (p : jprog) (f : arg -> jprog) : jprog :=
  match p with
  | Ret r => f r
  | Def t k => Def t (bindp k f)
  | Mark m k => Mark m (bindp k f)
  | Barrier k => Barrier (bindp k f)
  | BValue a k => BValue a (fun v => bindp (k v) f)
  | Compound h ca b k => Compound h ca b (bindp k f)
  end.

(* the compounds the sequential evaluation went through (nested ones included), with the recorded
   run of their builders *)
Fixpoint comps (s : spine) : list (tid * spine) :=
  match s with
  | SRet _ _ => []
  | SDef _ _ s' | SMark _ s' | SBar s' | SBV _ _ s' => comps s'
  | SComp h _ sb _ s' => (h, sb) :: comps sb ++ comps s'
  end.
