(* Keep-alive file locks (jug/backends/file_store.py: file_keepalive_based_lock,
   jug/backends/file_keepalive_monitor.py: main) on an integer-second clock.
   Executable definitions only.

   One lock file, the worker that acquired it at time t0 (the "holder"), the helper
   process ("monitor") started by get(), and other clients that look at the lock.
   Time only enters through the time stamps carried by the events.

     monitor loop (file_keepalive_monitor.main):
        counter = counter_start
        while True:
            sleep(period)                                  -- one round; the wake-up is event EWake
            if parent_gone_or_changed(parent): break       -- exit, cause CParent
            counter -= 1
            if counter <= 0:
                counter = counter_start
                try: utime(lock, None)                     -- refresh: mtime := now
                except OSError: break                      -- exit, cause CLockGone
     is_failed (file_keepalive_based_lock):  exists and  st_mtime <= time() - expiry
     release(): kill the monitor, unlink.
     fail(): TWO primitives, in this order:  stop_monitor() (kill the helper)  ;  os.utime(lock, failed stamp).
             The helper is a concurrent process: its wake-ups (EWake) may fall between any two
             primitives of the holder, so fail() is also modelled as its two halves
             EFailStop ; EFailMark  (EFail = both at once, see Proofs: fail_is_stop_then_mark).
     start_monitor(): Popen([python, -m, jug.backends.file_keepalive_monitor, fullname]) with the
             holder's cwd: the helper resolves its path argument against ITS cwd (section "launch").
     get() (any client): exclusive create: succeeds iff the file is absent.
     cleanup --failed-only (another client): for every lock: if is_failed(): release(). *)
From Coq Require Import List ZArith Bool.
Import ListNotations.
Local Open Scope Z_scope.

(* the numbers that live in the source (regenerated into Gen/KeepaliveParams.v) *)
Record params := {
  p_period : Z;      (* argument of sleep() in the monitor loop *)
  p_rounds : Z;      (* counter_start: the lock is touched every p_rounds-th round *)
  p_expiry : Z;      (* is_failed: mtime <= now - p_expiry *)
  p_failed_ts : Z    (* mtime written by fail() *)
}.

Inductive cause := CParent | CLockGone | CKilled.

(* monitor: running with counter c, last wake-up (or start) at lw, and a one-off allowance
   [slack] for the first round (process start-up); or ended *)
Inductive mon := MRun (c lw slack : Z) | MDone.

Inductive event :=
| EWake        (* the monitor returns from sleep() and runs one loop body *)
| EDie         (* the holder's process disappears without releasing *)
| ERelease     (* the holder calls lock.release() *)
| EFail        (* the holder calls lock.fail(), no other event in between its two primitives *)
| EFailStop    (* first primitive of fail(): stop_monitor() kills the helper *)
| EFailMark    (* second primitive of fail(): os.utime(lock, failed stamp) *)
| EUnlink      (* somebody else removes the lock file (cleanup --locks-only, rm) *)
| EQuery       (* another client calls lock.is_locked() and lock.is_failed() *)
| ECleanup     (* another client runs cleanup --failed-only *)
| EGet.        (* another client calls lock.get() *)

Inductive out :=
| ORefresh (t : Z)                 (* utime(lock, None) succeeded at t *)
| OExit (t : Z) (c : cause)        (* the monitor ended at t *)
| OLocked (t : Z) (b : bool)       (* answer of is_locked() at t *)
| OFailed (t : Z) (b : bool)       (* answer of is_failed() at t *)
| OCleaned (t : Z) (b : bool)      (* cleanup --failed-only at t removed the lock (b) *)
| OGet (t : Z) (b : bool)          (* answer of get() at t *)
| OMarked (t : Z) (b : bool).      (* fail()'s os.utime(lock, failed stamp) at t succeeded (b) = what fail() returns *)

Record world := {
  w_now : Z;
  w_lock : option Z;     (* None: no lock file; Some m: lock file with mtime m *)
  w_alive : bool;        (* the holder's process exists *)
  w_held : bool;         (* the holder has neither released nor failed the lock *)
  w_mon : mon
}.

Definition is_failed_ka (p : params) (mtime now : Z) : bool := mtime <=? now - p_expiry p.

Definition lock_failed (p : params) (l : option Z) (now : Z) : bool :=
  match l with Some m => is_failed_ka p m now | None => false end.

(* right after a successful get() at t0 *)
Definition init (p : params) (t0 startup : Z) : world :=
  {| w_now := t0; w_lock := Some t0; w_alive := true; w_held := true;
     w_mon := MRun (p_rounds p) t0 startup |}.

Definition kill_out (m : mon) (t : Z) : list out :=
  match m with MRun _ _ _ => [OExit t CKilled] | MDone => [] end.

(* one loop body of the monitor, at wake-up time t *)
Definition mon_step (p : params) (w : world) (t : Z) : world * list out :=
  match w_mon w with
  | MDone => ({| w_now := t; w_lock := w_lock w; w_alive := w_alive w; w_held := w_held w; w_mon := MDone |}, [])
  | MRun c lw slack =>
      if negb (w_alive w) then
        ({| w_now := t; w_lock := w_lock w; w_alive := w_alive w; w_held := w_held w; w_mon := MDone |},
         [OExit t CParent])
      else
        let c' := c - 1 in
        if c' <=? 0 then
          match w_lock w with
          | None =>
              ({| w_now := t; w_lock := None; w_alive := w_alive w; w_held := w_held w; w_mon := MDone |},
               [OExit t CLockGone])
          | Some _ =>
              ({| w_now := t; w_lock := Some t; w_alive := w_alive w; w_held := w_held w;
                  w_mon := MRun (p_rounds p) t 0 |},
               [ORefresh t])
          end
        else
          ({| w_now := t; w_lock := w_lock w; w_alive := w_alive w; w_held := w_held w; w_mon := MRun c' t 0 |}, [])
  end.

Definition step (p : params) (w : world) (te : Z * event) : world * list out :=
  let t := fst te in
  match snd te with
  | EWake => mon_step p w t
  | EDie =>
      ({| w_now := t; w_lock := w_lock w; w_alive := false; w_held := w_held w; w_mon := w_mon w |}, [])
  | ERelease =>
      if w_alive w then
        ({| w_now := t; w_lock := None; w_alive := true; w_held := false; w_mon := MDone |}, kill_out (w_mon w) t)
      else ({| w_now := t; w_lock := w_lock w; w_alive := false; w_held := w_held w; w_mon := w_mon w |}, [])
  | EFail =>
      if w_alive w then
        ({| w_now := t;
            w_lock := match w_lock w with Some _ => Some (p_failed_ts p) | None => None end;
            w_alive := true; w_held := false; w_mon := MDone |}, kill_out (w_mon w) t)
      else ({| w_now := t; w_lock := w_lock w; w_alive := false; w_held := w_held w; w_mon := w_mon w |}, [])
  | EFailStop =>
      if w_alive w then
        ({| w_now := t; w_lock := w_lock w; w_alive := true; w_held := false; w_mon := MDone |}, kill_out (w_mon w) t)
      else ({| w_now := t; w_lock := w_lock w; w_alive := false; w_held := w_held w; w_mon := w_mon w |}, [])
  | EFailMark =>
      if w_alive w then
        ({| w_now := t;
            w_lock := match w_lock w with Some _ => Some (p_failed_ts p) | None => None end;
            w_alive := true; w_held := false; w_mon := w_mon w |},
         [OMarked t (match w_lock w with Some _ => true | None => false end)])
      else ({| w_now := t; w_lock := w_lock w; w_alive := false; w_held := w_held w; w_mon := w_mon w |}, [])
  | EUnlink =>
      ({| w_now := t; w_lock := None; w_alive := w_alive w; w_held := w_held w; w_mon := w_mon w |}, [])
  | EQuery =>
      ({| w_now := t; w_lock := w_lock w; w_alive := w_alive w; w_held := w_held w; w_mon := w_mon w |},
       [OLocked t (match w_lock w with Some _ => true | None => false end);
        OFailed t (lock_failed p (w_lock w) t)])
  | ECleanup =>
      let f := lock_failed p (w_lock w) t in
      ({| w_now := t; w_lock := if f then None else w_lock w; w_alive := w_alive w; w_held := w_held w;
          w_mon := w_mon w |}, [OCleaned t f])
  | EGet =>
      match w_lock w with
      | None => ({| w_now := t; w_lock := Some t; w_alive := w_alive w; w_held := w_held w; w_mon := w_mon w |},
                 [OGet t true])
      | Some m => ({| w_now := t; w_lock := Some m; w_alive := w_alive w; w_held := w_held w; w_mon := w_mon w |},
                   [OGet t false])
      end
  end.

Fixpoint exec (p : params) (w : world) (evs : list (Z * event)) : world :=
  match evs with
  | [] => w
  | te :: r => exec p (fst (step p w te)) r
  end.

Fixpoint outs (p : params) (w : world) (evs : list (Z * event)) : list out :=
  match evs with
  | [] => []
  | te :: r => let s := step p w te in snd s ++ outs p (fst s) r
  end.

(* A time-stamped event is admissible in state w when time does not run backwards and a
   running monitor has not overslept: every round (sleep + loop body) takes at most
   period + drift seconds, the first one at most period + drift + start-up allowance.
   (No lower bound on the length of a round is needed by any theorem.) *)
Definition ev_ok (p : params) (drift : Z) (w : world) (te : Z * event) : bool :=
  (w_now w <=? fst te) &&
  match w_mon w with
  | MRun _ lw slack => fst te <=? lw + (p_period p + drift) + slack
  | MDone => true
  end.

Fixpoint valid (p : params) (drift : Z) (w : world) (evs : list (Z * event)) : bool :=
  match evs with
  | [] => true
  | te :: r => ev_ok p drift w te && valid p drift (fst (step p w te)) r
  end.

(* ---- compact schedules (so that runs of days stay small literals) ------------------ *)
Inductive citem :=
| CWakes (n : Z) (d : Z)        (* n consecutive rounds of d seconds each *)
| CEv (t : Z) (e : event).      (* event e at absolute time t *)

Fixpoint wakes_from (lw d : Z) (n : nat) : list (Z * event) :=
  match n with
  | O => []
  | S k => (lw + d, EWake) :: wakes_from (lw + d) d k
  end.

(* lw: the time the monitor's current sleep() started *)
Fixpoint expand (lw : Z) (items : list citem) : list (Z * event) :=
  match items with
  | [] => []
  | CWakes n d :: r => wakes_from lw d (Z.to_nat n) ++ expand (lw + Z.max 0 n * d) r
  | CEv t e :: r => (t, e) :: expand lw r
  end.

(* ---- equality tests used by the correspondence cases -------------------------------- *)
Definition cause_eqb (a b : cause) : bool :=
  match a, b with
  | CParent, CParent | CLockGone, CLockGone | CKilled, CKilled => true
  | _, _ => false
  end.

Definition out_eqb (a b : out) : bool :=
  match a, b with
  | ORefresh t, ORefresh u => t =? u
  | OExit t c, OExit u d => (t =? u) && cause_eqb c d
  | OLocked t x, OLocked u y => (t =? u) && Bool.eqb x y
  | OFailed t x, OFailed u y => (t =? u) && Bool.eqb x y
  | OCleaned t x, OCleaned u y => (t =? u) && Bool.eqb x y
  | OGet t x, OGet u y => (t =? u) && Bool.eqb x y
  | OMarked t x, OMarked u y => (t =? u) && Bool.eqb x y
  | _, _ => false
  end.

(* ---- launch: how start_monitor() starts the helper ------------------------------------
   A path is (absolute?, components); the helper process resolves its path argument against
   its own working directory, the holder resolved self.fullname against the holder's.
   (Components are interned by the harness; no "..", no symbolic links.) *)
Definition path := (bool * list Z)%type.

Definition resolve (cwd : list Z) (q : path) : list Z := if fst q then snd q else cwd ++ snd q.

Record launch := {
  l_cwd : option path;    (* Popen(..., cwd=...): None = inherit the holder's working directory *)
  l_arg : path            (* the path argument: sys.argv[1] of the helper *)
}.

(* what file_keepalive_based_lock.start_monitor does: no cwd, self.fullname unchanged *)
Definition start_monitor_launch (fullname : path) : launch := {| l_cwd := None; l_arg := fullname |}.

Definition helper_cwd (wcwd : list Z) (l : launch) : list Z :=
  match l_cwd l with None => wcwd | Some c => resolve wcwd c end.

(* the file the helper's utime(lock, None) addresses / the file the holder created *)
Definition helper_target (wcwd : list Z) (l : launch) : list Z := resolve (helper_cwd wcwd l) (l_arg l).
Definition lock_file (wcwd : list Z) (fullname : path) : list Z := resolve wcwd fullname.

Fixpoint zlist_eqb (a b : list Z) : bool :=
  match a, b with
  | [], [] => true
  | x :: a', y :: b' => (x =? y) && zlist_eqb a' b'
  | _, _ => false
  end.

Definition path_eqb (a b : path) : bool := Bool.eqb (fst a) (fst b) && zlist_eqb (snd a) (snd b).

Definition launch_eqb (a b : launch) : bool :=
  match l_cwd a, l_cwd b with
  | None, None => true
  | Some x, Some y => path_eqb x y
  | _, _ => false
  end && path_eqb (l_arg a) (l_arg b).

(* the tie's test on one observed start of the helper: the Popen call is the modelled one and
   the file it makes the helper address (as resolved by the operating system) is the lock file
   (as found on disk) *)
Definition launch_check (wcwd : list Z) (fullname : path) (observed : launch) (target lockfile : list Z) : bool :=
  launch_eqb observed (start_monitor_launch fullname) &&
  zlist_eqb (helper_target wcwd observed) target &&
  zlist_eqb (lock_file wcwd fullname) lockfile &&
  zlist_eqb target lockfile.
