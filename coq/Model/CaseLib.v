(* Helpers used by the generated correspondence case files (coq/_cases/*.v).
   Executable definitions only. *)
From Coq Require Import List ZArith Bool.
Import ListNotations.

Fixpoint failing_from {A : Type} (chk : A -> bool) (i : nat) (l : list A) : list nat :=
  match l with
  | [] => []
  | x :: r => if chk x then failing_from chk (S i) r else i :: failing_from chk (S i) r
  end.

(* indices (from 0) of the cases on which [chk] is false *)
Definition failing {A : Type} (chk : A -> bool) (l : list A) : list nat := failing_from chk 0 l.

Fixpoint list_eqb {A : Type} (eqb : A -> A -> bool) (a b : list A) : bool :=
  match a, b with
  | [], [] => true
  | x :: a', y :: b' => eqb x y && list_eqb eqb a' b'
  | _, _ => false
  end.

Definition option_eqb {A : Type} (eqb : A -> A -> bool) (a b : option A) : bool :=
  match a, b with
  | None, None => true
  | Some x, Some y => eqb x y
  | _, _ => false
  end.

Definition pair_eqb {A B : Type} (ea : A -> A -> bool) (eb : B -> B -> bool) (a b : A * B) : bool :=
  ea (fst a) (fst b) && eb (snd a) (snd b).
