(* C15 - model of `jug status` (jug/subcommands/status.py), uncached and sqlite-cached, and of
   `jug check` (jug/subcommands/check.py).  Executable definitions only (plus the specification
   [spec_cat] as a proposition).

   The store and the locks are read through memoize_store(store, list_base=True):
     can_load(h)      =  h in set(store.list())
     lock.is_locked() =  h in set(store.listlocks())
     lock.is_failed() =  is_locked() and store.getlock(h).is_failed()
   [st : store] is the first, [lk : locks] (Free / Held / Failed per hash) gives the other two. *)
From Coq Require Import List PArith Bool Arith.
From JugV Require Import Model.Dag.
Import ListNotations.

(* the five columns of the table: Complete, Waiting, Failed, Active (running), Ready *)
Inductive cat := Complete | Waiting | CFailed | Active | Ready.

Definition cat_eqb (a b : cat) : bool :=
  match a, b with
  | Complete, Complete | Waiting, Waiting | CFailed, CFailed | Active, Active | Ready, Ready => true
  | _, _ => false
  end.

(* Task.can_run(): `for dep in self.dependencies(): if not dep.can_load(): return False` *)
Definition can_run (st : store) (n : node) : bool := forallb st (n_deps n).

(* cache_lock of memoize_store *)
Definition cl_is_locked (lk : locks) (t : tid) : bool :=
  match lk t with Free => false | _ => true end.
Definition cl_is_failed (lk : locks) (t : tid) : bool :=
  cl_is_locked lk t && match lk t with Failed => true | _ => false end.
(* `if locked: (if failed: failed else: running) else: ready` *)
Definition lock_cat (lk : locks) (t : tid) : cat :=
  if cl_is_locked lk t then (if cl_is_failed lk t then CFailed else Active) else Ready.

(* ---- _status_nocache: one pass over task.alltasks ---------------------------------------------- *)
Definition classify (st : store) (lk : locks) (n : node) : cat :=
  if st (n_tid n) then Complete
  else if can_run st n then lock_cat lk (n_tid n)
  else Waiting.

(* every task increments exactly one counter, keyed by (column, task name) *)
Definition event := (fname * cat)%type.
Definition status_events (d : dag) (st : store) (lk : locks) : list event :=
  map (fun n => (n_name n, classify st lk n)) d.

(* a cell of the printed table, the Total row, and the exit status (number of complete tasks) *)
Definition count (nm : fname) (c : cat) (ev : list event) : nat :=
  length (filter (fun e => Pos.eqb (fst e) nm && cat_eqb (snd e) c) ev).
Definition total (c : cat) (ev : list event) : nat :=
  length (filter (fun e => cat_eqb (snd e) c) ev).
Definition status_exit (ev : list event) : nat := total Complete ev.
Definition tasks_named (nm : fname) (d : dag) : nat :=
  length (filter (fun n => Pos.eqb (n_name n) nm) d).

(* ---- the specification of the property -------------------------------------------------------------- *)
Definition spec_cat (st : store) (lk : locks) (n : node) (c : cat) : Prop :=
  match c with
  | Complete => st (n_tid n) = true
  | Waiting => st (n_tid n) = false /\ exists x, In x (n_deps n) /\ st x = false
  | CFailed => st (n_tid n) = false /\ (forall x, In x (n_deps n) -> st x = true) /\ lk (n_tid n) = Failed
  | Active => st (n_tid n) = false /\ (forall x, In x (n_deps n) -> st x = true) /\ lk (n_tid n) = Held
  | Ready => st (n_tid n) = false /\ (forall x, In x (n_deps n) -> st x = true) /\ lk (n_tid n) = Free
  end.

(* ---- jug check: _check_or_sleep_until(store, False) ---------------------------------------------
     for t in reversed(tasks):
         while not t.can_load(store): return 1
     return 0 *)
Fixpoint check_loop (ns : list node) (st : store) : nat :=
  match ns with
  | [] => 0
  | n :: r => if st (n_tid n) then check_loop r st else 1
  end.
Definition check (d : dag) (st : store) : nat := check_loop (rev d) st.

(* ---- the sqlite cache -------------------------------------------------------------------------------
   table ht: one row (id, name, hash, status) per task object, id = position in alltasks;
   table dep: (source id, target id).  status: 'unknown' (None) or the last printed column. *)
Definition cstatus := option cat.
Definition centry := (fname * tid * cstatus * list nat)%type.
Definition ce_name (e : centry) : fname := fst (fst (fst e)).
Definition ce_hash (e : centry) : tid := snd (fst (fst e)).
Definition ce_status (e : centry) : cstatus := snd (fst e).
Definition ce_deps (e : centry) : list nat := snd e.
Definition cache_db := list centry.

Definition is_status (s : cstatus) (c : cat) : bool :=
  match s with Some c' => cat_eqb c' c | None => false end.

(* load_jugfile: deps[i] = [h2idx[d.hash()] for d in t.dependencies()]; h2idx[hash] = i
   (the index of the LATEST earlier object with that hash); a missing key is the KeyError that
   makes the command print "Could not build dependency graph!" and exit 1 (None) *)
Fixpoint h2idx_get (m : list (tid * nat)) (t : tid) : option nat :=
  match m with
  | [] => None
  | (k, i) :: r => if Pos.eqb k t then Some i else h2idx_get r t
  end.
Fixpoint map_opt {A B : Type} (f : A -> option B) (l : list A) : option (list B) :=
  match l with
  | [] => Some []
  | x :: r => match f x, map_opt f r with
              | Some y, Some ys => Some (y :: ys)
              | _, _ => None
              end
  end.
Fixpoint load_from (d : dag) (i : nat) (h2idx : list (tid * nat)) : option cache_db :=
  match d with
  | [] => Some []
  | n :: r =>
      match map_opt (h2idx_get h2idx) (n_deps n) with
      | None => None
      | Some ix =>
          match load_from r (S i) ((n_tid n, i) :: h2idx) with
          | None => None
          | Some rest => Some ((n_name n, n_tid n, None, ix) :: rest)
          end
      end
  end.
Definition load_jugfile (d : dag) : option cache_db := load_from d 0 [].

(* update_status: the status column is read from ht as it was when the call started
     if status == finished or store.can_load(hash): finished
     else:
         can_run = True
         if status != ready:
             for dep in deps.get(i, []):
                 _, _, dhash, dstatus = ht[dep]
                 if dstatus != finished and not store.can_load(dhash): can_run = False; break
         if can_run: failed / running / ready by the lock     else: waiting *)
Definition dep_ok (db : cache_db) (st : store) (j : nat) : bool :=
  match nth_error db j with
  | Some e => is_status (ce_status e) Complete || st (ce_hash e)
  | None => false
  end.
Definition new_cat (db : cache_db) (st : store) (lk : locks) (e : centry) : cat :=
  if is_status (ce_status e) Complete || st (ce_hash e) then Complete
  else
    let can := if is_status (ce_status e) Ready then true else forallb (dep_ok db st) (ce_deps e) in
    if can then lock_cat lk (ce_hash e) else Waiting.
Definition set_status (e : centry) (c : cat) : centry := (ce_name e, ce_hash e, Some c, ce_deps e).

(* returns the counters and the table as saved (create_sqlite3 / save_dirty3) *)
Definition update_status (db : cache_db) (st : store) (lk : locks) : list event * cache_db :=
  (map (fun e => (ce_name e, new_cat db st lk e)) db,
   map (fun e => set_status e (new_cat db st lk e)) db).

(* _status_cached: [file] is the content of the cache file, None when there is none yet; in
   update mode the jugfile is not consulted at all *)
Definition cached_call (d : dag) (file : option cache_db) (st : store) (lk : locks)
  : option (list event * cache_db) :=
  match (match file with Some db => Some db | None => load_jugfile d end) with
  | None => None
  | Some db => Some (update_status db st lk)
  end.

(* Which store a cached call reads.  Create mode loads the jugfile (jug.init), so it reads the store the
   tasks use: the one the jugfile selected with jug.set_jugdir, else --jugdir.  Update mode never
   loads the jugfile: `store = backends.select(options.jugdir)` - it reads the --jugdir store.
   [jf] = (results, locks) of the store the tasks use, [arg] = of the store --jugdir names; they
   are the same unless the jugfile selects its store itself (known finding D27). *)
Definition cached_call_dirs (d : dag) (file : option cache_db) (jf arg : store * locks)
  : option (list event * cache_db) :=
  match file with
  | Some db => Some (update_status db (fst arg) (snd arg))
  | None => match load_jugfile d with
            | None => None
            | Some db => Some (update_status db (fst jf) (snd jf))
            end
  end.

(* a history of `jug status --cache` calls; between calls the store and the locks change *)
Fixpoint cached_run (d : dag) (file : option cache_db) (h : list (store * locks))
  : list (option (list event)) :=
  match h with
  | [] => []
  | (st, lk) :: r =>
      match cached_call d file st lk with
      | None => None :: cached_run d file r
      | Some (ev, db') => Some ev :: cached_run d (Some db') r
      end
  end.

(* results only grow from one call to the next (locks are arbitrary) *)
Fixpoint monotone (prev : store) (h : list (store * locks)) : Prop :=
  match h with
  | [] => True
  | (st, _) :: r => (forall t, prev t = true -> st t = true) /\ monotone st r
  end.
