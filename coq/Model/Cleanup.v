(* C10 - model of `jug cleanup` (jug/subcommands/cleanup.py) and of the store operations it
   calls: cleanup / remove_locks / listlocks / getlock(..).is_failed / getlock(..).release of
   file_store (with and without a pack), dict_store and redis_store.
   Executable definitions only.  Self-contained on purpose (does not use Model/Store.v).

   Keys (task hashes) are interned to [positive] by the harness.  States are described at the
   granularity `cleanup` can see:
     file store   result files  jugdir/<h[:2]>/<h[2:]>, the pack file jugdir/packs/jugpack (a dict
                  keyed by hash), lock files jugdir/locks/<h>.lock (failed = mtime 1), stray files
                  in jugdir/tempfiles/
     dict store   one python dict with keys  result:<h>  lock:<h> (value 1 = locked, 2 = failed)  and anything else
     redis store  the same key space with values L / F
   Lists stand for sets/dicts; every statement in Props/C10.v is about membership, so neither
   order nor repetition matters.  The `pack-save` lock taken and released inside resave_pack has
   no net effect and is not represented (a pre-existing pack-save lock is out of scope). *)
From Coq Require Import List PArith Bool.
Import ListNotations.

Definition key := positive.

Definition kmem (k : key) (l : list key) : bool := existsb (Pos.eqb k) l.

(* the four modes of the command: (none) | --keep-locks | --locks-only | --failed-only *)
Inductive mode := Default | KeepLocks | LocksOnly | FailedOnly.

(* ------------------------------------------------------------------ locks, generically
   A store is (or contains) a list of entries of some type E; [lk e = Some (k, failed)] when the
   entry is the lock of key k. *)
Section LockOps.
  Context {E : Type} (lk : E -> option (key * bool)).

  (* store.listlocks() *)
  Definition lock_names (l : list E) : list key :=
    flat_map (fun e => match lk e with Some (k, _) => [k] | None => [] end) l.

  (* store.getlock(k).is_failed() *)
  Definition lock_failed (l : list E) (k : key) : bool :=
    existsb (fun e => match lk e with Some (k', f) => Pos.eqb k' k && f | None => false end) l.

  (* store.getlock(k).release() *)
  Definition lock_release (k : key) (l : list E) : list E :=
    filter (fun e => match lk e with Some (k', _) => negb (Pos.eqb k' k) | None => true end) l.

  (* store.remove_locks() *)
  Definition drop_locks (l : list E) : list E :=
    filter (fun e => match lk e with Some _ => false | None => true end) l.

  (* the complement: only the locks, as (key, failed) pairs *)
  Definition lock_entries (l : list E) : list (key * bool) :=
    flat_map (fun e => match lk e with Some kf => [kf] | None => [] end) l.
End LockOps.

(* ------------------------------------------------------------------ file store *)
Record fstore := mk_fstore {
  fs_files : list key;            (* result files jugdir/<h[:2]>/<h[2:]> *)
  fs_pack  : option (list key);   (* keys inside jugdir/packs/jugpack; None = there is no pack file *)
  fs_locks : list (key * bool);   (* jugdir/locks/<h>.lock ; true = marked failed *)
  fs_temps : nat                  (* number of stray files in jugdir/tempfiles/ *)
}.

(* file_store.__init__: self.packed = {} unless the pack file exists *)
Definition packed_of (st : fstore) : list key :=
  match fs_pack st with Some l => l | None => [] end.

(* file_store.list(): list(self.packed.keys()) + list(self._iter_filekeys()) *)
Definition file_results (st : fstore) : list key := packed_of st ++ fs_files st.

Definition flk (e : key * bool) : option (key * bool) := Some e.

Definition file_locks (st : fstore) : list key := lock_names flk (fs_locks st).
Definition file_failed (st : fstore) (k : key) : bool := lock_failed flk (fs_locks st) k.

Definition file_release (k : key) (st : fstore) : fstore :=
  mk_fstore (fs_files st) (fs_pack st) (lock_release flk k (fs_locks st)) (fs_temps st).

(* file_store.remove_locks(): unlink everything in jugdir/locks *)
Definition file_remove_locks (st : fstore) : fstore :=
  mk_fstore (fs_files st) (fs_pack st) (drop_locks flk (fs_locks st)) (fs_temps st).

(* the sub-directories of a jugdir that os.walk enumerates *)
Inductive fdir := DirResults | DirLocks | DirPacks | DirTemp.

(* file_store.cleanup, head of the os.walk loop: are the files of directory [d] looked at? *)
Definition walk_visits (keeplocks : bool) (d : fdir) : bool :=
  match d with
  | DirLocks => negb keeplocks   (* if keeplocks and basename(dirpath) == "locks": continue *)
  | DirPacks => false            (* if basename(dirpath) == "packs": continue *)
  | DirResults | DirTemp => true
  end.

(* file_store.cleanup(active, keeplocks) on a freshly opened store *)
Definition file_cleanup (keeplocks : bool) (active : list key) (st : fstore) : fstore :=
  (* self.packed was read from the pack file when the store was opened *)
  let packed := packed_of st in
  (* for f in fs: f = join(dirpath, f); if f not in active_fnames: os.unlink(f)
     - only the path of an active result is in active_fnames, so every visited lock file,
       temp file and pack file goes, and so does every result file whose key is not active *)
  let files1 := if walk_visits keeplocks DirResults
                then filter (fun k => kmem k active) (fs_files st) else fs_files st in
  let locks1 := if walk_visits keeplocks DirLocks then [] else fs_locks st in
  let temps1 := if walk_visits keeplocks DirTemp then 0 else fs_temps st in
  let pack1  := if walk_visits keeplocks DirPacks then None else fs_pack st in
  (* for k in frozenset(self.packed.keys()) - active: del self.packed[k]; pack_dirty = True *)
  let dead := filter (fun k => negb (kmem k active)) packed in
  let packed' := filter (fun k => negb (kmem k dead)) packed in
  (* if pack_dirty: self.resave_pack() *)
  let pack2 := match dead with [] => pack1 | _ :: _ => Some packed' end in
  mk_fstore files1 pack2 locks1 temps1.

(* ------------------------------------------------------------------ dict store and redis store *)
Inductive kv :=
| KRes (k : key)                      (* result:<h> *)
| KLock (k : key) (failed : bool)     (* lock:<h>, value locked / failed *)
| KOther (n : positive).              (* any other key *)

Definition kvstore := list kv.

(* equality of the KEY of two entries (the value of a lock is not part of its key) *)
Definition kv_key_eqb (a b : kv) : bool :=
  match a, b with
  | KRes x, KRes y => Pos.eqb x y
  | KLock x _, KLock y _ => Pos.eqb x y
  | KOther x, KOther y => Pos.eqb x y
  | _, _ => false
  end.

Definition kvlk (e : kv) : option (key * bool) :=
  match e with KLock k f => Some (k, f) | _ => None end.

(* store.list() *)
Definition kv_results (st : kvstore) : list key :=
  flat_map (fun e => match e with KRes k => [k] | _ => [] end) st.

Definition kv_others (st : kvstore) : list positive :=
  flat_map (fun e => match e with KOther n => [n] | _ => [] end) st.

Definition kv_locks (st : kvstore) : list key := lock_names kvlk st.
Definition kv_failed (st : kvstore) (k : key) : bool := lock_failed kvlk st k.
Definition kv_release (k : key) (st : kvstore) : kvstore := lock_release kvlk k st.
(* dict_store.remove_locks: delete keys starting with b'lock:' ; redis_store.remove_locks: keys('lock:*') *)
Definition kv_remove_locks (st : kvstore) : kvstore := drop_locks kvlk st.

(* dict_store.cleanup(active, keeplocks) *)
Definition dict_cleanup (keeplocks : bool) (active : list key) (st : kvstore) : kvstore :=
  (* existing = set(self.store.keys()) *)
  let existing := st in
  (* for act in active: try: existing.remove(_resultname(act.hash())) except KeyError: pass *)
  let existing := filter (fun e => match e with KRes k => negb (kmem k active) | _ => true end) existing in
  (* if keeplocks: for lock in self.listlocks(): existing.remove(_lockname(lock)) *)
  let existing :=
    if keeplocks
    then filter (fun e => match e with KLock k _ => negb (kmem k (kv_locks st)) | _ => true end) existing
    else existing in
  (* for superflous in existing: del self.store[superflous] *)
  filter (fun e => negb (existsb (kv_key_eqb e) existing)) st.

(* redis_store.cleanup(active, keeplocks) *)
Definition redis_cleanup (keeplocks : bool) (active : list key) (st : kvstore) : kvstore :=
  (* existing = set(self.list()); existing -= set(act.hash() for act in active) *)
  let existing := filter (fun k => negb (kmem k active)) (kv_results st) in
  (* for superflous in existing: self.redis.delete(_resultname(superflous)) *)
  let st1 := filter (fun e => match e with KRes k => negb (kmem k existing) | _ => true end) st in
  (* if not keeplocks: cleaned += self.remove_locks() *)
  if keeplocks then st1 else kv_remove_locks st1.

(* ------------------------------------------------------------------ the command *)
Record backend (S : Type) := mk_backend {
  b_results : S -> list key;                       (* store.list() *)
  b_locks : S -> list key;                         (* store.listlocks() *)
  b_failed : S -> key -> bool;                     (* store.getlock(k).is_failed() *)
  b_cleanup : bool -> list key -> S -> S;          (* store.cleanup(active, keeplocks) *)
  b_remove_locks : S -> S;                         (* store.remove_locks() *)
  b_release : key -> S -> S                        (* store.getlock(k).release() *)
}.
Arguments b_results {S}. Arguments b_locks {S}. Arguments b_failed {S}.
Arguments b_cleanup {S}. Arguments b_remove_locks {S}. Arguments b_release {S}.

Definition file_backend : backend fstore :=
  mk_backend fstore file_results file_locks file_failed file_cleanup file_remove_locks file_release.
Definition dict_backend : backend kvstore :=
  mk_backend kvstore kv_results kv_locks kv_failed dict_cleanup kv_remove_locks kv_release.
Definition redis_backend : backend kvstore :=
  mk_backend kvstore kv_results kv_locks kv_failed redis_cleanup kv_remove_locks kv_release.

(* CleanupCommand.run(store, options); [active] = hashes of task.alltasks *)
Definition cleanup_cmd {S : Type} (B : backend S) (m : mode) (active : list key) (st : S) : S :=
  match m with
  | LocksOnly =>                       (* if options.cleanup_locks_only: store.remove_locks() *)
      b_remove_locks B st
  | FailedOnly =>                      (* elif options.cleanup_failed_only: *)
      (* for name in list(store.listlocks()): lock = store.getlock(name)
             if lock.is_failed(): lock.release() *)
      fold_left (fun s k => if b_failed B s k then b_release B k s else s) (b_locks B st) st
  | Default =>                         (* else: store.cleanup(tasks, keeplocks=options.cleanup_keep_locks) *)
      b_cleanup B false active st
  | KeepLocks =>
      b_cleanup B true active st
  end.

(* store.can_load(k) *)
Definition can_load {S : Type} (B : backend S) (st : S) (k : key) : bool := kmem k (b_results B st).

(* ------------------------------------------------------------------ comparison helpers for the
   correspondence cases (sets given as lists in any order) *)
Definition subset_b {A : Type} (eqb : A -> A -> bool) (a b : list A) : bool :=
  forallb (fun x => existsb (eqb x) b) a.
Definition seteq_b {A : Type} (eqb : A -> A -> bool) (a b : list A) : bool :=
  subset_b eqb a b && subset_b eqb b a.

Definition kb_eqb (a b : key * bool) : bool := Pos.eqb (fst a) (fst b) && Bool.eqb (snd a) (snd b).

Definition kv_eqb (a b : kv) : bool :=
  match a, b with
  | KRes x, KRes y => Pos.eqb x y
  | KLock x f, KLock y g => Pos.eqb x y && Bool.eqb f g
  | KOther x, KOther y => Pos.eqb x y
  | _, _ => false
  end.

(* the part of a file store that is not a lock: same result files, same keys in the pack (a missing
   pack file and an empty one are the same thing), same number of stray temp files *)
Definition file_frame_eqb (a b : fstore) : bool :=
  seteq_b Pos.eqb (fs_files a) (fs_files b) && seteq_b Pos.eqb (packed_of a) (packed_of b) &&
  Nat.eqb (fs_temps a) (fs_temps b).

(* the part of a key-value store that is not a lock *)
Definition kv_frame_eqb (a b : kvstore) : bool :=
  seteq_b kv_eqb (drop_locks kvlk a) (drop_locks kvlk b).
