(* Concrete programs and recorded-looking traces used as non-vacuity witnesses by the property files.
   Executable definitions only. *)
From Coq Require Import List Arith Bool PArith ZArith.
From JugV Require Import Model.MapReduce Model.Slice Model.Deps Model.Exec Model.ExecCase.
Import ListNotations.
Local Open Scope positive_scope.

(* t1 = f1();  t2 = f2(t1[0]);  t3 = f3(t1, x=t2) *)
Definition ex_tasks : list task :=
  [ {| t_id := 1; t_fn := 1; t_args := []; t_kwargs := [] |};
    {| t_id := 2; t_fn := 2; t_args := [AGetitem (ATask 1) (AVal (VInt 0))]; t_kwargs := [] |};
    {| t_id := 3; t_fn := 3; t_args := [ATask 1]; t_kwargs := [(9, ATask 2)] |} ].
Definition ex_prog : program :=
  {| p_tasks := ex_tasks; p_kinds := [(1, FkList 1)]; p_keep_going := false; p_keep_failed := false |}.
Definition ex_v1 : val := VList [VApp 1 [] []; VInt 1].
Definition ex_v2 : val := VApp 2 [VApp 1 [] []] [].
Definition ex_v3 : val := VApp 3 [ex_v1] [(9, ex_v2)].

(* two workers race for t1; worker 1 loses, later runs t2 while worker 0 waits for it, worker 0 runs t3 *)
Definition ex_trace : list (ev val) :=
  [ ECanLoad 0%nat 1 false; ECanLoad 1%nat 1 false;
    ELock 0%nat 1 true; ELock 1%nat 1 false; ECanLoad 0%nat 1 false; ECanLoad 1%nat 1 false;
    EStart 0%nat 1; ECanLoad 1%nat 1 false; ERet 0%nat 1 ex_v1; EDump 0%nat 1 ex_v1; EUnlock 0%nat 1;
    ECanLoad 1%nat 1 true; ELoad 1%nat 1 ex_v1;
    ELock 1%nat 2 true; ECanLoad 0%nat 2 false; ECanLoad 1%nat 2 false; EStart 1%nat 2; ELock 0%nat 2 false;
    ERet 1%nat 2 ex_v2; EDump 1%nat 2 ex_v2; EUnlock 1%nat 2;
    ECanLoad 0%nat 2 true; ELock 0%nat 3 true; ECanLoad 0%nat 3 false; ELoad 0%nat 2 ex_v2; EStart 0%nat 3;
    ELock 1%nat 3 false; ERet 0%nat 3 ex_v3; EDump 0%nat 3 ex_v3; EUnlock 0%nat 3;
    EExit 0%nat 0%nat; EExit 1%nat 0%nat ].
(* the prefix up to the moment both workers are past the race: worker 0 is inside f1 *)
Definition ex_prefix_running : list (ev val) := firstn 7 ex_trace.

(* f2 raises; --keep-going (and optionally --keep-failed) *)
Definition ex_prog_fail (keep_failed : bool) : program :=
  {| p_tasks := ex_tasks; p_kinds := [(1, FkList 1); (2, FkRaise)]; p_keep_going := true; p_keep_failed := keep_failed |}.
Definition ex_trace_fail (keep_failed : bool) : list (ev val) :=
  [ ELock 0%nat 1 true; ECanLoad 0%nat 1 false; EStart 0%nat 1; ERet 0%nat 1 ex_v1; EDump 0%nat 1 ex_v1; EUnlock 0%nat 1;
    ECanLoad 1%nat 1 true; ELock 1%nat 2 true; ECanLoad 1%nat 2 false; ELoad 1%nat 1 ex_v1; EStart 1%nat 2; ERaise 1%nat 2;
    (if keep_failed then EFailMark 1%nat 2 else EUnlock 1%nat 2);
    ECanLoad 1%nat 2 false; EExit 1%nat 1%nat ] ++
  (if keep_failed then [ELock 0%nat 2 false] else [ELock 0%nat 2 true; ECanLoad 0%nat 2 false; EStart 0%nat 2; ERaise 0%nat 2; EUnlock 0%nat 2]) ++
  [ ECanLoad 0%nat 2 false; EExit 0%nat (if keep_failed then 0%nat else 1%nat) ].

(* worker 0 is asked to stop inside f1; worker 1 (which had lost the lock) leaves; worker 2 finishes later *)
Definition ex_trace_stop : list (ev val) :=
  [ ELock 0%nat 1 true; ECanLoad 0%nat 1 false; EStart 0%nat 1; ELock 1%nat 1 false; ECanLoad 1%nat 1 false;
    EInterrupt 0%nat; EUnlock 0%nat 1; EExit 0%nat 143%nat; ECanLoad 1%nat 1 false; EExit 1%nat 0%nat ].
Definition ex_trace_finish (w : nat) : list (ev val) :=
  [ ELock w 1 true; ECanLoad w 1 false; EStart w 1; ERet w 1 ex_v1; EDump w 1 ex_v1; EUnlock w 1;
    ELock w 2 true; ECanLoad w 2 false; EStart w 2; ERet w 2 ex_v2; EDump w 2 ex_v2; EUnlock w 2;
    ELock w 3 true; ECanLoad w 3 false; EStart w 3; ERet w 3 ex_v3; EDump w 3 ex_v3; EUnlock w 3; EExit w 0%nat ].

(* worker 0 is killed inside f1; worker 1 skips the locked task and leaves; the stale lock is removed; worker 2 finishes *)
Definition ex_trace_crash : list (ev val) :=
  [ ELock 0%nat 1 true; ECanLoad 0%nat 1 false; EStart 0%nat 1; ELock 1%nat 1 false; ECanLoad 1%nat 1 false;
    ECrash 0%nat; ECanLoad 1%nat 1 false; EExit 1%nat 0%nat ].

(* a = g1(); barrier(); b = g2()  -  b waits for a through the barrier only *)
Definition ex_bprog : bprogram :=
  {| bp_prog := {| p_tasks := [ {| t_id := 1; t_fn := 1; t_args := []; t_kwargs := [] |};
                                {| t_id := 2; t_fn := 2; t_args := []; t_kwargs := [] |} ];
                   p_kinds := []; p_keep_going := false; p_keep_failed := false |};
     bp_extra := [(2, [1])] |}.
Definition ex_ba : val := VApp 1 [] [].
Definition ex_bb : val := VApp 2 [] [].
(* worker 1 finds the barrier closed while worker 0 runs a; after a reload each sees b; worker 0 runs it *)
Definition ex_btrace : list (ev val) :=
  [ ELock 0%nat 1 true; ECanLoad 0%nat 1 false; EStart 0%nat 1; ECanLoad 1%nat 1 false; ELock 1%nat 1 false;
    ERet 0%nat 1 ex_ba; EDump 0%nat 1 ex_ba; EUnlock 0%nat 1;
    ECanLoad 0%nat 1 true; ELock 0%nat 2 true; ECanLoad 0%nat 2 false; EStart 0%nat 2;
    ECanLoad 1%nat 1 true; ELock 1%nat 2 false; ECanLoad 1%nat 2 false;
    ERet 0%nat 2 ex_bb; EDump 0%nat 2 ex_bb; EUnlock 0%nat 2; EExit 0%nat 0%nat; EExit 1%nat 0%nat ].
