(* Model of jug/mapreduce.py: block splitting, the reducer tree, mapped sequences,
   currymap.  Executable definitions only. *)
From Coq Require Import List Arith ZArith Bool.
Import ListNotations.

Section BreakUp.
  Context {A : Type}.

  (* _break_up(lst, step):  start=0; while start < len(lst): yield lst[start:start+step]; start += step
     The Python loop does not terminate for step = 0; every statement about break_up assumes 1 <= step. *)
  Fixpoint break_up_fuel (fuel : nat) (l : list A) (step : nat) : list (list A) :=
    match fuel with
    | O => []
    | S f => match l with
             | [] => []
             | _ :: _ => firstn step l :: break_up_fuel f (skipn step l) step
             end
    end.

  Definition break_up (l : list A) (step : nat) : list (list A) := break_up_fuel (length l) l step.
End BreakUp.

(* The task tree built by mapreduce(): leaves are Task(_jug_map_reduce, r, m, block),
   inner nodes Task(_jug_reduce, r, [sub-tasks]). *)
Inductive node (X : Type) : Type :=
| MapLeaf (xs : list X)
| RedNode (ns : list (node X)).
Arguments MapLeaf {X} xs.
Arguments RedNode {X} ns.

Section Tree.
  Context {X : Type}.

  (* while len(reducers) > 1: reducers = [Task(_jug_reduce, ...) for grp in _break_up(reducers, reduce_step)]
     None = fuel exhausted (the Python loop would still be running). *)
  Fixpoint red_loop (fuel : nat) (rs : list (node X)) (rstep : nat) : option (list (node X)) :=
    match fuel with
    | O => None
    | S f => if length rs <=? 1 then Some rs
             else red_loop f (map RedNode (break_up rs rstep)) rstep
    end.

  (* mapreduce(r, m, inputs, map_step, reduce_step):  Some [] = identity([]), Some [t] = the root task *)
  Definition mapreduce_tree (inputs : list X) (mstep rstep : nat) : option (list (node X)) :=
    red_loop (S (length inputs)) (map MapLeaf (break_up inputs mstep)) rstep.
End Tree.

Section Eval.
  Context {X Y : Type} (r : Y -> Y -> Y) (m : X -> Y).

  (* functools.reduce(r, ys) without initial value: None = TypeError on the empty sequence *)
  Definition reduce1 (ys : list Y) : option Y :=
    match ys with
    | [] => None
    | y :: t => Some (fold_left r t y)
    end.

  Fixpoint sequence_opt {B : Type} (l : list (option B)) : option (list B) :=
    match l with
    | [] => Some []
    | None :: _ => None
    | Some x :: t => match sequence_opt t with Some t' => Some (x :: t') | None => None end
    end.

  (* value of a tree node: _jug_map_reduce / _jug_reduce *)
  Fixpoint eval_node (n : node X) : option Y :=
    match n with
    | MapLeaf xs => reduce1 (map m xs)
    | RedNode ns =>
        match sequence_opt ((fix evs (l : list (node X)) : list (option Y) :=
                               match l with [] => [] | n' :: t => eval_node n' :: evs t end) ns) with
        | Some ys => reduce1 ys
        | None => None
        end
    end.

  (* value(mapreduce(...)):  [] for empty input (identity([])), else the root's value *)
  Inductive mr_value := MrEmpty | MrValue (y : Y) | MrError | MrDiverges.

  Definition mapreduce_value (inputs : list X) (mstep rstep : nat) : mr_value :=
    match mapreduce_tree inputs mstep rstep with
    | None => MrDiverges
    | Some [] => MrEmpty
    | Some [t] => match eval_node t with Some y => MrValue y | None => MrError end
    | Some _ => MrError
    end.
End Eval.

Section MapSeq.
  Context {Y : Type}.

  (* map(m, xs, map_step) for map_step <> 1: blocks = [Task(_jug_map, m, blk)], block_access(blocks, map_step, n).
     [ys] is the list of mapped values; a block task's value is the corresponding block of ys. *)
  Definition map_blocks (ys : list Y) (mstep : nat) : list (list Y) := break_up ys mstep.

  (* block_access.__jug_value__ : res.extend(value(blk)) for blk in blocks *)
  Definition mapseq_value (blocks : list (list Y)) : list Y := concat blocks.

  (* block_access.__getitem__(int p) with 0 <= p < len:  self.blocks[p // bs][p % bs] *)
  Definition block_get (blocks : list (list Y)) (bs : nat) (p : nat) : option Y :=
    match nth_error blocks (p / bs) with
    | Some blk => nth_error blk (p mod bs)
    | None => None
    end.

  (* currymap: for each block task t: result.append(t[i]) for i in range(len(block)) *)
  Definition currymap_values (blocks : list (list Y)) : list (option Y) :=
    concat (map (fun blk => map (fun i => nth_error blk i) (seq 0 (length blk))) blocks).
End MapSeq.

(* flat, uniquely decodable code of a tree over Z (used only to compare trees in the case files) *)
Section Code.
  Local Open Scope Z_scope.
  Fixpoint node_code (n : node Z) : list Z :=
    match n with
    | MapLeaf xs => (-1) :: Z.of_nat (length xs) :: xs
    | RedNode ns => (-2) :: Z.of_nat (length ns) ::
                    (fix codes (l : list (node Z)) : list Z :=
                       match l with [] => [] | n' :: t => node_code n' ++ codes t end) ns
    end.

  Definition forest_code (o : option (list (node Z))) : list Z :=
    match o with
    | None => [-9]
    | Some ns => (-3) :: Z.of_nat (length ns) :: flat_map node_code ns
    end.
End Code.
