(* Model of option resolution in jug/options.py (C20).

   Executable definitions only.  Strings are Coq [string]s; the stated domain is
   printable ASCII (codes 32..126), which is what the harness generates.

   What is modelled
   - the option table (every [add_argument] of options.py and subcommands/*.py, the
     defaults of [load_default_options] and of every [parse_defaults]) is DATA
     ([option_table]); the table of the current source is generated into
     Gen/OptionTable.v on every run;
   - argparse, as far as options.parse uses it: the namespace holds one entry per
     argument of the chosen subparser, an argument that is absent from the command
     line contributes its action's "absent value", [type=int], [required=True],
     mutually exclusive groups, positionals with nargs '?' / '*';
   - the three layers and the chained lookup of [Options.__getattr__];
   - [read_configuration_file]: key naming and coercion to the type of the default
     (in the shape the table says the source has: [CoerceByType] = [type(old)(value)],
     [CoerceBoolHelper] = [_str_to_bool] for boolean defaults), and which file it reads when
     none is passed: the first existing one of a list of candidate paths ([first_existing],
     [run_home]; the list of the current source is generated too: [rc_candidates]);
   - the jugdir template expansion, the [sys.argv] rewrite, backend selection from
     the jugdir string (backends/select.py).
   The specification ([spec_resolve], [spec_coerce], [str_to_bool]) is defined here
   too, independently of the table's coercion shape. *)
From Coq Require Import List ZArith Bool String Ascii.
Import ListNotations.
Local Open Scope string_scope.
Local Open Scope list_scope.

(* ------------------------------------------------------------------ values *)
Inductive optval :=
| VNone
| VBool (b : bool)
| VInt (z : Z)
| VStr (s : string)
| VList (l : list string)
| VOther (tag : string).      (* any other Python object, e.g. the [print] function *)

Fixpoint strlist_eqb (a b : list string) : bool :=
  match a, b with
  | [], [] => true
  | x :: a', y :: b' => String.eqb x y && strlist_eqb a' b'
  | _, _ => false
  end.

Definition optval_eqb (a b : optval) : bool :=
  match a, b with
  | VNone, VNone => true
  | VBool x, VBool y => Bool.eqb x y
  | VInt x, VInt y => Z.eqb x y
  | VStr x, VStr y => String.eqb x y
  | VList x, VList y => strlist_eqb x y
  | VOther x, VOther y => String.eqb x y
  | _, _ => false
  end.

Definition is_none (v : optval) : bool := match v with VNone => true | _ => false end.

(* ------------------------------------------------------------------ strings *)
Definition mem_str (s : string) (l : list string) : bool := existsb (String.eqb s) l.

Definition lower_ascii (c : ascii) : ascii :=
  let n := N_of_ascii c in
  if (N.leb 65 n && N.leb n 90)%bool then ascii_of_N (n + 32) else c.

Fixpoint lower (s : string) : string :=
  match s with
  | EmptyString => EmptyString
  | String c r => String (lower_ascii c) (lower r)
  end.

Fixpoint replace_char (a b : ascii) (s : string) : string :=
  match s with
  | EmptyString => EmptyString
  | String c r => String (if Ascii.eqb c a then b else c) (replace_char a b r)
  end.

Fixpoint chars (s : string) : list string :=
  match s with
  | EmptyString => []
  | String c r => String c EmptyString :: chars r
  end.

(* Python's int(s) for ASCII input: surrounding blanks, optional sign, decimal digits with
   single underscores between digits. *)
Definition is_digit (c : ascii) : bool := let n := N_of_ascii c in (N.leb 48 n && N.leb n 57)%bool.
Definition digit_val (c : ascii) : Z := (Z.of_N (N_of_ascii c) - 48)%Z.

Fixpoint digits_acc (after_digit : bool) (acc : Z) (l : list ascii) : option Z :=
  match l with
  | [] => if after_digit then Some acc else None
  | c :: r =>
      if is_digit c then digits_acc true (acc * 10 + digit_val c)%Z r
      else if Ascii.eqb c "_" then (if after_digit then digits_acc false acc r else None)
      else None
  end.

Fixpoint drop_blanks (l : list ascii) : list ascii :=
  match l with
  | c :: r => if Ascii.eqb c " " then drop_blanks r else l
  | [] => []
  end.

Definition parse_int (s : string) : option Z :=
  let l := rev (drop_blanks (rev (drop_blanks (list_ascii_of_string s)))) in
  match l with
  | c :: r =>
      if Ascii.eqb c "+" then digits_acc false 0%Z r
      else if Ascii.eqb c "-" then option_map Z.opp (digits_acc false 0%Z r)
      else digits_acc false 0%Z l
  | [] => None
  end.

(* ------------------------------------------------------------------ the option table *)
Inductive action := AStore | AStoreConst (c : optval) | AStoreTrue | AStoreFalse | AVersion.
Inductive nargs := NOne | NOpt | NStar.            (* nargs absent / '?' / '*' *)
Inductive argtype := TStr | TInt.                  (* type= absent or str / int *)
Inductive coerce_mode :=
| CoerceByType          (* value = type(old_value)(value) *)
| CoerceBoolHelper.     (* _str_to_bool(value) when the default is a bool, else as above *)

Record arg_entry := {
  a_sub : string;               (* subcommand whose [parse] adds it; "" = added to every subparser *)
  a_flags : list string;        (* option strings; [] for a positional *)
  a_dest : string;
  a_action : action;
  a_nargs : nargs;
  a_default : option optval;    (* the default= keyword, when given *)
  a_type : argtype;
  a_required : bool;
  a_mutex : option nat          (* mutually exclusive group *)
}.

Record option_table := {
  t_subcommands : list string;                 (* registered subcommand names *)
  t_subdest : string;                          (* add_subparsers(dest=...) *)
  t_top : list arg_entry;                      (* arguments of the main parser (--version) *)
  t_specific : list arg_entry;                 (* arguments added by SubCommand.parse methods *)
  t_common : list arg_entry;                   (* add_common_options ++ what options.parse adds to every subparser *)
  t_main_defaults : list (string * optval);    (* load_default_options, in assignment order *)
  t_sub_defaults : list (string * optval);     (* every parse_defaults(), in load order *)
  t_coerce : coerce_mode;
  t_false_strings : list string                (* the literals of _str_to_bool *)
}.

Definition is_positional (e : arg_entry) : bool := match a_flags e with [] => true | _ => false end.

(* the arguments of the subparser of [sub], in the order they are added *)
Definition applicable (T : option_table) (sub : string) : list arg_entry :=
  filter (fun e => String.eqb (a_sub e) sub) (t_specific T) ++ t_common T.

Definition all_entries (T : option_table) : list arg_entry := t_specific T ++ t_common T.

(* value of the namespace attribute when the argument does not occur on the command line;
   None: the action puts nothing in the namespace *)
Definition absent_value (e : arg_entry) : option optval :=
  match a_action e with
  | AVersion => None
  | act =>
      Some (if (is_positional e && match a_nargs e with NStar => true | _ => false end)%bool
            then match a_default e with Some VNone | None => VList [] | Some d => d end
            else match a_default e with
                 | Some d => d
                 | None => match act with
                           | AStoreTrue => VBool false
                           | AStoreFalse => VBool true
                           | _ => VNone
                           end
                 end)
  end.

Definition absent_is_none (e : arg_entry) : bool :=
  match absent_value e with Some VNone | None => true | Some _ => false end.

Definition typed (t : argtype) (raw : string) : option optval :=
  match t with
  | TStr => Some (VStr raw)
  | TInt => option_map VInt (parse_int raw)
  end.

(* value stored when the option occurs with argument [raw]; None = argparse error *)
Definition given_value (e : arg_entry) (raw : string) : option optval :=
  match a_action e with
  | AStore => typed (a_type e) raw
  | AStoreConst c => Some c
  | AStoreTrue => Some (VBool true)
  | AStoreFalse => Some (VBool false)
  | AVersion => None       (* prints and exits: not a parse *)
  end.

(* ------------------------------------------------------------------ association lists *)
Definition layer := list (string * optval).

Fixpoint lookup (k : string) (l : layer) : option optval :=
  match l with
  | [] => None
  | (k', v) :: r => if String.eqb k' k then Some v else lookup k r
  end.

Definition orelse {A : Type} (a b : option A) : option A := match a with Some _ => a | None => b end.

(* setattr in order: the last assignment wins *)
Definition defaults_lookup (T : option_table) (k : string) : option optval :=
  orelse (lookup k (rev (t_main_defaults T))) (lookup k (rev (t_sub_defaults T))).

(* ------------------------------------------------------------------ the command line *)
Record cmdline := {
  c_sub : string;                       (* the subcommand word *)
  c_opts : list (string * string);      (* (option string, its argument or "" for flags), left to right *)
  c_pos : list string                   (* positional words, left to right *)
}.

Definition entry_id (e : arg_entry) : string := hd "" (a_flags e).
Definition find_flag (es : list arg_entry) (flag : string) : option arg_entry :=
  find (fun e => mem_str flag (a_flags e)) es.

Definition mutex_conflict (e : arg_entry) (seen : list arg_entry) : bool :=
  match a_mutex e with
  | None => false
  | Some g =>
      existsb (fun e' => match a_mutex e' with
                         | Some g' => (Nat.eqb g g' && String.eqb (a_sub e) (a_sub e')
                                       && negb (String.eqb (entry_id e) (entry_id e')))%bool
                         | None => false
                         end) seen
  end.

Fixpoint apply_opts (es : list arg_entry) (opts : list (string * string)) (acc : layer)
         (seen : list arg_entry) : option (layer * list arg_entry) :=
  match opts with
  | [] => Some (acc, seen)
  | (flag, raw) :: r =>
      match find_flag es flag with
      | None => None
      | Some e =>
          if mutex_conflict e seen then None
          else match given_value e raw with
               | None => None
               | Some v => apply_opts es r ((a_dest e, v) :: acc) (e :: seen)
               end
      end
  end.

Definition required_ok (es seen : list arg_entry) : bool :=
  forallb (fun e => (negb (a_required e) || is_positional e
                     || existsb (fun e' => String.eqb (entry_id e) (entry_id e')) seen)%bool) es.

(* positional words are handed out greedily, in order *)
Fixpoint assign_pos (pes : list arg_entry) (toks : list string) (acc : layer) : option layer :=
  match pes with
  | [] => match toks with [] => Some acc | _ => None end
  | e :: r =>
      match a_nargs e, toks with
      | NOne, [] => None
      | NOne, t :: ts | NOpt, t :: ts =>
          match typed (a_type e) t with
          | Some v => assign_pos r ts ((a_dest e, v) :: acc)
          | None => None
          end
      | NOpt, [] | NStar, [] => assign_pos r [] acc
      | NStar, _ => assign_pos r [] ((a_dest e, VList toks) :: acc)
      end
  end.

Definition base_ns (es : list arg_entry) : layer :=
  flat_map (fun e => match absent_value e with Some v => [(a_dest e, v)] | None => [] end) es.

(* what the user wrote explicitly: (dest, value) for every option/positional that occurs *)
Definition explicit (T : option_table) (c : cmdline) : option layer :=
  if negb (mem_str (c_sub c) (t_subcommands T)) then None
  else
    let es := applicable T (c_sub c) in
    match apply_opts (filter (fun e => negb (is_positional e)) es) (c_opts c) [] [] with
    | None => None
    | Some (acc1, seen) =>
        if negb (required_ok es seen) then None
        else match assign_pos (filter is_positional es) (c_pos c) [] with
             | None => None
             | Some acc2 => Some (acc2 ++ acc1)
             end
    end.

(* vars(parser.parse_args(args)): explicit values, then absent values, then the subcommand *)
Definition namespace (T : option_table) (c : cmdline) : option layer :=
  match explicit T c with
  | None => None
  | Some ex => Some (ex ++ base_ns (applicable T (c_sub c)) ++ [(t_subdest T, VStr (c_sub c))])
  end.

(* the command-line layer: exactly the namespace entries that are not None *)
Definition cmd_lookup (ns : layer) (k : string) : option optval :=
  match lookup k ns with
  | Some VNone => None
  | r => r
  end.

(* ------------------------------------------------------------------ the configuration file *)
Definition key_to_option (s : string) : string := replace_char "-" "_" s.

Definition new_name (section key : string) : string :=
  if String.eqb section "main" then key_to_option key
  else key_to_option section ++ "_" ++ key_to_option key.

(* what the code does with a configuration string, given the default found for the name *)
Definition impl_coerce (mode : coerce_mode) (falses : list string)
           (old : option optval) (value : string) : option optval :=
  match old with
  | None | Some VNone => Some (VStr value)
  | Some (VBool _) =>
      Some (VBool (match mode with
                   | CoerceByType => negb (String.eqb value "")
                   | CoerceBoolHelper => negb (mem_str (lower value) falses)
                   end))
  | Some (VInt _) => option_map VInt (parse_int value)
  | Some (VStr _) => Some (VStr value)
  | Some (VList _) => Some (VList (chars value))
  | Some (VOther _) => None
  end.

Definition config := list (string * string * string).   (* (section, key, value), file order *)

Fixpoint read_config (T : option_table) (cfg : config) (acc : layer) : option layer :=
  match cfg with
  | [] => Some acc
  | (sec, key, value) :: r =>
      let n := new_name sec key in
      match impl_coerce (t_coerce T) (t_false_strings T) (defaults_lookup T n) value with
      | None => None
      | Some v => read_config T r ((n, v) :: acc)
      end
  end.

(* ------------------------------------------------------------------ what the code computes *)
Definition impl_resolve (T : option_table) (ns ini : layer) (k : string) : option optval :=
  orelse (cmd_lookup ns k) (orelse (lookup k ini) (defaults_lookup T k)).

(* ------------------------------------------------------------------ specification *)
Definition spec_false_strings : list string := [""; "0"; "false"; "off"].
Definition str_to_bool (s : string) : bool := negb (mem_str (lower s) spec_false_strings).

Definition spec_coerce (default : option optval) (value : string) : option optval :=
  match default with
  | None | Some VNone => Some (VStr value)
  | Some (VBool _) => Some (VBool (str_to_bool value))
  | Some (VInt _) => option_map VInt (parse_int value)
  | Some (VStr _) => Some (VStr value)
  | Some (VList _) => Some (VList (chars value))
  | Some (VOther _) => None
  end.

(* the value written on the command line for option k, if any *)
Definition cmd_given (T : option_table) (c : cmdline) (k : string) : option optval :=
  match explicit T c with
  | Some ex => lookup k (ex ++ [(t_subdest T, VStr (c_sub c))])
  | None => None
  end.

(* the string the configuration file gives for option k (the last one), if any *)
Fixpoint cfg_given (cfg : config) (k : string) : option string :=
  match cfg with
  | [] => None
  | (sec, key, value) :: r =>
      match cfg_given r k with
      | Some s => Some s
      | None => if String.eqb (new_name sec key) k then Some value else None
      end
  end.

(* command line ?? coerce(default, configuration file) ?? default *)
Definition spec_resolve (T : option_table) (c : cmdline) (cfg : config) (k : string) : option optval :=
  match cmd_given T c k with
  | Some v => Some v
  | None =>
      match cfg_given cfg k with
      | Some s => spec_coerce (defaults_lookup T k) s
      | None => defaults_lookup T k
      end
  end.

(* ------------------------------------------------------------------ jugdir template, sys.argv, backend *)
Inductive fmt_result := FmtOk (s : string) | FmtErr.
Inductive fstate := FText | FPct | FKey (k : string) | FConv (k : string).

Definition fmt_cons (c : ascii) (r : fmt_result) : fmt_result :=
  match r with FmtOk s => FmtOk (String c s) | FmtErr => FmtErr end.
Definition fmt_app (p : string) (r : fmt_result) : fmt_result :=
  match r with FmtOk s => FmtOk (p ++ s) | FmtErr => FmtErr end.

(* template % {'date': date, 'jugfile': stem}; modelled subset of %-formatting: literal text,
   "%%", "%(key)s"; any other conversion is FmtErr *)
Fixpoint expand_go (st : fstate) (stem date : string) (t : string) : fmt_result :=
  match t with
  | EmptyString => match st with FText => FmtOk "" | _ => FmtErr end
  | String c r =>
      match st with
      | FText => if Ascii.eqb c "%" then expand_go FPct stem date r
                 else fmt_cons c (expand_go FText stem date r)
      | FPct => if Ascii.eqb c "%" then fmt_cons "%" (expand_go FText stem date r)
                else if Ascii.eqb c "(" then expand_go (FKey "") stem date r
                else FmtErr
      | FKey k => if Ascii.eqb c ")" then expand_go (FConv k) stem date r
                  else expand_go (FKey (k ++ String c "")) stem date r
      | FConv k => if Ascii.eqb c "s"
                   then if String.eqb k "jugfile" then fmt_app stem (expand_go FText stem date r)
                        else if String.eqb k "date" then fmt_app date (expand_go FText stem date r)
                        else FmtErr
                   else FmtErr
      end
  end.

Definition expand (template stem date : string) : fmt_result := expand_go FText stem date template.

(* jugfile[:-3] *)
Definition drop_last3 (s : string) : string := substring 0 (String.length s - 3) s.

Inductive backend :=
| BRedis (url : string) | BDict | BDictFile (path : string)
| BFileKeepalive (path : string) | BFile (path : string).

Definition drop (n : nat) (s : string) : string := substring n (String.length s - n) s.

(* backends/select.py *)
Definition backend_of (jugdir : string) : backend :=
  if prefix "redis:" jugdir then BRedis jugdir
  else if String.eqb jugdir "dict_store" then BDict
  else if prefix "dict_store:" jugdir then BDictFile (drop 11 jugdir)
  else if prefix "file_keepalive:" jugdir then BFileKeepalive (drop 15 jugdir)
  else BFile jugdir.

Definition backend_eqb (a b : backend) : bool :=
  match a, b with
  | BRedis x, BRedis y | BDictFile x, BDictFile y | BFileKeepalive x, BFileKeepalive y
  | BFile x, BFile y => String.eqb x y
  | BDict, BDict => true
  | _, _ => false
  end.

Inductive outcome :=
| OArgError        (* argparse rejected the command line (SystemExit) *)
| OCoerceError     (* a configuration value cannot be converted (ValueError/TypeError) *)
| OTypeError       (* jugdir / jugfile are not strings *)
| OFormatError     (* the jugdir template cannot be expanded *)
| OOk (attrs : list (option optval)) (argv : list string).

(* options.parse(args, optionsfile): the attributes [keys] of the returned object (None =
   AttributeError) and sys.argv afterwards *)
Definition run (T : option_table) (c : cmdline) (cfg : config) (date : string)
           (keys : list string) : outcome :=
  match namespace T c with
  | None => OArgError
  | Some ns =>
      match read_config T cfg [] with
      | None => OCoerceError
      | Some ini =>
          let res := impl_resolve T ns ini in
          match res "jugdir", res "jugfile" with
          | Some (VStr d), Some (VStr f) =>
              match expand d (drop_last3 f) date with
              | FmtErr => OFormatError
              | FmtOk dir =>
                  let ua := match lookup "user_args" ns with Some (VList l) => l | _ => [] end in
                  OOk (map (fun k => if String.eqb k "jugdir" then Some (VStr dir) else res k) keys)
                      (f :: ua)
              end
          | _, _ => OTypeError
          end
      end
  end.

(* where the store is: the expanded jugdir and the backend chosen from it *)
Definition store_location (T : option_table) (c : cmdline) (cfg : config) (date : string)
  : option (string * backend) :=
  match run T c cfg date ["jugdir"] with
  | OOk [Some (VStr d)] _ => Some (d, backend_of d)
  | _ => None
  end.

(* ------------------------------------------------------------------ which file is "the configuration file"
   options.parse(args) without an explicit options file (what the [jug] command does):
   read_configuration_file walks a fixed list of candidate paths under the home directory and
   reads THE FIRST ONE THAT EXISTS - only that one.  If it exists but cannot be opened (IOError,
   e.g. a directory) there is no configuration at all; the later candidates are not consulted. *)
Inductive candidate :=
| CAbsent                    (* os.path.exists(path) is false *)
| CUnreadable                (* exists, open() raises IOError *)
| CFile (cfg : config).      (* a readable file with these entries *)

Definition is_absent (x : candidate) : bool := match x with CAbsent => true | _ => false end.

Fixpoint first_existing (cands : list candidate) : option candidate :=
  match cands with
  | [] => None
  | x :: r => if is_absent x then first_existing r else Some x
  end.

Definition discovered_config (cands : list candidate) : config :=
  match first_existing cands with
  | Some (CFile cfg) => cfg
  | _ => []
  end.

(* options.parse(args): the candidates in priority order *)
Definition run_discovered (T : option_table) (c : cmdline) (cands : list candidate) (date : string)
           (keys : list string) : outcome :=
  run T c (discovered_config cands) date keys.

(* a home directory: what is found at each path (not listed = nothing there) *)
Definition home := list (string * candidate).

Fixpoint home_at (h : home) (p : string) : candidate :=
  match h with
  | [] => CAbsent
  | (q, x) :: r => if String.eqb q p then x else home_at r p
  end.

Definition candidates_in (paths : list string) (h : home) : list candidate := map (home_at h) paths.

(* [paths] = the candidate list of the source (Gen/OptionTable.v: rc_candidates) *)
Definition run_home (T : option_table) (c : cmdline) (paths : list string) (h : home) (date : string)
           (keys : list string) : outcome :=
  run_discovered T c (candidates_in paths h) date keys.

(* the documented candidates, newest location first (docs/source/configuration.rst, history.rst) *)
Definition spec_rc_candidates : list string :=
  ["~/.config/jug/jugrc"; "~/.config/jugrc"; "~/.jug/configrc"].

(* ------------------------------------------------------------------ side conditions on a table (decidable) *)
Definition const_not_none (e : arg_entry) : bool :=
  match a_action e with AStoreConst c => negb (is_none c) | _ => true end.

Definition false_strings_ok (T : option_table) : bool :=
  (forallb (fun s => mem_str s spec_false_strings) (t_false_strings T)
   && forallb (fun s => mem_str s (t_false_strings T)) spec_false_strings)%bool.

Definition coerce_is_helper (T : option_table) : bool :=
  match t_coerce T with CoerceBoolHelper => true | CoerceByType => false end.

(* general side conditions: explicit values are never None, no argument is stored under the
   subparser's dest, booleans in the configuration file go through the tested helper *)
Definition table_ok (T : option_table) : bool :=
  (forallb const_not_none (all_entries T)
   && forallb (fun e => negb (String.eqb (a_dest e) (t_subdest T))) (all_entries T)
   && coerce_is_helper T
   && false_strings_ok T)%bool.

(* every argument except [but] leaves None in the namespace when absent *)
Definition absent_none_except (but : string) (T : option_table) : bool :=
  forallb (fun e => (absent_is_none e || String.eqb (a_dest e) but)%bool) (all_entries T).

(* per key and subcommand: what the general theorem needs *)
Definition absent_none_for (T : option_table) (sub k : string) : bool :=
  forallb (fun e => (negb (String.eqb (a_dest e) k) || absent_is_none e)%bool) (applicable T sub).

(* every subparser takes exactly: optional positional "jugfile", then "user_args" (all the rest),
   and nothing else is stored under these two names *)
Definition positional_shape (T : option_table) (sub : string) : bool :=
  let es := applicable T sub in
  (match filter is_positional es with
   | [e1; e2] =>
       String.eqb (a_dest e1) "jugfile" && match a_nargs e1 with NOpt => true | _ => false end
       && match a_type e1 with TStr => true | _ => false end
       && match a_action e1 with AStore => true | _ => false end
       && String.eqb (a_dest e2) "user_args" && match a_nargs e2 with NStar => true | _ => false end
       && match a_action e2 with AStore => true | _ => false end
       && match absent_value e2 with Some (VList []) => true | _ => false end
   | _ => false
   end
   && forallb (fun e => is_positional e || negb (String.eqb (a_dest e) "user_args"
                                                || String.eqb (a_dest e) "jugfile")) es)%bool.

Definition positional_shape_all (T : option_table) : bool :=
  forallb (positional_shape T) (t_subcommands T).

(* ------------------------------------------------------------------ comparison helpers for the case files *)
Fixpoint optlist_eqb (a b : list (option optval)) : bool :=
  match a, b with
  | [], [] => true
  | None :: a', None :: b' => optlist_eqb a' b'
  | Some x :: a', Some y :: b' => optval_eqb x y && optlist_eqb a' b'
  | _, _ => false
  end.

Definition outcome_eqb (a b : outcome) : bool :=
  match a, b with
  | OArgError, OArgError | OCoerceError, OCoerceError | OTypeError, OTypeError
  | OFormatError, OFormatError => true
  | OOk x u, OOk y v => optlist_eqb x y && strlist_eqb u v
  | _, _ => false
  end.

(* ------------------------------------------------------------------ the whole of options.parse, as specified *)
Definition cfg_unconvertible (T : option_table) (cfg : config) : bool :=
  existsb (fun e => match e with (sec, key, value) =>
                      match spec_coerce (defaults_lookup T (new_name sec key)) value with
                      | None => true | Some _ => false end end) cfg.

(* attributes by [spec_resolve]; jugdir = template % (jugfile stem, date);
   sys.argv = resolved jugfile :: the positional words after the first *)
Definition spec_run (T : option_table) (c : cmdline) (cfg : config) (date : string)
           (keys : list string) : outcome :=
  match explicit T c with
  | None => OArgError
  | Some _ =>
      if cfg_unconvertible T cfg then OCoerceError
      else match spec_resolve T c cfg "jugdir", spec_resolve T c cfg "jugfile" with
           | Some (VStr d), Some (VStr f) =>
               match expand d (drop_last3 f) date with
               | FmtErr => OFormatError
               | FmtOk dir =>
                   OOk (map (fun k => if String.eqb k "jugdir" then Some (VStr dir)
                                      else spec_resolve T c cfg k) keys)
                       (f :: tl (c_pos c))
               end
           | _, _ => OTypeError
           end
  end.
