(* The jug execution protocol as a guarded transition system at the store / lock / task-function
   interface: any number of workers, one shared result store and lock table.
   [step] is at the same time the transition relation the theorems of Proofs/ExecFacts.v quantify
   over and the acceptor the recorded traces of the real [execution_loop] are run through.
   Executable definitions only. *)
From Coq Require Import List Arith Bool PArith.
Import ListNotations.

Definition tid := positive.
Definition wid := nat.

Inductive lockst := LFree | LHeld (w : wid) | LFailed.

(* outcome of calling a task's function against a store *)
Inductive out (V : Type) := Ret (v : V) | Raise | NoInput.
Arguments Ret {V} v.
Arguments Raise {V}.
Arguments NoInput {V}.

Record cfg (V : Type) := {
  c_tasks : list tid;                                (* the tasks the jugfile defines *)
  c_deps : tid -> list tid;                          (* direct dependencies (Task.dependencies()) *)
  c_sem : tid -> (tid -> option V) -> out V;         (* Task._execute against a store *)
  c_eqb : V -> V -> bool;
  c_keep_going : bool;
  c_keep_failed : bool
}.
Arguments c_tasks {V} c.
Arguments c_deps {V} c.
Arguments c_sem {V} c.
Arguments c_eqb {V} c.
Arguments c_keep_going {V} c.
Arguments c_keep_failed {V} c.

(* where a worker is in  lock / re-check / run / dump / unlock *)
Inductive pc (V : Type) :=
| PIdle                       (* holds no lock: choosing, waiting, between tasks *)
| PLocked (t : tid)           (* lock(t) returned True; result not re-checked yet *)
| PCleared (t : tid)          (* re-check under the lock: still no result *)
| PSkip (t : tid)             (* re-check under the lock: somebody stored it meanwhile *)
| PRunning (t : tid)          (* inside the task function *)
| PRan (t : tid) (v : V)      (* function returned v; not stored yet *)
| PStored (t : tid)           (* result stored; lock still held *)
| PRaised (t : tid)           (* function (or argument resolution) raised; lock still held *)
| PUnwind (t : tid)           (* asked to stop while holding the lock of t: the finally clause is due *)
| PExiting                    (* leaving execution_loop by an exception; holds no lock *)
| PDone (code : nat)
| PDead.                      (* killed: never acts again *)
Arguments PIdle {V}.
Arguments PLocked {V} t.
Arguments PCleared {V} t.
Arguments PSkip {V} t.
Arguments PRunning {V} t.
Arguments PRan {V} t v.
Arguments PStored {V} t.
Arguments PRaised {V} t.
Arguments PUnwind {V} t.
Arguments PExiting {V}.
Arguments PDone {V} code.
Arguments PDead {V}.

Record wst (V : Type) := {
  w_pc : pc V;
  w_handled : list tid;       (* tasks w is done with: seen loadable, stored by w, or lost at lock() *)
  w_scan : list (tid * nat);  (* dependencies w saw NOT loadable since it last stored a result (ghost: when) *)
  w_failed : bool;            (* w saw a task raise *)
  w_intr : bool;              (* w was asked to stop *)
  w_last : nat                (* ghost: when w last stored a result *)
}.
Arguments w_pc {V} w.
Arguments w_handled {V} w.
Arguments w_scan {V} w.
Arguments w_failed {V} w.
Arguments w_intr {V} w.
Arguments w_last {V} w.

Record st (V : Type) := {
  results : tid -> option V;
  locks : tid -> lockst;
  ws : wid -> wst V;
  execs : tid -> nat;         (* ghost: how often the function of t was started *)
  now : nat;                  (* ghost: number of steps so far *)
  stored_at : tid -> nat;     (* ghost: when the result of t was stored (0: present from the start) *)
  dumper : tid -> option wid  (* ghost: who stored it *)
}.
Arguments results {V} s.
Arguments locks {V} s.
Arguments ws {V} s.
Arguments execs {V} s.
Arguments now {V} s.
Arguments stored_at {V} s.
Arguments dumper {V} s.

Inductive ev (V : Type) :=
| ECanLoad (w : wid) (t : tid) (b : bool)     (* store.can_load(t) answered b *)
| ELoad (w : wid) (t : tid) (v : V)           (* store.load(t) returned v *)
| ELock (w : wid) (t : tid) (b : bool)        (* lock(t).get() answered b *)
| EStart (w : wid) (t : tid)                  (* the function of t is called *)
| ERet (w : wid) (t : tid) (v : V)            (* ... and returned v *)
| ERaise (w : wid) (t : tid)                  (* ... or raised (also: resolving its arguments raised) *)
| EDump (w : wid) (t : tid) (v : V)           (* store.dump(v, t) *)
| EUnlock (w : wid) (t : tid)                 (* lock(t).release() *)
| EFailMark (w : wid) (t : tid)               (* lock(t).fail() *)
| EInterrupt (w : wid)                        (* SystemExit / KeyboardInterrupt is raised in w (signal, exit hook) *)
| ECrash (w : wid)                            (* w is killed *)
| EExit (w : wid) (code : nat)                (* execution_loop is left (return or exception); process status *)
| ERemoveLocks                                (* cleanup --locks-only by an operator *)
| EReleaseFailed.                             (* cleanup --failed-only by an operator *)
Arguments ECanLoad {V} w t b.
Arguments ELoad {V} w t v.
Arguments ELock {V} w t b.
Arguments EStart {V} w t.
Arguments ERet {V} w t v.
Arguments ERaise {V} w t.
Arguments EDump {V} w t v.
Arguments EUnlock {V} w t.
Arguments EFailMark {V} w t.
Arguments EInterrupt {V} w.
Arguments ECrash {V} w.
Arguments EExit {V} w code.
Arguments ERemoveLocks {V}.
Arguments EReleaseFailed {V}.

Section Step.
  Context {V : Type}.
  Variable C : cfg V.

  Definition upd {A} (f : positive -> A) (k : positive) (x : A) : positive -> A :=
    fun k' => if Pos.eqb k' k then x else f k'.
  Definition updw {A} (f : nat -> A) (k : nat) (x : A) : nat -> A :=
    fun k' => if Nat.eqb k' k then x else f k'.

  Definition mem (t : tid) (l : list tid) : bool := existsb (Pos.eqb t) l.
  Definition stored (s : st V) (t : tid) : bool := match results s t with Some _ => true | None => false end.

  Definition fresh_w : wst V :=
    {| w_pc := PIdle; w_handled := []; w_scan := []; w_failed := false; w_intr := false; w_last := 0 |}.

  Definition init (res : tid -> option V) : st V :=
    {| results := res; locks := fun _ => LFree; ws := fun _ => fresh_w; execs := fun _ => 0;
       now := 1; stored_at := fun _ => 0; dumper := fun _ => None |}.

  (* every step advances the ghost clock *)
  Definition tick (s : st V) : st V :=
    {| results := results s; locks := locks s; ws := ws s; execs := execs s;
       now := S (now s); stored_at := stored_at s; dumper := dumper s |}.
  Definition set_w (s : st V) (w : wid) (x : wst V) : st V :=
    {| results := results s; locks := locks s; ws := updw (ws s) w x; execs := execs s;
       now := now s; stored_at := stored_at s; dumper := dumper s |}.
  Definition set_lock (s : st V) (t : tid) (l : lockst) : st V :=
    {| results := results s; locks := upd (locks s) t l; ws := ws s; execs := execs s;
       now := now s; stored_at := stored_at s; dumper := dumper s |}.
  Definition set_locks (s : st V) (f : tid -> lockst) : st V :=
    {| results := results s; locks := f; ws := ws s; execs := execs s;
       now := now s; stored_at := stored_at s; dumper := dumper s |}.

  (* w moves on in its protocol (n: ghost time, unused here) *)
  Definition act (n : nat) (x : wst V) (p : pc V) : wst V :=
    {| w_pc := p; w_handled := w_handled x; w_scan := w_scan x; w_failed := w_failed x; w_intr := w_intr x; w_last := w_last x |}.
  (* w stores a result at time n: what it saw missing before is stale - its scan starts afresh *)
  Definition dumped (n : nat) (x : wst V) (p : pc V) : wst V :=
    {| w_pc := p; w_handled := w_handled x; w_scan := []; w_failed := w_failed x; w_intr := w_intr x; w_last := n |}.
  Definition handle (x : wst V) (t : tid) : wst V :=
    {| w_pc := w_pc x; w_handled := t :: w_handled x; w_scan := w_scan x; w_failed := w_failed x;
       w_intr := w_intr x; w_last := w_last x |}.
  Definition saw_missing (n : nat) (x : wst V) (t : tid) : wst V :=
    {| w_pc := w_pc x; w_handled := w_handled x; w_scan := (t, n) :: w_scan x; w_failed := w_failed x;
       w_intr := w_intr x; w_last := w_last x |}.
  Definition set_pc (x : wst V) (p : pc V) : wst V :=
    {| w_pc := p; w_handled := w_handled x; w_scan := w_scan x; w_failed := w_failed x;
       w_intr := w_intr x; w_last := w_last x |}.
  Definition set_failed (x : wst V) : wst V :=
    {| w_pc := w_pc x; w_handled := w_handled x; w_scan := w_scan x; w_failed := true;
       w_intr := w_intr x; w_last := w_last x |}.
  Definition set_intr (x : wst V) : wst V :=
    {| w_pc := w_pc x; w_handled := w_handled x; w_scan := w_scan x; w_failed := w_failed x;
       w_intr := true; w_last := w_last x |}.

  Definition live (p : pc V) : bool := match p with PDone _ | PDead => false | _ => true end.

  (* the task whose lock the worker holds *)
  Definition holding (p : pc V) : option tid :=
    match p with
    | PLocked t | PCleared t | PSkip t | PRunning t | PRan t _ | PStored t | PRaised t | PUnwind t => Some t
    | _ => None
    end.

  Definition scanned (x : wst V) (d : tid) : bool := existsb (fun e => Pos.eqb d (fst e)) (w_scan x).

  (* leaving normally: every task is handled (seen loadable, stored by w, lost at lock(), or failed
     in w), or excused by a dependency - through arguments or through a barrier - that w saw not
     loadable since it last stored a result itself ("No tasks can be run!"; the reload loop of execute
     giving up at a closed barrier) *)
  Definition may_leave (x : wst V) : bool :=
    forallb (fun t => mem t (w_handled x) || existsb (scanned x) (c_deps C t)) (c_tasks C).

  Definition after_failure : pc V := if c_keep_going C then PIdle else PExiting.

  (* the transition proper, at ghost time n = now s *)
  Definition step0 (s : st V) (e : ev V) : option (st V) :=
    let n := now s in
    match e with
    | ECanLoad w t b =>
        let x := ws s w in
        if live (w_pc x) && Bool.eqb b (stored s t) then
          match w_pc x with
          | PLocked t' =>
              if Pos.eqb t t' then                       (* the re-check under the lock *)
                Some (set_w s w (if b then handle (act n x (PSkip t)) t else act n x (PCleared t)))
              else Some (set_w s w (if b then x else saw_missing n x t))
          | PIdle => Some (set_w s w (if b then handle x t else saw_missing n x t))
          | _ => Some s
          end
        else None
    | ELoad w t v =>
        let x := ws s w in
        if live (w_pc x) then
          match results s t with
          | Some v' => if c_eqb C v v' then Some s else None
          | None => None
          end
        else None
    | ELock w t b =>
        let x := ws s w in
        match w_pc x with
        | PIdle =>
            if b then
              match locks s t with
              | LFree => if mem t (c_tasks C)
                         then Some (set_lock (set_w s w (act n x (PLocked t))) t (LHeld w)) else None
              | _ => None
              end
            else
              match locks s t with
              | LFree => None
              | _ => Some (set_w s w (handle (act n x PIdle) t))
              end
        | _ => None
        end
    | EStart w t =>
        let x := ws s w in
        match w_pc x with
        | PCleared t' =>
            if Pos.eqb t t' && forallb (stored s) (c_deps C t) then
              Some {| results := results s; locks := locks s; ws := updw (ws s) w (act n x (PRunning t));
                      execs := upd (execs s) t (S (execs s t));
                      now := now s; stored_at := stored_at s; dumper := dumper s |}
            else None
        | _ => None
        end
    | ERet w t v =>
        let x := ws s w in
        match w_pc x with
        | PRunning t' =>
            if Pos.eqb t t' then
              match c_sem C t (results s) with
              | Ret v' => if c_eqb C v v' then Some (set_w s w (act n x (PRan t v'))) else None
              | _ => None
              end
            else None
        | _ => None
        end
    | ERaise w t =>
        let x := ws s w in
        match w_pc x with
        | PRunning t' | PCleared t' =>                  (* PCleared: resolving the arguments raised
                                                           (run() has asserted can_run() before) *)
            if Pos.eqb t t' && forallb (stored s) (c_deps C t) then
              match c_sem C t (results s) with
              | Raise => Some (set_w s w (set_failed (handle (act n x (PRaised t)) t)))
              | _ => None
              end
            else None
        | _ => None
        end
    | EDump w t v =>
        let x := ws s w in
        match w_pc x with
        | PRan t' v' =>
            if Pos.eqb t t' && c_eqb C v v' then
              Some {| results := upd (results s) t (Some v'); locks := locks s;
                      ws := updw (ws s) w (handle (dumped n x (PStored t)) t); execs := execs s;
                      now := now s; stored_at := upd (stored_at s) t n; dumper := upd (dumper s) t (Some w) |}
            else None
        | _ => None
        end
    | EUnlock w t =>
        let x := ws s w in
        match w_pc x with
        | PStored t' | PSkip t' =>
            if Pos.eqb t t' then Some (set_lock (set_w s w (act n x PIdle)) t LFree) else None
        | PRaised t' =>
            if Pos.eqb t t' && negb (c_keep_failed C)
            then Some (set_lock (set_w s w (act n x after_failure)) t LFree) else None
        | PUnwind t' =>
            if Pos.eqb t t' then Some (set_lock (set_w s w (act n x PExiting)) t LFree) else None
        | _ => None
        end
    | EFailMark w t =>
        let x := ws s w in
        match w_pc x with
        | PRaised t' =>
            if Pos.eqb t t' && c_keep_failed C
            then Some (set_lock (set_w s w (act n x after_failure)) t LFailed) else None
        | _ => None
        end
    | EInterrupt w =>
        let x := ws s w in
        match w_pc x with
        | PIdle => Some (set_w s w (set_intr (act n x PExiting)))
        | PLocked t | PCleared t | PSkip t | PRunning t | PRan t _ | PStored t =>
            Some (set_w s w (set_intr (act n x (PUnwind t))))
        | _ => None
        end
    | ECrash w =>
        let x := ws s w in
        if live (w_pc x) then Some (set_w s w (act n x PDead)) else None
    | EExit w code =>
        let x := ws s w in
        match w_pc x with
        | PIdle =>                                        (* the scan that excuses the exit is kept *)
            if may_leave x && Bool.eqb (Nat.eqb code 0) (negb (w_failed x))
            then Some (set_w s w (set_pc x (PDone code))) else None
        | PExiting =>
            if w_intr x || (negb (Nat.eqb code 0) && w_failed x)
            then Some (set_w s w (set_pc x (PDone code))) else None
        | _ => None
        end
    | ERemoveLocks =>
        (* only when every lock holder is dead: that is what "stale" means *)
        if forallb (fun t => match locks s t with LHeld w => negb (live (w_pc (ws s w))) | _ => true end) (c_tasks C)
        then Some (set_locks s (fun _ => LFree)) else None
    | EReleaseFailed =>
        Some (set_locks s (fun t => match locks s t with LFailed => LFree | l => l end))
    end.

  Definition step (s : st V) (e : ev V) : option (st V) := option_map tick (step0 s e).

  Fixpoint run (s : st V) (tr : list (ev V)) : option (st V) :=
    match tr with
    | [] => Some s
    | e :: r => match step s e with Some s' => run s' r | None => None end
    end.

  (* index of the first event that is not enabled (case files: which step of the real run broke the protocol) *)
  Fixpoint first_reject (s : st V) (tr : list (ev V)) (i : nat) : option nat :=
    match tr with
    | [] => None
    | e :: r => match step s e with Some s' => first_reject s' r (S i) | None => Some i end
    end.

  Definition accepts (s : st V) (tr : list (ev V)) : bool :=
    match run s tr with Some _ => true | None => false end.

  (* sequential evaluation: call the tasks one after the other in the given (definition) order;
     a task whose function raises, or one of whose dependencies has no value, yields nothing *)
  Fixpoint seq_eval (order : list tid) (r : tid -> option V) : tid -> option V :=
    match order with
    | [] => r
    | t :: rest =>
        match r t with
        | Some _ => seq_eval rest r
        | None =>
            if forallb (fun d => match r d with Some _ => true | None => false end) (c_deps C t) then
              match c_sem C t r with
              | Ret v => seq_eval rest (upd r t (Some v))
              | _ => seq_eval rest r
              end
            else seq_eval rest r
        end
    end.
End Step.
