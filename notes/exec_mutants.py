"""Mutation tests of the execution-protocol checks (spec 1.7).  Usage:
     /venv/bin/python /verif/notes/exec_mutants.py [name ...]
Each mutant is applied to a scratch worktree of /repo, the named check is run with VERIF_REPO pointing at it, the
first replay is re-executed (under the mutant: must reproduce, exit 1; on /repo: must not, exit 0), and the
worktree is removed.  Nothing is left under /tmp."""
import glob
import json
import os
import subprocess
import sys

WT = '/tmp/jugv_exec_mut'

MUTANTS = {
    # name: (check, file, old, new)
    'no-recheck': ('C02', 'jug/jug.py',
                   "                if t.can_load(): # This can be true if the task ran between the check above and this one",
                   "                if t.can_load() and False: # MUTANT"),
    'no-recheck-call': ('C02', 'jug/jug.py',
                        "                if t.can_load(): # This can be true if the task ran between the check above and this one",
                        "                if False: # MUTANT"),
    'lock-always-true': ('C02', 'jug/task.py', "        return self._lock.get()\n", "        self._lock.get()\n        return True\n"),
    'can-run-always-true': ('C03', 'jug/task.py',
                            "        for dep in self.dependencies():\n            if not hasattr(dep, '_result') and not dep.can_load():\n                return False\n        return True",
                            "        return True"),
    'kwargs-wrong-key': ('C03', 'jug/task.py',
                         "        kwargs = dict((key,value(dep)) for key,dep in self.kwargs.items())",
                         "        kwargs = dict((key,value(self.kwargs[sorted(self.kwargs)[0]])) for key,dep in self.kwargs.items())"),
    'store-on-exception': ('C11', 'jug/task.py',
                           "        self._result = self._execute()\n",
                           "        try:\n            self._result = self._execute()\n        except Exception as e:\n            self.store.dump(None, self.hash())\n            raise\n"),
    'dump-before-complete': ('C11', 'jug/task.py',
                             "        self._result = self._execute()\n        if save:\n            name = self.hash()\n            self.store.dump(self._result, name)\n",
                             "        if save:\n            self.store.dump(None, self.hash())\n        self._result = self._execute()\n        if save:\n            name = self.hash()\n            self.store.dump(self._result, name)\n"),
    'no-finally-unlock': ('C12', 'jug/jug.py',
                          "            finally:\n                if locked:\n                    # We only keep the lock if task failed and keep_failed is enabled.\n                    if not (task_failed and options.execute_keep_failed):\n                        t.unlock()\n",
                          "            else:\n                if locked:\n                    t.unlock()\n"),
    'ignore-last-task': ('C01', 'jug/jug.py',
                         "    logging.info('Execute start (%s tasks)' % len(tasks))\n",
                         "    logging.info('Execute start (%s tasks)' % len(tasks))\n    del tasks[-1:]\n"),
    # extra mutants (not in the spec list)
    'unlock-before-dump': ('C02', 'jug/task.py',
                           "            self.store.dump(self._result, name)\n",
                           "            self._lock.release()\n            self.store.dump(self._result, name)\n"),
    'keep-failed-ignored': ('C11', 'jug/jug.py', "                if options.execute_keep_failed:\n                    t.fail()\n", "                pass\n"),
    'exit-zero-on-failure': ('C11', 'jug/jug.py', "    return failures\n", "    return False\n"),
    'swallow-systemexit': ('C12', 'jug/jug.py', "            except SystemExit:\n                raise\n", "            except SystemExit:\n                pass\n"),
    'remove-locks-noop': ('C13', 'jug/subcommands/cleanup.py', "            removed = store.remove_locks()\n", "            removed = 0\n"),
    # not a mutant: dropping the pre-lock `if t.can_load(): continue` of the upnext loop changes nothing observable, the re-check
    # under the lock still protects every task (C13 stays green, as it should)
}


def sh(cmd, env=None):
    e = dict(os.environ)
    e.update(env or {})
    p = subprocess.run(cmd, shell=True, stdout=subprocess.PIPE, stderr=subprocess.STDOUT, text=True, env=e)
    return p.returncode, '\n'.join(l for l in p.stdout.splitlines() if 'conda' not in l)


def main(names):
    rows = []
    for name in names:
        check, path, old, new = MUTANTS[name]
        sh('git -C /repo worktree remove --force %s' % WT)
        rc, out = sh('git -C /repo worktree add --detach %s' % WT)
        try:
            p = os.path.join(WT, path)
            s = open(p).read()
            if s.count(old) != 1:
                rows.append((name, check, 'MUTANT DID NOT APPLY (%d matches)' % s.count(old)))
                continue
            open(p, 'w').write(s.replace(old, new))
            # only the property's own tie (the ties of its hypotheses - other properties' checks - are not what these mutants are about)
            rc, out = sh('cd /verif && timeout 1200 bin/check %s --tier quick' % check, {'VERIF_REPO': WT, 'VERIF_NO_HYPOTHESES': '1'})
            viol = [l for l in out.splitlines() if l.startswith('VIOLATION')]
            whats = {}
            first = None
            files = [l.split('replay=')[1].split()[0] for l in viol if 'replay=' in l]
            for f in files:
                d = json.load(open(f))
                whats['%s: %s' % (d.get('kind'), d.get('what'))] = whats.get('%s: %s' % (d.get('kind'), d.get('what')), 0) + 1
                if first is None:
                    first = f
            r1 = r2 = None
            if first:
                keep = '/verif/scratch/_mutant_%s.json' % name
                sh('cp %s %s' % (first, keep))
                r1, o1 = sh('cd /verif && timeout 600 bin/check %s --replay %s' % (check, keep), {'VERIF_REPO': WT})
                r2, o2 = sh('cd /verif && timeout 600 bin/check %s --replay %s' % (check, keep))
                os.unlink(keep)
            rows.append((name, check, 'exit=%d violations=%d replay-under-mutant=%s replay-on-repo=%s' % (rc, len(viol), r1, r2), whats,
                         out.splitlines()[-1] if out else ''))
        finally:
            sh('git -C /repo worktree remove --force %s' % WT)
            sh('git -C /repo worktree prune')
    for r in rows:
        print('== %s -> %s: %s' % (r[0], r[1], r[2]))
        if len(r) > 3:
            for k, v in r[3].items():
                print('     %dx %s' % (v, k))
            print('     ' + r[4])
    # the checks must be clean again on /repo afterwards (replays/ of the mutant runs are overwritten by the next run)


if __name__ == '__main__':
    main(sys.argv[1:] or list(MUTANTS))
