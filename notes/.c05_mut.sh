#!/bin/bash
# usage: .c05_mut.sh <mutation-name>   (python snippet on stdin edits /tmp/c05mut/jug/backends/file_store.py text in variable s)
set -e
M=/tmp/c05mut
git -C /repo worktree remove --force $M 2>/dev/null || true
git -C /repo worktree add -q --detach $M
/venv/bin/python - "$M/jug/backends/file_store.py" <<PYEOF
import sys
p=sys.argv[1]
s=open(p).read()
s0=s
$(cat)
assert s!=s0, 'mutation did not apply'
open(p,'w').write(s)
PYEOF
git -C $M diff | grep '^[+-]' | grep -v '^+++\|^---'
cd /verif
VERIF_REPO=$M bin/check C05 --tier quick 2>&1 | grep -v -i conda | tail -8
/venv/bin/python - <<'PYEOF'
import json,glob
for f in sorted(glob.glob('/verif/replays/C05-*.json')):
    o=json.load(open(f))
    print('  ', f.split('/')[-1], '|', o['kind'], '|', o['what'], '| op', o.get('operation',{}).get('op') if o.get('operation') else o.get('op_index'), '|', (o.get('crash') or {}).get('mode'), (o.get('crash') or {}).get('rel'), (o.get('crash') or {}).get('lost'), (o.get('crash') or {}).get('garbage'), '|', (o.get('problems') or [[None,None]])[0][1] if o.get('problems') else o.get('reason (harness mirror of Fs.guard)') or o.get('reader',{}).get('detail'))
PYEOF
git -C /repo worktree remove --force $M
