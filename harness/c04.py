"""C04 - locks are mutually exclusive on every backend; failed locks stay failed.

Proof: Props/C04.v (Model/LockPrims.v, Proofs/LockFacts.v): the lock classes as programs over atomic
store primitives, any number of clients, all interleavings at primitive granularity; instantiated on
the lock markers that harness/translate_c04.py / translate_c19.py regenerate from /repo.
Tie (trace validation): the REAL lock objects of /repo (file_based_lock, file_keepalive_based_lock,
redis_lock on harness/fakeredis, dict_lock) are driven by client threads in lock-step: every store
primitive they issue (os.path.exists / os.open / os.unlink / os.utime / os.stat on the lock file,
every fake-redis command, every dict_lock method) parks the calling client until the scheduler grants
it one step.  The recorded primitive sequence, every response and every returned value must be exactly
what the model produces on the same operation histories and schedule (evaluated inside coqc).
Search: the same recorded histories are judged by the abstract lock specification in Python
(linearizability search per lock name + the property's clauses), independent of Coq.
Time: a clock client lets time pass (1 s ... 10 years) between any two primitives of the others on the file, redis and
dict backends: the fake redis server's clock is advanced (keys with a time to live expire as in redis), time() as seen
by file_store and by the client threads moves on; the model's PTick is the identity (C04_time_does_not_unlock), the tie
compares, the direct oracle reports e.g. "two holders after time passed".  (Keep-alive locks: frozen clock here; C19.)
Persistence: the environment client can also close and reopen the store between any two primitives (dict_store with a
backing file: close() + a new dict_store(FILE); file stores: a new store object; redis: new connections) - in the model
PReopen is the identity on the lock state (C04_reopen_keeps_lock_state); plus sequential scenarios through the store
objects: is_locked / is_failed / listlocks before = after every reopen, get() refused on held / failed names,
remove_locks() frees them.
Keep-alive backend with its helper process (Props/C04.v: C04_keepalive_failed_is_sticky_against_the_helper, over
Model/Keepalive.v): in the lock-step runs above the helper is not started; the one operation it can interfere with,
the holder's fail() = stop the helper ; write the failed stamp, is driven by harness/c19.py's simulation (REAL lock
class, REAL monitor main() on a simulated clock, started as the recorded Popen call says) with a wake-up of the
helper scheduled before, after and BETWEEN the two primitives; the recorded order of the primitives, the helper's
refreshes and what other clients see are compared with the model in coqc and judged directly (after fail()
returned True, is_locked()/is_failed() stay True and get() stays False until the lock file is removed)."""
import os
import stat as stat_mod
import threading
import time as _time
import _thread


class Signal:
    """binary semaphore on a raw lock (much cheaper than threading.Semaphore)"""

    def __init__(self):
        self.l = _thread.allocate_lock()
        self.l.acquire()

    def release(self):
        self.l.release()

    def acquire(self, timeout=-1):
        return self.l.acquire(True, timeout)

from . import core
from .core import zlit, listlit, boollit, optlit
from . import jugrun
from . import fakeredis
from . import c19
from jug.backends import file_store as fs
from jug.backends import dict_store as ds
from jug.backends import redis_store as rs

EVIDENCE = dict(
    level='proof',
    rule='one case = (backend, operation plans of 2-4 clients over 1-2 lock names, schedule at primitive granularity) -> the real '
         'lock objects run in lock-step; recorded: every primitive with its response, every returned value, the final store; '
         'a clock client lets 1 s ... 10 years pass between any two primitives (file, redis, dict); '
         'non-trivial = at least two clients touched the same name; distinct = distinct (backend, executed histories, schedule); '
         'plus, for the keep-alive lock with its helper process running: one case = one simulated-clock scenario of harness/c19.py in '
         'which the holder calls fail() (a wake-up of the real monitor loop before / between / after its two primitives), recorded: order '
         'of the primitives, refreshes, end of the helper, what other clients see',
    explanation='Coq theorems over the primitive-level lock programs for all clients / histories / interleavings + trace validation '
                'of the model against the real lock classes under a lock-step scheduler + linearizability search on the observed histories',
)

NOW = 1000000                 # simulated time(): mtime of a fresh lock file
BACKENDS = ('file', 'keep', 'redis', 'dict')
B_COQ = {'file': 'BFile', 'keep': 'BKeep', 'redis': 'BRedis', 'dict': 'BDict'}
OPS = ('get', 'release', 'fail', 'is_locked', 'is_failed')
OP_COQ = {'get': 'OGet', 'release': 'ORelease', 'fail': 'OFail', 'is_locked': 'OIsLocked', 'is_failed': 'OIsFailed'}
# "time passes": operation 'tick:<seconds>' of the clock client (filed under name 0)
TICKS = (1, 3600, 86400, 2 * 86400, 8 * 86400, 10 * 365 * 86400)


def is_tick(op):
    return op.startswith('tick:')


def is_env(op):
    """a step of the environment client: time passes / the store is closed and opened again"""
    return op == 'reopen' or is_tick(op)


def tick_secs(op):
    return int(op[5:])


def op_coq(op):
    return '(OTick %s)' % zlit(tick_secs(op)) if is_tick(op) else 'OReopen' if op == 'reopen' else OP_COQ[op]
STEP_TIMEOUT = 20.0

IMPORTS = 'From JugV Require Import Model.LockPrims.\nFrom JugV Require Gen.LockConsts.'
PREAMBLE = 'Definition P := LockConsts.lock_params %s.' % zlit(NOW)
CASE_TYPE = 'backend * list (list (lockop * name)) * list cid * list obs * list (name * option Z) * bool * list nat'
CHK = ('fun c => match c with (b, hists, s, tr, fin, wf, lost) => '
       'tie_check_lost P b hists s tr fin lost && Bool.eqb (wf_run P b (init hists) s) wf end')
# redis commands that change the store (a lost reply after one of these: the operation happened, its answer is unknown)
WRITE_CMDS = ('SET', 'SETNX', 'GETSET', 'DEL', 'APPEND', 'SETRANGE', 'SETEX', 'PSETEX', 'EXPIRE', 'PEXPIRE', 'PERSIST')
FAULT_MODES = ('before', 'after')


class HarnessError(Exception):
    pass


def lock_name(i):
    return 'n%d' % i


# ------------------------------------------------------------------------------------------------
# interposition on the os level (installed once per check run; transparent for every thread that is
# not a client thread of the active world and for every path that is not a lock file of it)
class Interposer:
    def __init__(self):
        self.tls = threading.local()
        self.world = None
        self.saved = []
        self.orig = {}

    def client(self):
        w = self.world
        if w is None or getattr(self.tls, 'busy', False):
            return None, None
        cid = getattr(self.tls, 'cid', None)
        if cid is None:
            return None, None
        return w, cid

    def elapsed(self):
        """seconds the clock client let pass in the active world (the keep-alive backend runs on a frozen clock)"""
        w = self.world
        return w.elapsed if w is not None and w.backend != 'keep' else 0

    def client_time(self):
        """time.time(): the simulated clock for the client threads of the active world, the real one for everybody else"""
        if getattr(self.tls, 'cid', None) is not None and not getattr(self.tls, 'busy', False):
            return float(NOW + self.elapsed())      # the same clock as file_store.time()
        return self.real_time()

    def lock_of(self, w, p):
        if w.lockdir is None or not isinstance(p, str):
            return None
        d, base = os.path.split(p)
        if d != w.lockdir or not base.endswith('.lock'):
            return None
        return w.name_ids.get(base[:-5])

    def wrap(self, kind, orig, classify):
        """classify(w, args, kwargs) -> primitive description or None (pass through)"""
        ip = self

        def f(*args, **kwargs):
            w, cid = ip.client()
            desc = classify(w, args, kwargs) if w is not None else None
            if desc is None:
                return orig(*args, **kwargs)
            w.park(cid, desc)
            ip.tls.busy = True
            try:
                try:
                    r = orig(*args, **kwargs)
                except BaseException as e:
                    w.respond(cid, ('exc', type(e).__name__, isinstance(e, OSError), isinstance(e, FileExistsError)))
                    raise
                w.respond(cid, ('ok', r))
                return r
            finally:
                ip.tls.busy = False
        f.__name__ = 'c04_' + kind
        return f

    def install(self):
        ip = self

        def path_arg(args, kwargs, key='path'):
            return args[0] if args else kwargs.get(key)

        def c_exists(w, args, kwargs):
            n = ip.lock_of(w, path_arg(args, kwargs))
            return None if n is None else ('exists', n)

        def c_open(w, args, kwargs):
            n = ip.lock_of(w, path_arg(args, kwargs))
            if n is None:
                return None
            flags = args[1] if len(args) > 1 else kwargs.get('flags', 0)
            excl = (flags & os.O_CREAT) and (flags & os.O_EXCL)
            return ('open', n, bool(excl), int(flags))

        def c_unlink(w, args, kwargs):
            n = ip.lock_of(w, path_arg(args, kwargs))
            return None if n is None else ('unlink', n)

        def c_utime(w, args, kwargs):
            n = ip.lock_of(w, path_arg(args, kwargs))
            if n is None:
                return None
            times = args[1] if len(args) > 1 else kwargs.get('times')
            if isinstance(times, tuple) and len(times) == 2 and all(type(x) is int for x in times):
                return ('utime', n, times[1])
            return ('utime?', n, repr(times))

        def c_stat(w, args, kwargs):
            n = ip.lock_of(w, path_arg(args, kwargs))
            return None if n is None else ('stat', n)

        def c_bopen(w, args, kwargs):
            n = ip.lock_of(w, path_arg(args, kwargs, 'file'))
            if n is None:
                return None
            mode = args[1] if len(args) > 1 else kwargs.get('mode', 'r')
            return ('builtin-open', n, str(mode))

        def c_other(kind):
            def c(w, args, kwargs):
                n = ip.lock_of(w, path_arg(args, kwargs))
                return None if n is None else (kind, n)
            return c

        import builtins
        patches = [
            (os, 'open', self.wrap('open', os.open, c_open)),
            (os, 'unlink', self.wrap('unlink', os.unlink, c_unlink)),
            (os, 'remove', self.wrap('remove', os.remove, c_unlink)),
            (os, 'utime', self.wrap('utime', os.utime, c_utime)),
            (os, 'stat', self.wrap('stat', os.stat, c_stat)),
            (os, 'lstat', self.wrap('lstat', os.lstat, c_other('lstat'))),
            (os, 'access', self.wrap('access', os.access, c_other('access'))),
            (os, 'rename', self.wrap('rename', os.rename, c_other('rename'))),
            (os, 'link', self.wrap('link', os.link, c_other('link'))),
            (os.path, 'exists', self.wrap('exists', os.path.exists, c_exists)),
            (os.path, 'isfile', self.wrap('isfile', os.path.isfile, c_other('isfile'))),
            (os.path, 'lexists', self.wrap('lexists', os.path.lexists, c_other('lexists'))),
            (os.path, 'getmtime', self.wrap('getmtime', os.path.getmtime, c_other('getmtime'))),
            (fs, 'open', self.wrap('builtin_open', builtins.open, c_bopen)),     # shadows the builtin inside file_store only
            (_time, 'time', ip.client_time),
        ]
        import subprocess
        import types
        # the helper process is never started here, however file_store spells Popen / time()
        patches.append((fs, 'Popen', FakePopen) if hasattr(fs, 'Popen') else (subprocess, 'Popen', FakePopen))
        if not isinstance(getattr(fs, 'time', None), types.ModuleType):
            patches.append((fs, 'time', lambda: float(NOW + ip.elapsed())))
        self.real_time = _time.time
        self.orig = {'utime': os.utime, 'stat': os.stat}
        # code that bound a primitive by name (`from os import unlink`, `from os.path import exists`, `from time import time`)
        # calls the original object, not the attribute patched above: every global of a loaded jug module that IS one of
        # the original primitives gets the same wrapper
        import sys as _sys
        by_orig = {}
        for m, n, v in patches:
            o = getattr(m, n, _MISSING)
            if o is not _MISSING and m in (os, os.path, _time) and callable(o):
                by_orig[id(o)] = (o, v)
        seen = set((id(m), n) for m, n, v in patches)
        for modname, mod in sorted(_sys.modules.items()):
            if mod is None or not (modname == 'jug' or modname.startswith('jug.')):
                continue
            for n, val in list(vars(mod).items()):
                hit = by_orig.get(id(val))
                if hit is not None and hit[0] is val and (id(mod), n) not in seen:
                    patches.append((mod, n, hit[1]))
                    seen.add((id(mod), n))
        for m, n, v in patches:
            self.saved.append((m, n, getattr(m, n, _MISSING)))
        for m, n, v in patches:
            setattr(m, n, v)

    def uninstall(self):
        for m, n, v in reversed(self.saved):
            if v is _MISSING:
                try:
                    delattr(m, n)
                except AttributeError:
                    pass
            else:
                setattr(m, n, v)
        self.saved = []
        self.world = None


_MISSING = object()


class FakePopen:
    """stands for the keep-alive helper process (C19 covers it): nothing is started"""
    started = 0

    def __init__(self, args, *a, **kw):
        self.args = args
        FakePopen.started += 1

    def kill(self):
        pass

    def poll(self):
        return None

    def wait(self, timeout=None):
        return 0


IP = Interposer()


# ------------------------------------------------------------------------------------------------
class Client:
    def __init__(self, cid, plan):
        self.cid = cid
        self.plan = list(plan)          # [(op, name_id)]
        self.executed = []              # operations actually started
        self.go = Signal()
        self.cmd = None
        self.inflight = None            # (op, name_id) while an operation runs
        self.pending = None             # primitive the thread is parked at
        self.resp = None
        self.result = None              # ('ret', value) / ('exc', name) when the operation finished
        self.locks = {}
        self.thread = None
        self.cur_lock = None            # the handle the running operation uses
        self.ncmds = 0                  # redis commands issued so far (connection faults are placed by this index)
        self.ghost_before = None


class World:
    """One run: a backend, the shared store, the clients with their plans."""

    def __init__(self, backend, plans, nnames, root, wild=False, ticks=None, faults=None):
        self.backend = backend
        self.wild = wild
        self.nnames = nnames
        self.name_ids = {lock_name(i): i for i in range(nnames)}
        self.to_sched = Signal()
        self.clients = [Client(i, p) for i, p in enumerate(plans)]
        self.elapsed = 0
        # steps of the environment: seconds that pass (not on the keep-alive backend: frozen clock) / 'reopen'
        self.ticks = [d for d in (ticks or []) if d == 'reopen' or backend != 'keep']
        self.clock = None
        self.root = root
        # connection faults (redis): the j-th command of client c is lost 'before' it reaches the server / 'after' it was applied
        self.faults = {(int(c), int(j)): m for c, j, m in (faults or [])} if backend == 'redis' else {}
        self.lost = {}          # index into events -> mode
        self.disposition = {}   # index of the last event of a faulted operation that raised -> 'kept' (applied write) | 'deleted'
        self.op_wf = []         # (index of the first event of the operation is not known yet: filled as (cid, k) -> wf)
        self.op_wf = {}
        if self.ticks:      # the environment client: its steps are taken by the scheduler itself (no thread)
            self.clock = Client(len(self.clients), [('reopen' if d == 'reopen' else 'tick:%d' % d, 0) for d in self.ticks])
            self.clients.append(self.clock)
        self.ghost = {i: ('free',) for i in range(nnames)}
        self.events = []        # (cid, op, name, primdesc, resp, ret-or-None)
        self.sched = []         # cid of every step
        self.choices = []       # (chosen, enabled) of every step
        self.anomalies = []
        self.lockdir = None
        self.server = None
        self.dstore = None
        if backend in ('file', 'keep'):
            self.jugdir = os.path.join(root, 'jd')
            self.lockdir = os.path.join(self.jugdir, 'locks')
            if not os.path.isdir(self.lockdir):
                os.makedirs(self.lockdir)
            elif os.listdir(self.lockdir):
                raise HarnessError('lock directory is not empty at the start of a run')
        elif backend == 'redis':
            self.server = fakeredis.FakeServer()
            self.server.hook = self.redis_hook
        elif backend == 'dict':
            self.dfile = os.path.join(root, 'dict_store.pickle')      # dict_store with a backing file
            if os.path.exists(self.dfile):
                raise HarnessError('backing file of the dict store exists at the start of a run')
        else:
            raise ValueError(backend)
        self.store_obj = None
        self.open_store()

    def open_store(self):
        """(re)open the store: a new store object on the same directory / backing file / server, and fresh lock
        handles for every client.  Operations already under way keep the handle they started with (file, redis)."""
        nn = range(self.nnames)
        workers = [cl for cl in self.clients if cl is not self.clock]
        if self.backend in ('file', 'keep'):
            self.store_obj = fs.file_store(self.jugdir) if self.backend == 'file' else fs.file_keepalive_store(self.jugdir)
            for cl in workers:
                cl.locks = {i: self.store_obj.getlock(lock_name(i)) for i in nn}
        elif self.backend == 'redis':
            for cl in workers:
                conn = self.server.client(cl.cid)           # a new connection
                cl.locks = {i: rs.redis_lock(conn, lock_name(i)) for i in nn}
        else:
            if self.store_obj is not None:
                self.store_obj.close()                      # writes the backing file
            self.store_obj = ds.dict_store(self.dfile)      # loads it (a missing file: empty store)
            self.dstore = self.store_obj.store
            for cl in workers:
                cl.locks = {i: self.store_obj.getlock(lock_name(i)) for i in nn}

    # ---- client side ---------------------------------------------------------------------------
    def park(self, cid, desc):
        cl = self.clients[cid]
        cl.pending = desc
        self.to_sched.release()
        if not cl.go.acquire(timeout=STEP_TIMEOUT * 4):
            raise HarnessError('client %d was never resumed' % cid)

    def respond(self, cid, resp):
        self.clients[cid].resp = resp

    def redis_hook(self, cid, cmd, args):
        if getattr(IP.tls, 'cid', None) != cid:
            return
        self.park(cid, ('redis', cmd, tuple(args)))

    def client_main(self, cl):
        IP.tls.cid = cl.cid
        while True:
            if not cl.go.acquire(timeout=STEP_TIMEOUT * 4):
                return
            cmd = cl.cmd
            if cmd is None:
                return
            op, n = cmd
            lock = cl.locks[n]
            cl.cur_lock = lock
            try:
                if self.backend == 'dict':
                    self.park(cl.cid, ('dict', op, n))
                    lock = cl.locks[n]          # (the store may have been reopened meanwhile: dict_lock methods are atomic)
                    cl.cur_lock = lock
                r = getattr(lock, op)()
                if op == 'get' and r is True and self.backend in ('file', 'keep'):
                    # creation time on the simulated clock (the write of the PID line set the real one)
                    try:
                        IP.orig['utime'](lock.fullname, (NOW, NOW))
                    except OSError:
                        pass
                cl.result = ('ret', r)
            except HarnessError as e:
                cl.result = ('exc', 'HarnessError')
                self.anomalies.append(str(e))
            except Exception as e:
                cl.result = ('exc', type(e).__name__)
            if self.backend == 'dict':
                cl.resp = cl.result
            self.to_sched.release()

    # ---- scheduler side ------------------------------------------------------------------------
    def start(self):
        for cl in self.clients:
            if cl is self.clock:
                continue
            cl.thread = threading.Thread(target=self.client_main, args=(cl,), daemon=True)
            cl.thread.start()

    def stop(self):
        for cl in self.clients:
            cl.cmd = None
            try:
                cl.go.release()
            except RuntimeError:
                pass
        for cl in self.clients:
            if cl.thread is not None:
                cl.thread.join(timeout=STEP_TIMEOUT)
        if self.server is not None:
            self.server.hook = None

    def wf_now(self, cid, op, n):
        if op not in ('release', 'fail'):
            return True
        g = self.ghost[n]
        return g == ('held', cid) or g == ('failed',)

    def enabled(self):
        """clients that can take a step; consumes plan items that are skipped (not well-formed now)"""
        out = []
        for cl in self.clients:
            if cl.inflight is not None:
                out.append(cl.cid)
                continue
            while cl.plan and not self.wild and not self.wf_now(cl.cid, *cl.plan[0]):
                cl.plan.pop(0)
            if cl.plan:
                out.append(cl.cid)
        return out

    def wait_client(self, cl):
        if not self.to_sched.acquire(timeout=STEP_TIMEOUT):
            raise HarnessError('client %d did not reach a primitive or return within %ds' % (cl.cid, STEP_TIMEOUT))

    def tick(self, cid):
        """time passes: the server clock of the fake redis moves on, so does time() for file_store / the clients"""
        cl = self.clients[cid]
        op, n = cl.plan.pop(0)
        cl.executed.append((op, n))
        if op == 'reopen':
            try:
                self.open_store()
                self.events.append((cid, op, n, ('reopen',), ('ok', None), ('ret', None)))
            except Exception as e:
                self.events.append((cid, op, n, ('reopen',), ('exc', type(e).__name__, isinstance(e, OSError), False), ('exc', type(e).__name__)))
            self.sched.append(cid)
            return True
        d = tick_secs(op)
        self.elapsed += d
        if self.server is not None:
            self.server.advance(d)
        self.events.append((cid, op, n, ('tick', d), ('ok', None), ('ret', None)))
        self.sched.append(cid)
        return True

    def step(self, cid):
        cl = self.clients[cid]
        if cl is self.clock:
            return self.tick(cid)
        wf = True
        if cl.inflight is None:
            op, n = cl.plan.pop(0)
            wf = self.wf_now(cid, op, n)
            self.op_wf[(cid, len(cl.executed))] = wf
            cl.ghost_before = self.ghost[n]
            cl.inflight = (op, n)
            cl.executed.append((op, n))
            cl.pending = None
            cl.result = None
            cl.resp = None
            cl.cmd = (op, n)
            if op == 'release':
                self.ghost[n] = ('free',)      # a release begins
            cl.go.release()
            self.wait_client(cl)
        op, n = cl.inflight
        if cl.result is not None and cl.pending is None:
            # the operation returned without issuing any primitive
            desc, resp = ('none',), ('ok', None)
        else:
            desc = cl.pending
            cl.pending = None
            cl.resp = None
            ntrace = len(self.server.trace) if self.server is not None else 0
            mode = None
            if self.server is not None and desc is not None and desc[0] == 'redis':
                mode = self.faults.get((cid, cl.ncmds))
                cl.ncmds += 1
                if mode is not None:
                    cl.cur_lock.redis.drop_next_command(mode)
            cl.go.release()
            self.wait_client(cl)
            if self.server is not None:
                new = self.server.trace[ntrace:]
                if len(new) != 1:
                    raise HarnessError('expected one redis command per step, saw %r' % (new,))
                resp = ('ok', new[0][3]) if mode is None else ('lost', mode, new[0][3])
                if mode is not None:
                    self.lost[len(self.events)] = mode
            else:
                resp = cl.resp
        ret = None
        if cl.result is not None:
            ret = cl.result
            cl.inflight = None
            if op == 'get' and canon_ret(ret) == 'T':
                self.ghost[n] = ('held', cid)
            elif op == 'fail' and canon_ret(ret) == 'T':
                self.ghost[n] = ('failed',)
            elif resp is not None and resp[0] == 'lost' and ret == ('exc', 'ConnectionError'):
                # the operation raised because its command was lost: it gave no answer.  A write that the server applied has
                # happened all the same (a get() leaks a lock its caller does not know about); anything else has not happened
                if resp[1] == 'after' and desc[1] in WRITE_CMDS:
                    self.disposition[len(self.events)] = 'kept'
                    if op == 'get' and resp[2]:
                        self.ghost[n] = ('held', cid)
                    elif op == 'fail':
                        self.ghost[n] = ('failed',)
                else:
                    self.disposition[len(self.events)] = 'deleted'
                    if op == 'release':
                        self.ghost[n] = cl.ghost_before
        self.events.append((cid, op, n, desc, resp, ret))
        self.sched.append(cid)
        return wf

    def final_store(self):
        out = []
        for i in range(self.nnames):
            if self.lockdir is not None:
                try:
                    st = IP.orig['stat'](os.path.join(self.lockdir, lock_name(i) + '.lock'))
                    v = int(st.st_mtime)
                except OSError:
                    v = None
            elif self.server is not None:
                v = self.server.data.get(b'lock:' + lock_name(i).encode())
                v = None if v is None else enc_value(v)
            else:
                v = self.dstore.get(ds._lockname(lock_name(i)))
                v = None if v is None else enc_value(v)
            out.append((i, v))
        return out


def enc_value(v):
    from .translate_c04 import enc_bytes
    if isinstance(v, bytes):
        return enc_bytes(v)
    if type(v) is int:
        return v
    if type(v) is bool:
        return int(v)
    return -1


def run_world(backend, plans, nnames, root, k, chooser, wild=False, max_steps=400, ticks=None, faults=None):
    """chooser(step_index, enabled) -> cid.  Returns the finished World."""
    w = World(backend, plans, nnames, root, wild=wild, ticks=ticks, faults=faults)
    w.all_wf = True
    IP.world = w
    try:
        w.start()
        i = 0
        while True:
            en = w.enabled()
            if not en:
                break
            if i >= max_steps:
                raise HarnessError('run does not end')
            c = chooser(i, en)
            if c not in en:
                c = en[0]
            w.choices.append((c, list(en)))
            if not w.step(c):
                w.all_wf = False
            i += 1
        w.final = w.final_store()
    finally:
        try:
            w.stop()
        finally:
            IP.world = None
            if w.lockdir is not None:
                for f in os.listdir(w.lockdir):
                    os.unlink(os.path.join(w.lockdir, f))
            if getattr(w, 'dfile', None) is not None:
                if getattr(w, 'store_obj', None) is not None:
                    w.store_obj.backend = None          # nothing is written when the object is collected
                if os.path.exists(w.dfile):
                    os.unlink(w.dfile)
    return w


# ------------------------------------------------------------------------------------------------
# rendering for Coq
def key_name(w, k):
    if isinstance(k, bytes) and k.startswith(b'lock:'):
        return w.name_ids.get(k[5:].decode('utf-8', 'replace'))
    return None


def canon_ret(r):
    """operation result -> 'T' / 'F' / 'U' (None) / 'E' (exception or anything else)"""
    if r is None:
        return None
    kind, v = r
    if kind == 'exc':
        return 'E'
    if v is None:
        return 'U'
    if type(v) is bool or (type(v) is int and v in (0, 1)):
        return 'T' if v else 'F'
    return 'E'


def render_prim(w, desc, resp):
    """-> (prim, resp) Gallina"""
    kind = desc[0]

    def rb(b):
        return 'RB %s' % boollit(b)
    if kind == 'tick':
        return 'PTick %s' % zlit(desc[1]), 'RU'
    if kind == 'reopen':
        return 'PReopen', ('RU' if resp is not None and resp[0] == 'ok' else 'RE')
    if kind == 'dict':
        r = canon_ret(resp)
        return 'DOp %s %d' % (OP_COQ[desc[1]], desc[2]), {'T': rb(True), 'F': rb(False), 'U': 'RU', 'E': 'RE', None: 'RE'}[r]
    ok = resp is not None and resp[0] == 'ok'
    val = resp[1] if ok else None
    oserr = (not ok) and resp is not None and resp[2]
    if kind == 'exists':
        return 'PExists %d' % desc[1], (rb(bool(val)) if ok else 'RE')
    if kind == 'open':
        if not desc[2]:
            return 'PUnknown 1', 'RE'
        if ok:
            return 'POpenExcl %d' % desc[1], rb(True)
        return 'POpenExcl %d' % desc[1], (rb(False) if resp is not None and resp[3] else 'RE')
    if kind == 'unlink':
        return 'PUnlink %d' % desc[1], (rb(True) if ok else (rb(False) if oserr else 'RE'))
    if kind == 'utime':
        return 'PUtime %d %s' % (desc[1], zlit(desc[2])), (rb(True) if ok else (rb(False) if oserr else 'RE'))
    if kind == 'stat':
        if ok:
            return 'PStat %d' % desc[1], 'RV (Some %s)' % zlit(int(val.st_mtime))
        return 'PStat %d' % desc[1], ('RV None' if oserr else 'RE')
    if kind == 'redis':
        cmd, args = desc[1], desc[2]
        n = key_name(w, args[0]) if args else None
        if n is None:
            return 'PUnknown 5', 'RE'
        if cmd == 'GET' and len(args) == 1:
            return 'RGet %d' % n, ('RV %s' % optlit(None if val is None else zlit(enc_value(val))) if ok else 'RE')
        if cmd == 'SET' and len(args) == 2:
            return 'RSet %d %s' % (n, zlit(enc_value(args[1]))), (rb(bool(val)) if ok else 'RE')
        if cmd == 'GETSET' and len(args) == 2:
            return 'RGetSet %d %s' % (n, zlit(enc_value(args[1]))), ('RV %s' % optlit(None if val is None else zlit(enc_value(val))) if ok else 'RE')
        if cmd == 'SETNX' and len(args) == 2:
            return 'RSetNx %d %s' % (n, zlit(enc_value(args[1]))), (rb(bool(val)) if ok else 'RE')
        if cmd == 'DEL' and len(args) == 1:
            return 'RDel %d' % n, (rb(bool(val)) if ok else 'RE')
        return 'PUnknown 4', 'RE'
    return 'PUnknown 9', 'RE'       # any other access to the lock file / no primitive at all


RET_COQ = {'T': 'Some (OB true)', 'F': 'Some (OB false)', 'U': 'Some OU', 'E': 'Some OE', None: 'None'}


def op_spans(w):
    """the operations as runs of events: [(cid, k = index into the client's executed list, [event indices])]"""
    spans, cur, count = [], {}, {}
    for i, (cid, op, n, desc, resp, ret) in enumerate(w.events):
        cur.setdefault(cid, []).append(i)
        if ret is not None:
            spans.append((cid, count.get(cid, 0), cur.pop(cid)))
            count[cid] = count.get(cid, 0) + 1
    for cid, idx in cur.items():            # (an operation still under way at the end of a run)
        spans.append((cid, count.get(cid, 0), idx))
    return spans


def faulted_events(w):
    """indices of all events of operations that had a command lost with its connection"""
    out = set()
    for cid, k, idx in op_spans(w):
        if any(i in w.lost for i in idx):
            out.update(idx)
    return out


def render_case(w):
    """The run as a fault-free run of the model: an operation that raised because its command was lost gave no answer; if
    the server had applied a write it stays in the history and the position of that primitive goes into `lost` (response
    and result not compared); otherwise the operation is left out with all its primitives, as if never called."""
    drop_ev, drop_op, lost_ev = set(), set(), set()
    for cid, k, idx in op_spans(w):
        d = w.disposition.get(idx[-1])
        if d == 'deleted':
            drop_ev.update(idx)
            drop_op.add((cid, k))
        elif d == 'kept':
            lost_ev.add(idx[-1])
    hists = listlit([listlit(['(%s, %d)' % (op_coq(o), n) for k, (o, n) in enumerate(cl.executed) if (cl.cid, k) not in drop_op])
                     for cl in w.clients])
    tr, sched, lost = [], [], []
    for i, (cid, op, n, desc, resp, ret) in enumerate(w.events):
        if i in drop_ev:
            continue
        if i in lost_ev:
            lost.append(str(len(tr)))
        p, r = render_prim(w, desc, resp)
        tr.append('(%d, %s, %s, %s)' % (cid, p, r, RET_COQ[canon_ret(ret)]))
        sched.append(str(w.sched[i]))
    fin = listlit(['(%d, %s)' % (n, optlit(None if v is None else zlit(v))) for n, v in w.final])
    wf = all(v for key, v in w.op_wf.items() if key not in drop_op)
    return '(%s, %s, %s, %s, %s, %s, %s)' % (B_COQ[w.backend], hists, listlit(sched), listlit(tr), fin, boollit(wf), listlit(lost))


# ------------------------------------------------------------------------------------------------
# the property's own oracle (no model, no Coq): the abstract lock
def spec_apply(state, op, c):
    """state: ('free',) | ('held', c) | ('failed',)  ->  (state', result in 'T','F','U')"""
    if op == 'get':
        return (('held', c), 'T') if state == ('free',) else (state, 'F')
    if op == 'release':
        return ('free',), 'U'
    if op == 'fail':
        return (state, 'F') if state == ('free',) else (('failed',), 'T')
    if op == 'is_locked':
        return state, ('F' if state == ('free',) else 'T')
    if op == 'is_failed':
        return state, ('T' if state == ('failed',) else 'F')
    if is_env(op):
        return state, 'U'          # time passes / the store is reopened: nothing changes
    raise ValueError(op)


def operations(w):
    """completed operations: dict(c, op, n, inv, ret, res)"""
    ops = []
    open_ = {}
    fe = faulted_events(w)
    for i, (cid, op, n, desc, resp, ret) in enumerate(w.events):
        if cid not in open_:
            open_[cid] = i
        if ret is not None:
            ops.append({'c': cid, 'op': op, 'n': n, 'inv': open_.pop(cid), 'ret': i, 'res': canon_ret(ret),
                        'lost': i in fe and ret == ('exc', 'ConnectionError')})
    return ops


def linearizable(ops):
    """Wing-Gong search for one lock name: is there a total order extending real-time order that the
    abstract lock explains?"""
    ops = sorted(ops, key=lambda o: o['inv'])
    n = len(ops)
    seen = set()

    def go(remaining, state):
        if not remaining:
            return True
        key = (remaining, state)
        if key in seen:
            return False
        seen.add(key)
        first_ret = min(ops[i]['ret'] for i in remaining)
        for i in remaining:
            o = ops[i]
            if o['inv'] > first_ret:
                continue        # some other pending operation returned before this one was invoked
            st2, res = spec_apply(state, o['op'], o['c'])
            if o.get('lost'):
                # the operation raised because a command was lost: no answer; its effect may or may not have happened
                if go(remaining - {i}, state) or (st2 != state and go(remaining - {i}, st2)):
                    return True
                continue
            if res == o['res'] and go(remaining - {i}, st2):
                return True
        return False
    return go(frozenset(range(n)), ('free',))


def env_note(passed, reopened):
    """(suffix of the violation class, remark) for what the environment did in between"""
    suffix = (' after time passed' if passed else '') + (' after a reopen' if reopened else '')
    notes = (['%d s passed in between' % passed] if passed else []) + \
            (['the store was closed and opened again %d time(s) in between' % reopened] if reopened else [])
    return suffix, (' (%s)' % '; '.join(notes) if notes else '')


def clause_violations(w):
    """the clauses of the property on the recorded events (same reading as Props/C04.v)"""
    bad = []
    ev = w.events
    fe = faulted_events(w)

    def no_answer(j):
        """event j ends an operation that raised redis.ConnectionError because one of its commands was lost: expected"""
        return j in fe and ev[j][5] == ('exc', 'ConnectionError')
    for i, (cid, op, n, desc, resp, ret) in enumerate(ev):
        r = canon_ret(ret)
        if r == 'E' and not no_answer(i):
            bad.append(('operation raised', '%s() of client %d on %s raised %s' % (op, cid, lock_name(n), ret[1])))
        if op == 'get' and r == 'T':
            passed = reopened = 0
            for j in range(i + 1, len(ev)):
                c2, op2, n2, _, _, ret2 = ev[j]
                if is_env(op2):
                    passed += tick_secs(op2) if is_tick(op2) else 0
                    reopened += op2 == 'reopen'
                    continue
                if n2 != n:
                    continue
                if c2 == cid and op2 in ('release', 'fail'):
                    break
                when = env_note(passed, reopened)
                if op2 == 'get' and canon_ret(ret2) == 'T':
                    fault = (' after a lost connection', '; a command of that get() was lost with its connection') if j in fe or i in fe else ('', '')
                    bad.append(('two holders' + fault[0] + when[0], 'get() of client %d on %s returned True at step %d while client %d holds it '
                                'since step %d%s%s' % (c2, lock_name(n), j, cid, i, when[1], fault[1])))
                    break
                if op2 == 'is_locked' and canon_ret(ret2) == 'F':
                    bad.append(('held lock reported free' + when[0], 'is_locked() of client %d on %s returned False at step %d while client %d '
                                'holds it since step %d%s' % (c2, lock_name(n), j, cid, i, when[1])))
                    break
        if op == 'fail' and r == 'T':
            passed = reopened = 0
            for j in range(i + 1, len(ev)):
                c2, op2, n2, _, _, ret2 = ev[j]
                if is_env(op2):
                    passed += tick_secs(op2) if is_tick(op2) else 0
                    reopened += op2 == 'reopen'
                    continue
                if n2 != n:
                    continue
                if op2 == 'release':
                    break
                r2 = canon_ret(ret2)
                if r2 is None or no_answer(j):
                    continue
                want = {'get': 'F', 'is_locked': 'T', 'is_failed': 'T', 'fail': 'T'}[op2]
                if r2 != want:
                    when = env_note(passed, reopened)
                    bad.append(('failed lock not sticky' + when[0],
                                '%s() of client %d on %s returned %s at step %d after fail() returned True at step %d '
                                'and before any release()%s' % (op2, c2, lock_name(n), r2, j, i, when[1])))
                    break
        if op == 'release' and i not in fe:
            for j in range(i + 1, len(ev)):
                c2, op2, n2, _, _, ret2 = ev[j]
                if n2 == n and op2 == 'get' and ret2 is not None:
                    if no_answer(j):
                        break           # this get() may have taken the lock without telling anybody
                    if canon_ret(ret2) != 'T':
                        bad.append(('released lock not acquirable', 'first get() on %s to return after the release() at step %d returned %s (step %d)'
                                    % (lock_name(n), i, canon_ret(ret2), j)))
                    break
    for n in range(w.nnames):
        first = [x for j, x in enumerate(ev) if x[2] == n and x[1] == 'get' and x[5] is not None][:1]
        if first and first[0][5] == ('exc', 'ConnectionError') and any(j in fe for j, x in enumerate(ev) if x is first[0]):
            continue
        if first and canon_ret(first[0][5]) != 'T' and not any(x[2] == n and x[1] in ('release',) for x in ev):
            bad.append(('free lock not acquirable', 'first get() on %s to return returned %s' % (lock_name(n), canon_ret(first[0][5]))))
    return bad


def oracle(w):
    """[(what, detail)] for a well-formed run"""
    bad = [('harness-anomaly', a) for a in w.anomalies]
    bad += clause_violations(w)
    ops = operations(w)
    for n in range(w.nnames):
        sub = [o for o in ops if o['n'] == n]
        if not linearizable(sub):
            if not any(x[0] != 'harness-anomaly' for x in bad):
                bad.append(('history not linearizable', 'no atomic-lock order explains the operations on %s' % lock_name(n)))
    # other names: what an operation on n did to the store entry of m is covered by the final store + the tie; here:
    return bad


# ------------------------------------------------------------------------------------------------
# plans and schedules
def gen_plans(rng):
    nclients = rng.choice([2, 2, 3, 3, 4])
    nnames = rng.choice([1, 1, 2])
    plans = []
    for c in range(nclients):
        plan = []
        k = rng.choice([1, 2, 3, 3, 4, 5])
        while len(plan) < k:
            n = rng.randrange(nnames)
            r = rng.random()
            if r < 0.5:
                plan.append(('get', n))
                for _ in range(rng.choice([0, 0, 1])):
                    plan.append((rng.choice(['is_locked', 'is_failed']), rng.randrange(nnames)))
                r2 = rng.random()
                if r2 < 0.4:
                    plan.append(('release', n))
                elif r2 < 0.75:
                    plan.append(('fail', n))
                    if rng.random() < 0.3:
                        plan.append(('release', n))
            elif r < 0.62:
                plan.append(('is_failed', n))
                plan.append(('release', n))         # cleanup --failed-only (skipped unless the lock is failed)
            elif r < 0.8:
                plan.append((rng.choice(['is_locked', 'is_failed']), n))
            elif r < 0.9:
                plan.append(('release', n))
            else:
                plan.append(('fail', n))
        plans.append(plan[:6])
    return plans, nnames


def random_chooser(rng):
    sticky = rng.choice([0.0, 0.0, 0.3, 0.6])
    last = [None]

    def ch(i, en):
        if last[0] in en and rng.random() < sticky:
            return last[0]
        last[0] = rng.choice(en)
        return last[0]
    return ch


def fixed_chooser(sched):
    def ch(i, en):
        return sched[i] if i < len(sched) else en[0]
    return ch


G, R, F, L, A = ('get', 0), ('release', 0), ('fail', 0), ('is_locked', 0), ('is_failed', 0)
# single-client behaviours on one name; release/fail are skipped when the client is not entitled to them
SOLO_QUICK = [[G], [G, R], [G, F], [G, F, A], [A, R, G], [L]]
SOLO_FULL = SOLO_QUICK + [[G, R, G], [G, F, R], [G, F, G], [G, L], [G, A], [A], [A, G], [L, G], [G, F, L], [F], [R, G]]
TRIPLES = [
    [[G, F], [G], [A]], [[G, F], [G], [L]], [[G, F], [G], [A, R, G]], [[G, F], [G], [G]],
    [[G, R], [G, F], [G, A]], [[G, F, R], [G], [G]], [[G], [G], [G]],
]
QUADS = [[[G, F], [G], [A, R], [G, A]]]        # the scenario of D14: cleanup and a new holder fall into get()'s window
# (plans, seconds the clock client lets pass): all positions of the time steps between the primitives of the others
# (plans, steps of the environment): the store is closed and opened again between any two primitives (every backend)
RO = 'reopen'
REOPENSETS = [
    ([[G], [G]], [RO]), ([[G, F], [G, A]], [RO]), ([[G, L], [L, G]], [RO]), ([[G, F], [A, R, G]], [RO]),
    ([[G, R], [G]], [RO]), ([[G, F], [L, A]], [RO, RO]), ([[G], [L, G]], [RO, 8 * 86400]),
]
# plans whose redis commands are lost with their connection, one command at a time, before / after the server applied it
FAULTSETS = [[[G], [G]], [[G, F], [G, A]], [[G, R], [G, L]], [[G, F], [A, R, G]], [[G, L], [L, G]], [[G, F, R], [F, G]]]
TICKSETS = [
    ([[G], [G]], [10 * 365 * 86400]), ([[G, L], [L, G]], [2 * 86400]), ([[G, F], [G, A]], [8 * 86400]),
    ([[G, R], [G]], [8 * 86400]), ([[G, F], [A, R, G]], [10 * 365 * 86400]), ([[G], [L, G]], [3600, 8 * 86400]),
]


def enumerate_schedules(backend, plans, nnames, root, kbase, limit, rng, ticks=None, faults=None):
    """all schedules (every schedule exactly once: alternatives to the choices made after the forced prefix
    are queued), at most `limit` runs; the queue is served in random order so that a truncated
    enumeration is a spread-out sample"""
    stack = [[]]
    runs = []
    truncated = False
    while stack:
        if len(runs) >= limit:
            truncated = True
            break
        prefix = stack.pop(rng.randrange(len(stack)))
        w = run_world(backend, plans, nnames, root, kbase + len(runs), fixed_chooser(prefix), ticks=ticks, faults=faults)
        runs.append(w)
        for i in range(len(prefix), len(w.choices)):
            chosen, en = w.choices[i]
            for alt in en:
                if alt != chosen:
                    stack.append(w.sched[:i] + [alt])
    return runs, truncated


def what_for_tie(w):
    return 'lock trace: model and real %s lock disagree' % w.backend


def replay_obj(w, plans, extra):
    o = {'backend': w.backend, 'nnames': w.nnames, 'plans': [[list(x) for x in p] for p in plans], 'wild': w.wild,
         'ticks': list(w.ticks), 'faults': [[c, j, m] for (c, j), m in sorted(w.faults.items())],
         'schedule': list(w.sched),
         'executed': [[list(x) for x in cl.executed] for cl in w.clients],
         'events': [event_json(e) for e in w.events], 'final_store': w.final,
         'how_to_run': 'bin/check C04 --replay <this file>'}
    o.update(extra)
    return o


def event_json(e):
    cid, op, n, desc, resp, ret = e
    if resp is None:
        r = None
    elif resp[0] == 'lost':
        r = 'redis.ConnectionError: the command was lost %s' % ('before it reached the server' if resp[1] == 'before' else
                                                                'after the server applied it (-> %r)' % (resp[2],))
    elif resp[0] in ('ok', 'ret'):
        v = resp[1]
        r = int(v.st_mtime) if isinstance(v, os.stat_result) else (v.decode('latin1') if isinstance(v, bytes) else v)
        if not (r is None or isinstance(r, (bool, int, str))):
            r = repr(r)
    else:
        r = 'raised ' + str(resp[1])
    d = [x.decode('latin1') if isinstance(x, bytes) else ([y.decode('latin1') if isinstance(y, bytes) else y for y in x] if isinstance(x, tuple) else x)
         for x in desc]
    return {'client': cid, 'op': op, 'name': lock_name(n), 'primitive': d, 'response': r,
            'returned': (None if ret is None else (ret[1] if ret[0] == 'ret' else 'raised ' + str(ret[1])))}


# ------------------------------------------------------------------------------------------------
def judge(ck, w, plans, cases, meta, source):
    """direct oracle + case for Coq"""
    touched = {}
    for cid, op, n, *_ in w.events:
        touched.setdefault(n, set()).add(cid)
    nontrivial = any(len(s) >= 2 for s in touched.values())
    ck.distinct((w.backend, [cl.executed for cl in w.clients], w.sched), nontrivial)
    ck.count('backend:' + w.backend)
    ck.count('source:' + source)
    ck.count('clients:%d' % len(w.clients))
    ck.count('primitives', len(w.events))
    ck.count('operations', sum(len(cl.executed) for cl in w.clients))
    ck.count('well-formed' if w.all_wf else 'not-well-formed(tie only)')
    for e in w.events:
        if e[4] is not None and e[4][0] == 'lost':
            ck.count('connection lost:%s %s the server applied it' % (e[3][1], e[4][1]))
        if e[1] == 'reopen':
            ck.count('reopen:' + w.backend)
        elif is_tick(e[1]):
            ck.count('time passes:%s' % ('<=1h' if tick_secs(e[1]) <= 3600 else '<=8d' if tick_secs(e[1]) <= 8 * 86400 else '10y'))
        elif e[5] is not None:
            ck.count('op:%s=%s' % (e[1], canon_ret(e[5])))
    if w.all_wf:
        for what, detail in oracle(w):
            ck.violation(replay_obj(w, plans, {'kind': 'impl-violation', 'what': '%s (%s lock)' % (what, w.backend), 'detail': detail}))
    elif w.anomalies:
        for a in w.anomalies:
            ck.violation(replay_obj(w, plans, {'kind': 'impl-violation', 'what': 'harness-anomaly', 'detail': a}))
    cases.append(render_case(w))
    meta.append((w, plans))


def run(ck):
    t00 = _time.time()
    proved = ck.prove()
    ck.count('seconds:build+audit', round(_time.time() - t00))
    ck.trusted_base = core.DEFAULT_TRUSTED_BASE + [
        'C04: the lock-step scheduler and the os-level interposer of harness/c04.py (wrappers around os.open/unlink/utime/stat, '
        'os.path.exists, builtin open inside file_store), harness/fakeredis.py (command-atomic dictionary), '
        'harness/translate_c04.py / translate_c19.py (lock markers, failed time stamp, expiry)',
    ]
    ck.assumptions = [
        'each store primitive is atomic: os.open(O_CREAT|O_EXCL), unlink, utime, stat, exists on one directory entry (POSIX; NFSv3+ for '
        'O_EXCL), each redis command (single-threaded server), each dict_lock method (dict_store is single-process by its own documentation)',
        'well-formed use of the lock API: release()/fail() only by the holder or on a failed lock (Task.unlock docstring; what '
        'execution_loop and cleanup --failed-only do)',
        'one frozen clock during a run: time() >= failed time stamp + expiry (1801 s after the epoch) and no held keep-alive lock '
        'gets older than the expiry (C19 proves that for live holders); in the lock-step runs the keep-alive helper process is not '
        'started; fail() against a running helper: one loop body of the helper is atomic and Popen.kill() takes effect before the '
        'holder\'s next primitive (stop_monitor() does not wait() for the helper)',
        'nobody but the modelled clients touches the lock files / keys',
        'time: the redis server expires keys by its own clock only (harness/fakeredis.py: SET EX/PX, SETEX, EXPIRE, ... against a clock that '
        'the clock client advances); file and dict locks can depend on time through time() / file_store.time() only',
    ]
    thorough = ck.tier == 'thorough'
    cases, meta = [], []
    t0 = _time.time()
    IP.install()
    try:
        with jugrun.scratch_dir('jugv04') as root:
            k = 0
            # ---- lock state across close / reopen, sequentially through the store objects
            reopen_section(ck, root)
            # ---- exhaustive interleavings of small plans
            solo = SOLO_FULL if thorough else SOLO_QUICK
            plansets = [[a, b] for a in solo for b in solo]
            plansets += TRIPLES + QUADS
            lim2, lim3 = ck.n(60, 600), ck.n(120, 4000)
            for plans in plansets:
                for backend in BACKENDS:
                    runs, trunc = enumerate_schedules(backend, plans, 1, root, k, lim2 if len(plans) == 2 else lim3, ck.rng)
                    k += len(runs) + 1
                    if trunc:
                        ck.count('exhaustive:truncated-plan-sets')
                    else:
                        ck.count('exhaustive:complete-plan-sets')
                    for w in runs:
                        judge(ck, w, plans, cases, meta, 'exhaustive')
            # ---- the store is closed and opened again between any two primitives (every backend)
            for plans, env in REOPENSETS:
                for backend in BACKENDS:
                    runs, trunc = enumerate_schedules(backend, plans, 1, root, k, ck.n(15, 4000), ck.rng, ticks=env)
                    k += len(runs) + 1
                    ck.count('exhaustive:truncated-plan-sets' if trunc else 'exhaustive:complete-plan-sets')
                    for w in runs:
                        judge(ck, w, plans, cases, meta, 'exhaustive+reopen')
            # ---- redis: every command of every client lost with its connection, before / after the server applied it
            for plans in FAULTSETS:
                for c in range(len(plans)):
                    ncmd = sum(2 if o == 'fail' else 1 for o, _ in plans[c])
                    for j in range(ncmd):
                        for mode in FAULT_MODES:
                            runs, trunc = enumerate_schedules('redis', plans, 1, root, k, ck.n(5, 400), ck.rng, faults=[[c, j, mode]])
                            k += len(runs) + 1
                            for w in runs:
                                judge(ck, w, plans, cases, meta, 'exhaustive+connection-fault')
            # ---- the same with time passing between any two primitives (file, redis, dict)
            for plans, ticks in TICKSETS:
                for backend in BACKENDS:
                    if backend == 'keep':
                        continue
                    runs, trunc = enumerate_schedules(backend, plans, 1, root, k, ck.n(30, 4000), ck.rng, ticks=ticks)
                    k += len(runs) + 1
                    ck.count('exhaustive:truncated-plan-sets' if trunc else 'exhaustive:complete-plan-sets')
                    for w in runs:
                        judge(ck, w, plans, cases, meta, 'exhaustive+time')
            # ---- random plans and schedules
            nrand = ck.n(1500, 30000)
            for i in range(nrand):
                plans, nnames = gen_plans(ck.rng)
                backend = BACKENDS[i % 4]
                wild = ck.rng.random() < 0.12
                ticks = [ck.rng.choice(TICKS + (RO, RO, RO)) for _ in range(ck.rng.choice([0, 0, 1, 1, 2]))]
                faults = None
                if backend == 'redis' and ck.rng.random() < 0.4:
                    faults = [[ck.rng.randrange(len(plans)), ck.rng.randrange(4), ck.rng.choice(FAULT_MODES)]
                              for _ in range(ck.rng.choice([1, 1, 2]))]
                w = run_world(backend, plans, nnames, root, k, random_chooser(ck.rng), wild=wild, ticks=ticks, faults=faults)
                k += 1
                judge(ck, w, plans, cases, meta, 'random-wild' if wild else 'random')
                if i in (3, 10, 17, 100):
                    ck.sample({'backend': w.backend, 'executed': [cl.executed for cl in w.clients], 'schedule': w.sched,
                               'events': [event_json(e) for e in w.events[:12]]})
    finally:
        IP.uninstall()
    ck.count('seconds:driving the real locks + oracle', round(_time.time() - t0))
    t1 = _time.time()
    fails = ck.cases('locktrace', IMPORTS, CASE_TYPE, CHK, cases, shard=ck.n(150, 400), preamble=PREAMBLE)
    ck.count('seconds:coqc on the recorded traces', round(_time.time() - t1))
    for i in (fails or []):
        w, plans = meta[i]
        ck.violation(replay_obj(w, plans, {'kind': 'correspondence', 'what': what_for_tie(w), 'coq_case': cases[i]}))
    keepalive_helper_section(ck)


# ------------------------------------------------------------------------------------------------
# lock state across a reopen, sequentially, through the STORE objects (listlocks, remove_locks included)
RSTATES = ('free', 'held', 'failed', 'released', 'failed-released')
R_EXPECT = {'free': (False, False), 'held': (True, False), 'failed': (True, True), 'released': (False, False),
            'failed-released': (False, False)}


def run_reopen_scenario(scn, root):
    """scn = {'backend', 'states': [state of name i], 'reopens': k}.  Puts every name into its state through one store
    object, closes / reopens the store k times and compares what a fresh store object reports with what was reported
    before; then get() on every name, another reopen, remove_locks(), get() again.  -> list of problems (strings)"""
    import shutil
    backend, states = scn['backend'], scn['states']
    names = [lock_name(i) for i in range(len(states))]
    problems = []
    base = os.path.join(root, 'reopen')
    os.makedirs(base)
    server = None
    try:
        if backend in ('file', 'keep'):
            jd = os.path.join(base, 'jd')
            mk = (lambda: fs.file_store(jd)) if backend == 'file' else (lambda: fs.file_keepalive_store(jd))
        elif backend == 'redis':
            server = fakeredis.FakeServer()
            fakeredis.install(server)
            mk = lambda: rs.redis_store('redis://localhost/')
        else:
            dfile = os.path.join(base, 'store.pickle')
            mk = lambda: ds.dict_store(dfile)
        box = [mk()]

        def reopen():
            box[0].close()
            box[0] = mk()

        def answers():
            st = box[0]
            out = {}
            for nm in names:
                lk = st.getlock(nm)
                out[nm] = (bool(lk.is_locked()), bool(lk.is_failed()))
            listed = sorted((x.decode('utf-8') if isinstance(x, bytes) else str(x)) for x in st.listlocks())
            return out, listed

        def show(a):
            return ', '.join('%s: locked=%s failed=%s' % (nm, a[0][nm][0], a[0][nm][1]) for nm in names) + '; listlocks() = %s' % (a[1],)
        for nm, state in zip(names, states):
            lk = box[0].getlock(nm)
            if state != 'free' and lk.get() is not True:
                problems.append('get() on the fresh name %s did not return True' % nm)
            if state.startswith('failed') and lk.fail() is not True:
                problems.append('fail() on the held lock %s did not return True' % nm)
            if state.endswith('released'):
                lk.release()
        if backend in ('file', 'keep'):
            # somebody looks into the lock files (cat, grep -r, backup): the atime moves, the mtime (the failed marker) does not
            for nm in names:
                p = os.path.join(jd, 'locks', nm + '.lock')
                if os.path.exists(p):
                    IP.orig['utime'](p, (_time.time(), IP.orig['stat'](p).st_mtime))
        before = answers()
        want = ({nm: R_EXPECT[st_] for nm, st_ in zip(names, states)}, sorted(nm for nm, st_ in zip(names, states) if R_EXPECT[st_][0]))
        if before != want:
            problems.append('before any reopen the store reports %s, expected %s' % (show(before), show(want)))
        for r in range(scn['reopens']):
            reopen()
            after = answers()
            if after != before:
                problems.append('lock state changed across reopen %d: before: %s / after: %s' % (r + 1, show(before), show(after)))
        # get() through handles of the reopened store: refused on held / failed names, granted on free ones
        for nm in names:
            got = box[0].getlock(nm).get()
            if bool(got) != (not before[0][nm][0]):
                problems.append('after the reopen get() on %s (locked=%s failed=%s before the reopen) returned %r'
                                % (nm, before[0][nm][0], before[0][nm][1], got))
        mid = answers()
        reopen()
        if answers() != mid:
            problems.append('lock state changed across the reopen after the get() round: before: %s / after: %s' % (show(mid), show(answers())))
        # remove_locks() (cleanup --locks-only: the way to clear what crashed holders left) frees every name
        box[0].remove_locks()
        freed = answers()
        if any(v[0] or v[1] for v in freed[0].values()) or freed[1]:
            problems.append('after remove_locks(): %s' % show(freed))
        for nm in names:
            if box[0].getlock(nm).get() is not True:
                problems.append('after remove_locks() get() on %s did not return True' % nm)
        box[0].remove_locks()
        box[0].close()
    except Exception as e:
        problems.append('raised %s: %s' % (type(e).__name__, e))
    finally:
        if server is not None:
            fakeredis.uninstall()
        shutil.rmtree(base, ignore_errors=True)
    return problems


def reopen_section(ck, root):
    """called with the interposer installed and no active world (FakePopen stands for the keep-alive helper)"""
    t0 = _time.time()
    scns = []
    for backend in BACKENDS:
        scns.append({'backend': backend, 'states': ['held', 'failed', 'free', 'released', 'failed-released'], 'reopens': 1})
        scns.append({'backend': backend, 'states': ['failed', 'held'], 'reopens': 2})
        for _ in range(ck.n(3, 60)):
            scns.append({'backend': backend, 'states': [ck.rng.choice(RSTATES) for _ in range(ck.rng.randint(1, 5))],
                         'reopens': ck.rng.choice([1, 1, 2, 3])})
    for scn in scns:
        problems = run_reopen_scenario(scn, root)
        ck.count('reopen (sequential, through the store object):' + scn['backend'])
        ck.distinct(('reopen', scn['backend'], scn['states'], scn['reopens']), any(s_ in ('held', 'failed') for s_ in scn['states']))
        if problems:
            ck.violation({'kind': 'impl-violation', 'what': 'lock state lost across a reopen (%s store)' % scn['backend'],
                          'detail': problems[0], 'problems': problems, 'reopen_scenario': scn,
                          'how_to_run': 'bin/check C04 --replay <this file>'})
    ck.obligations.append({'name': 'lock state across close / reopen of the store object, listlocks, remove_locks (%d sequential scenarios, '
                                   '4 backends)' % len(scns), 'kind': 'test', 'ok': not any(w.startswith('lock state lost') for w in ck.viol_by_what),
                           'msg': ''})
    ck.count('seconds:reopen scenarios', round(_time.time() - t0))


def keepalive_helper_section(ck):
    """fail() of the keep-alive lock against its running helper (the os-level interposer is not installed here)"""
    t2 = _time.time()
    C, terr = c19.source_constants()
    if terr:
        ck.notes.append('translator failed, the keep-alive section uses the documented constants: ' + terr)
    ck.trusted_base = ck.trusted_base + c19.TRUSTED
    extra = {'keepalive_scenario': True}
    with jugrun.scratch_dir('jugv04k') as root:
        scns = c19.fail_window_scenarios(C)
        for _ in range(ck.n(40, 2000)):
            scn = c19.gen_scenario(ck.rng, C, 1)
            if any(a[1] == 'fail' for a in scn['actions']):
                scns.append(scn)
        before = dict(ck.dist)
        kcases, kmeta = c19.judge_scenarios(ck, scns, root, C, prop='C04', tag=' (keep lock, helper running)', extra=extra)
        # keep C04's distribution readable: only the counters of this section that matter here
        keep = ('fail():', 'helper-end:killed', 'refreshes')
        for k in list(ck.dist):
            if k not in before and not k.startswith(keep):
                del ck.dist[k]
            elif k in before and not k.startswith(keep):
                ck.dist[k] = before[k]
        ck.count('keep-alive fail() vs helper: scenarios', len(scns))
        c19.tie_scenarios(ck, 'keepfail', kcases, kmeta, root, C, prop='C04', shard=60, extra=extra)
    ck.count('seconds:keep-alive fail() against the helper', round(_time.time() - t2))


# ------------------------------------------------------------------------------------------------
def replay(obj):
    """Re-execute one recorded run (plans + schedule) against /repo."""
    if obj.get('keepalive_scenario'):
        return c19.replay(obj, prop='C04')
    if obj.get('reopen_scenario'):
        IP.install()
        try:
            with jugrun.scratch_dir('jugv04r') as root:
                problems = run_reopen_scenario(obj['reopen_scenario'], root)
        finally:
            IP.uninstall()
        print('store: %(backend)s; names n0.. put into the states %(states)s; then %(reopens)d x close + reopen, get() on every name, '
              'reopen, remove_locks(), get() on every name' % obj['reopen_scenario'])
        for pr in problems:
            print('VIOLATED:', pr)
        print('expected: is_locked / is_failed / listlocks answer the same before and after every reopen; get() is refused on held and '
              'failed names; remove_locks() frees them')
        return 1 if problems else 0
    if not obj.get('plans'):
        print('replay: nothing to re-execute (%s)' % obj.get('kind'))
        for b in obj.get('no_longer_checks', []):
            print('  no longer checks:', b)
        return 2
    plans = [[(o, n) for o, n in p] for p in obj['plans']]
    IP.install()
    try:
        with jugrun.scratch_dir('jugv04r') as root:
            w = run_world(obj['backend'], plans, obj['nnames'], root, 0, fixed_chooser(obj['schedule']), wild=obj.get('wild', False),
                          ticks=obj.get('ticks'), faults=obj.get('faults'))
    finally:
        IP.uninstall()
    print('backend: %s lock; %d clients; plans %s' % (w.backend, len(plans), obj['plans']))
    if w.ticks:
        print('client %d is the environment: its steps (seconds that pass / reopen = the store is closed and opened again): %s'
              % (w.clock.cid, w.ticks))
    print('schedule (client of every primitive step):', w.sched)
    for i, e in enumerate(w.events):
        j = event_json(e)
        print('  step %2d client %d %-9s %-3s primitive %-40s -> %-12r %s' % (
            i, j['client'], j['op'], j['name'], j['primitive'], j['response'],
            '' if e[5] is None else 'RETURNS %r' % (j['returned'],)))
    print('final store:', w.final)
    if obj.get('events') is not None:
        print('same as recorded:', [event_json(e) for e in w.events] == obj['events'])
    rc = 0
    if w.all_wf:
        bad = oracle(w)
        for what, detail in bad:
            print('VIOLATED: %s - %s' % (what, detail))
        if bad:
            rc = 1
        print('expected: every returned value explained by one atomic lock per name (get True only on a free lock; failed stays '
              'failed until released)')
    else:
        print('(the run is not a well-formed use of the lock API: only the model/implementation comparison applies)')
    ck = core.Check('C04', 'quick', 0)
    try:
        case = render_case(w)
        fails = ck.cases('replay', IMPORTS, CASE_TYPE, CHK, [case], preamble=PREAMBLE)
        print('model (repaired programs) agrees with the real code on this run:', fails == [])
        if fails != []:
            rc = 1
            if w.backend == 'redis':
                old = case.replace('(BRedis,', '(BRedisOld,', 1)
                f2 = ck.cases('replayold', IMPORTS, CASE_TYPE,
                              'fun c => match c with (b, hists, s, tr, fin, wf) => tie_check P b hists s tr fin end', [old], preamble=PREAMBLE)
                print('the run is the ORIGINAL program GETSET; SET F of redis_lock.get (defect D14):', f2 == [])
    except Exception as e:
        print('model could not be evaluated:', e)
        rc = 1
    return rc
