"""C17 - map / mapreduce / reduce / currymap agree with the Python built-ins for all splits.

Proof: Props/C17.v (Model/MapReduce.v, Model/Slice.v).
Tie: the real jug.mapreduce functions are run on generated (length, map_step, reduce_step,
index, slice, slice-of-slice) inputs; the task tree they build, the values they compute and
the errors they raise are compared with the model inside coqc.
Search: the same runs are compared with functools.reduce / list slicing directly; map / mapreduce / currymap are also run on
sequences of arbitrary values - classes of ==-equal elements of different types (0 / False / 0.0 / -0.0 / Decimal(0) ..), blocks that
repeat exactly or up to ==, list and tuple inputs - with a mapper whose result depends on the exact type and repr of its argument;
oracle: the built-in map; every distinct input element must reach the mapper and nothing else may.  Maps over mapped sequences
(inner and outer steps differing either way) followed by len / every index / slices / a third map; and mappers that carry the same
__qualname__ in two different modules (plain functions and TaskGenerators) mapped over the same blocks in one store.  Mapped values
and reducer results that are None or falsy (0, '', (), [], False, 0.0) with associative reducers for which they are not neutral
(first, last, a None-contagious concat, product, and, min, intersection), for mapreduce and reduce."""
import functools
import itertools

from . import core
from .core import zlit, natlit, listlit, optlit
from . import jugrun
import jug
import jug.mapreduce
from jug import TaskGenerator, value

EVIDENCE = dict(
    level='proof',
    rule='cases = (input length, map_step, reduce_step) triples for the tree/value of mapreduce/reduce/map/currymap, '
         'and (length, map_step, index | slice | slice-of-slice) for mapped sequences, and (sequence of typed values, map_step, reduce_step) '
         'for map/mapreduce/currymap with a type-sensitive mapper; a case is non-trivial when the input has >= 2 '
         'elements (trees) or the slice selects >= 1 element or raises; distinct = distinct case tuples',
    explanation='Coq theorems over the block/tree/slice model + differential evaluation of the model against jug.mapreduce',
)

CALLS = []


def single(x):
    CALLS.append(x)
    return (x,)


def single2(x, y):
    CALLS.append((x, y))
    return (x, y)


def concat(a, b):
    return tuple(a) + tuple(b)


def affine(x):
    CALLS.append(x)
    return 7 * x + 3


# ---- arbitrary values: classes of ==-equal elements of different types, and a mapper that tells them apart
EQ_CLASSES = [
    ['0', 'False', '0.0', '-0.0', 'Decimal(0)', 'Fraction(0)', '0j', 'np.int64(0)', 'np.bool_(False)'],
    ['1', 'True', '1.0', 'Decimal(1)', 'Fraction(1)', '(1+0j)', 'np.int64(1)', 'np.float64(1.0)', 'np.bool_(True)'],
    ['2', '2.0', 'Decimal(2)', 'Fraction(2)', 'np.float32(2.0)'],
    ['(1,)', '(True,)', '(1.0,)'],
    ["'a'", "np.str_('a')"],
    ["b'a'", "np.bytes_(b'a')"],
    ['None'], ["''"], ["'b'"], ['3'], ['-1'], ['2**70', 'float(2**70)'],
]
FLAT_CLASSES = [c for c in EQ_CLASSES if not c[0].startswith('(1,')]


def ev(e):
    from decimal import Decimal
    from fractions import Fraction
    import numpy as np
    return eval(e, {'Decimal': Decimal, 'Fraction': Fraction, 'np': np})


def tkey(x):
    """what the type-sensitive mappers return: exact type and repr, recursively for tuples"""
    if type(x) == tuple:
        return ('tuple',) + tuple(tkey(y) for y in x)
    return (type(x).__module__ + '.' + type(x).__qualname__, repr(x))


def describe(x):
    CALLS.append(tkey(x))
    return tkey(x)


def describe1(x):
    CALLS.append(tkey(x))
    return (tkey(x),)


def describe2(x, y):
    CALLS.append((tkey(x), tkey(y)))
    return (tkey(x), tkey(y))


def twist(rng, block, classes):
    """an ==-equal block of other types: every element that has ==-equal variants is replaced by another one"""
    out = []
    for e in block:
        cls = next(c for c in classes if e in c)
        alt = [v for v in cls if v != e]
        out.append(rng.choice(alt) if alt else e)
    return out


def gen_typed_sequence(rng, ms, classes):
    """expressions of a sequence made of map_step-sized blocks: a base block, exact repeats of it, ==-equal copies of other
    types, random blocks, possibly misaligned by a prefix and with a short last block"""
    elem = lambda: rng.choice(rng.choice(classes))
    base = [elem() for _ in range(ms)]
    xs = [elem() for _ in range(rng.choice([0, 0, 0, 1, ms - 1 if ms > 1 else 0]))]
    for _ in range(rng.randint(1, 4)):
        r = rng.random()
        if r < 0.3:
            xs += base
        elif r < 0.7:
            xs += twist(rng, base, classes)
        elif r < 0.8:
            xs += twist(rng, base, classes)[::-1]
        else:
            xs += [elem() for _ in range(ms)]
    xs += [elem() for _ in range(rng.choice([0, 0, 1, max(0, ms - 1)]))]
    if rng.random() < 0.1:
        xs = []
    return xs


def multiset_le(a, b):
    b = list(b)
    for x in a:
        if x in b:
            b.remove(x)
        else:
            return False
    return True


def run_typed(kind, exprs, ms, rs, as_tuple):
    """run map / mapreduce / currymap of the real code on the sequence written as expressions; returns (expected, observed, calls,
    inputs as mapper keys, block values or None)"""
    jugrun.fresh()
    del CALLS[:]
    xs = [ev(e) for e in exprs]
    if kind == 'currymap':
        xs = [(xs[i], xs[i + 1]) for i in range(0, len(xs) - 1, 2)]
    seq = tuple(xs) if as_tuple else list(xs)
    blocks = None
    if kind == 'map':
        m = jug.mapreduce.map(describe, seq, map_step=ms)
        jugrun.run_all_sequential()
        obs = [value(m[i]) for i in range(len(m))]
        if ms != 1:
            blocks = [list(value(b)) for b in m.blocks]
        exp = [tkey(x) for x in xs]
        keys = exp
    elif kind == 'mapreduce':
        t = jug.mapreduce.mapreduce(concat, describe1, seq, map_step=ms, reduce_step=rs)
        jugrun.run_all_sequential()
        obs = list(value(t)) if xs else []
        exp = [tkey(x) for x in xs]
        keys = exp
    else:
        r = jug.mapreduce.currymap(describe2, seq, map_step=ms)
        jugrun.run_all_sequential()
        obs = [value(e) for e in r]
        exp = [(tkey(a), tkey(b)) for a, b in xs]
        keys = exp
    return exp, obs, list(CALLS), keys, blocks


# ---- values that are None / falsy, reducers for which they are NOT neutral (all associative)
TABLE = []


def lookup(i):
    CALLS.append(('lookup', i))
    return TABLE[i]


def first(a, b):
    return a


def last(a, b):
    return b


def strict_concat(a, b):
    """'missing is contagious': None as soon as one side is None"""
    return None if a is None or b is None else tuple(a) + tuple(b)


def times(a, b):
    return a * b


def both(a, b):
    return a and b


def smaller(a, b):
    return a if a <= b else b


def common(a, b):
    return tuple(x for x in a if x in b)


tg_lookup = TaskGenerator(lookup)
tg_first = TaskGenerator(first)
tg_strict_concat = TaskGenerator(strict_concat)
# reducer -> pool of value expressions it is defined on (each pool holds the reducer's absorbing / selected falsy values)
FALSY_REDUCERS = [
    (first, ['None', '0', "''", '()', '[]', 'False', '(1,)', '5', "'a'", '0.0', '(None,)']),
    (last, ['None', '0', "''", '()', '[]', 'False', '(1,)', '5', "'a'", '0.0', '(None,)']),
    (strict_concat, ['None', '()', '(1,)', '(2, 3)', '(0,)', '(None,)']),
    (times, ['0', '1', '2', '-1', '3', 'False', 'True']),      # (ints only: 0 * -1 * 0.0 is 0.0 or -0.0 depending on the bracketing)
    (both, ['True', 'False', '1', '0', "''", "'a'", 'None', '()', '(0,)']),
    (smaller, ['()', '(0,)', '(1,)', '(0, 1)', '(2,)']),
    (common, ['()', '(1,)', '(1, 2)', '(2, 1, 3)', '(3,)']),
]


def shift(x):
    CALLS.append(('shift', x))
    return x + 1000


def triple(x):
    CALLS.append(('triple', x))
    return 3 * x


MOD_SRC = """from jug import TaskGenerator
CALLS = []
TAG = %r


def work(x):
    CALLS.append(('work', x))
    return (TAG, 'work', x)


@TaskGenerator
def twork(x):
    CALLS.append(('twork', x))
    return (TAG, 'twork', x)


def pair(x, y):
    CALLS.append(('pair', x, y))
    return (TAG, 'pair', x, y)


@TaskGenerator
def tpair(x, y):
    CALLS.append(('tpair', x, y))
    return (TAG, 'tpair', x, y)


def join(a, b):
    return tuple(a) + tuple(b)


def one(x):
    CALLS.append(('one', x))
    return ((TAG, 'one', x),)


tone = TaskGenerator(one)
tjoin = TaskGenerator(join)
"""


def twin_modules(d, names=('jv_twin_a', 'jv_twin_b')):
    """two freshly written modules that define the SAME function names (equal __qualname__) - returns the imported modules"""
    import importlib
    import os
    import sys
    mods = []
    for nm in names:
        with open(os.path.join(d, nm + '.py'), 'w') as fh:
            fh.write(MOD_SRC % nm)
    sys.path.insert(0, d)
    try:
        importlib.invalidate_caches()
        for nm in names:
            sys.modules.pop(nm, None)
            mods.append(importlib.import_module(nm))
    finally:
        sys.path.remove(d)
    return mods


def run_twins(mods, op, wrapped, xs, ms, rs, order):
    """the same operation with the same-named mapper of each module, over the same input, in ONE store; returns per module
    (expected, observed, calls, expected calls)"""
    jugrun.fresh()
    handles = []
    for m in (mods if order == 0 else mods[::-1]):
        del m.CALLS[:]
        if op == 'map':
            f = m.twork if wrapped else m.work
            h = jug.mapreduce.map(f, list(xs), map_step=ms)
            exp = [(m.TAG, f.f.__name__ if wrapped else f.__name__, x) for x in xs]
            ecalls = [(('twork' if wrapped else 'work'), x) for x in xs]
        elif op == 'currymap':
            f = m.tpair if wrapped else m.pair
            ps = [(x, x + 1) for x in xs]
            h = jug.mapreduce.currymap(f, ps, map_step=ms)
            exp = [(m.TAG, 'tpair' if wrapped else 'pair', a, b) for a, b in ps]
            ecalls = [(('tpair' if wrapped else 'pair'), a, b) for a, b in ps]
        else:
            h = jug.mapreduce.mapreduce(m.tjoin if wrapped else m.join, m.tone if wrapped else m.one, list(xs), map_step=ms, reduce_step=rs)
            exp = [(m.TAG, 'one', x) for x in xs]
            ecalls = [('one', x) for x in xs]
        handles.append((m, h, exp, ecalls))
    jugrun.run_all_sequential()
    out = []
    for m, h, exp, ecalls in handles:
        if op == 'mapreduce':
            obs = list(value(h)) if xs else []
        elif op == 'currymap' or isinstance(h, list):
            obs = [value(e) for e in h]
        else:
            obs = [value(h[i]) for i in range(len(h))]
        out.append((m.TAG, exp, obs, list(m.CALLS), ecalls))
    return out


tg_single = TaskGenerator(single)
tg_single2 = TaskGenerator(single2)
tg_affine = TaskGenerator(affine)
tg_concat = TaskGenerator(concat)


def tree_code(t):
    """The real task tree of mapreduce() -> the same flat code as Model.MapReduce.node_code."""
    name = t.f.__name__
    if name == '_jug_map_reduce':
        xs = list(t.args[2])
        return [-1, len(xs)] + xs
    if name == '_jug_reduce':
        subs = list(t.args[1])
        out = [-2, len(subs)]
        for s in subs:
            out += tree_code(s)
        return out
    raise ValueError('unexpected task in mapreduce tree: %s' % name)


def run_mapreduce(n, ms, rs, variant):
    jugrun.fresh()
    del CALLS[:]
    xs = list(range(100, 100 + n))
    if variant == 'plain':
        t = jug.mapreduce.mapreduce(concat, single, xs, map_step=ms, reduce_step=rs)
    elif variant == 'taskgen':
        t = jug.mapreduce.mapreduce(tg_concat, tg_single, xs, map_step=ms, reduce_step=rs)
    else:
        raise ValueError(variant)
    if n == 0:
        forest = [-3, 0]
    else:
        forest = [-3, 1] + tree_code(t)
    jugrun.run_all_sequential()
    v = value(t)
    return xs, forest, v, list(CALLS)


def slice_repr(sl):
    return {'start': sl.start, 'stop': sl.stop, 'step': sl.step}


def sl_lit(sl):
    f = lambda v: optlit(None if v is None else zlit(v))
    return '{| sl_start := %s; sl_stop := %s; sl_step := %s |}' % (f(sl.start), f(sl.stop), f(sl.step))


def obs_list(fn):
    """Run fn(); returns ('ok', list) or ('err', ExceptionName)."""
    try:
        return ('ok', list(fn()))
    except (IndexError, ValueError, TypeError) as e:
        return ('err', type(e).__name__)


def obs_any(fn):
    """like obs_list, for runs that must not fail at all: any exception is an observation"""
    try:
        return ('ok', list(fn()))
    except Exception as e:
        return ('err', type(e).__name__)


def gen_slices(ck, n, exhaustive):
    rng = ck.rng
    bounds = [None] + list(range(-n - 2, n + 3))
    steps = [None, 1, 2, 3, 4, -1, -2, -3, -4]
    if exhaustive:
        for a in bounds:
            for b in bounds:
                for c in steps:
                    yield slice(a, b, c)
    else:
        for _ in range(exhaustive_budget(ck, n)):
            yield slice(rng.choice(bounds), rng.choice(bounds), rng.choice(steps + [0] if rng.random() < 0.03 else steps))


def exhaustive_budget(ck, n):
    return 14


def run(ck):
    proved = ck.prove()
    ck.trusted_base = core.DEFAULT_TRUSTED_BASE + [
        'C17: CPython slice.indices/range semantics are formalised by hand in Model/Slice.v and sampled against CPython in this run',
    ]
    ck.assumptions = ['reducer associative (hypothesis of the theorem); task functions deterministic']
    thorough = ck.tier == 'thorough'

    # ---------------------------------------------------------------- (a) trees and values
    N = ck.n(14, 40)
    steps_m = range(1, ck.n(6, 10))
    steps_r = range(2, ck.n(6, 10))
    tree_cases, tree_meta = [], []
    for n in range(0, N + 1):
        for ms in steps_m:
            for rs in steps_r:
                for variant in (('plain', 'taskgen') if (n + ms + rs) % 3 == 0 else ('plain',)):
                    xs, forest, v, calls = run_mapreduce(n, ms, rs, variant)
                    # direct oracle: functools.reduce(r, map(m, xs)); every element mapped exactly once
                    expect = functools.reduce(concat, map(lambda x: (x,), xs)) if xs else []
                    if v != expect or sorted(calls) != xs:
                        ck.violation({'kind': 'impl-violation', 'what': 'mapreduce value or call log differs from functools.reduce(map)',
                                      'n': n, 'map_step': ms, 'reduce_step': rs, 'variant': variant,
                                      'expected': repr(expect), 'observed': repr(v), 'mapper_calls': calls})
                    obs_v = 'MrEmpty' if n == 0 else '(MrValue %s)' % listlit([zlit(x) for x in v])
                    tree_cases.append('(%s, %s, %s, %s, %s)' % (listlit([zlit(x) for x in xs]), natlit(ms), natlit(rs),
                                                               listlit([zlit(x) for x in forest]), obs_v))
                    tree_meta.append({'n': n, 'map_step': ms, 'reduce_step': rs, 'variant': variant})
                    ck.distinct(('tree', n, ms, rs, variant), n >= 2)
                    ck.count('tree:n>=2' if n >= 2 else 'tree:n<2')
    ck.sample({'kind': 'mapreduce', **tree_meta[len(tree_meta) // 2]})
    chk = ('fun c => match c with (xs, ms, rs, forest, v) => '
           'list_eqb Z.eqb (forest_code (mapreduce_tree xs ms rs)) forest && '
           'match mapreduce_value (@app Z) (fun x => [x]) xs ms rs, v with '
           '| MrEmpty, MrEmpty => true | MrValue a, MrValue b => list_eqb Z.eqb a b | _, _ => false end end')
    preamble = 'Definition mrv := @mr_value (list Z).'
    fails = ck.cases('mapreduce_tree', 'From JugV Require Import Model.MapReduce.',
                     'list Z * nat * nat * list Z * @mr_value (list Z)', chk, tree_cases)
    for i in (fails or []):
        ck.violation({'kind': 'correspondence', 'what': 'mapreduce tree/value: model and jug.mapreduce disagree',
                      'case': tree_meta[i], 'coq_case': tree_cases[i]})

    # reduce() and currymap() and map(step=1) on the direct oracle + model
    cm_cases, cm_meta = [], []
    for n in range(0, ck.n(10, 30)):
        for ms in range(1, ck.n(5, 9)):
            jugrun.fresh()
            del CALLS[:]
            xs = list(range(n))
            pairs = [(x, x + 50) for x in xs]
            r = jug.mapreduce.currymap(single2, pairs, map_step=ms)
            mp = jug.mapreduce.map(affine, xs, map_step=ms)
            rd = jug.mapreduce.reduce(concat, [(x,) for x in xs], reduce_step=max(2, ms))
            jugrun.run_all_sequential()
            got = [value(e) for e in r]
            gotm = list(value(mp))
            gotr = value(rd)
            if got != [single2(*p) for p in pairs] or gotm != [7 * x + 3 for x in xs] or \
                    list(gotr) != list(itertools.chain(*[(x,) for x in xs])):
                ck.violation({'kind': 'impl-violation', 'what': 'currymap/map/reduce differ from the built-ins',
                              'n': n, 'map_step': ms, 'currymap': repr(got), 'map': repr(gotm), 'reduce': repr(gotr)})
            # the same with TaskGenerator-wrapped functions, map_step == 1 included (D26: AttributeError at build time)
            jugrun.fresh()
            del CALLS[:]
            try:
                rw = jug.mapreduce.currymap(tg_single2, pairs, map_step=ms)
                mw = jug.mapreduce.map(tg_affine, xs, map_step=ms)
                dw = jug.mapreduce.reduce(tg_concat, [(x,) for x in xs], reduce_step=max(2, ms))
                jugrun.run_all_sequential()
                gotw = ([value(e) for e in rw], list(value(mw)), list(value(dw)))
            except Exception as e:
                gotw = 'raised %s: %s' % (type(e).__name__, e)
            ck.case_total += 1
            ck.count('taskgenerator-wrapped currymap/map/reduce')
            ck.distinct(('tgmap', n, ms), n >= 2)
            if gotw != ([single2(*p) for p in pairs], [7 * x + 3 for x in xs], list(itertools.chain(*[(x,) for x in xs]))):
                ck.violation({'kind': 'impl-violation', 'what': 'currymap/map/reduce with TaskGenerator-wrapped functions differ from the built-ins',
                              'n': n, 'map_step': ms, 'got': repr(gotw), 'tgmap': [n, ms]})
            if ms != 1 and n > 0:
                blocks = [list(value(b)) for b in mp.blocks]
                cm_cases.append('(%s, %s, %s)' % (listlit([zlit(7 * x + 3) for x in xs]), natlit(ms),
                                                  listlit([listlit([zlit(v) for v in b]) for b in blocks])))
                cm_meta.append({'n': n, 'map_step': ms})
                ck.distinct(('map', n, ms), n >= 2)
    # ---- arbitrary typed values (==-equal elements of different types, repeated / ==-equal blocks), type-sensitive mappers
    ids = {}
    zid = lambda k: ids.setdefault(k, len(ids))
    for it in range(ck.n(260, 2600)):
        kind = ('map', 'mapreduce', 'currymap')[it % 3]
        ms = ck.rng.choice([1, 2, 2, 3, 4])
        rs = ck.rng.choice([2, 3, 4])
        classes = FLAT_CLASSES if kind == 'currymap' else EQ_CLASSES
        if it < 3:
            exprs, ms = ['0', '1', 'False', 'True'] * (2 if kind == 'currymap' else 1), 2      # the smallest instance of the idea
        elif kind == 'currymap':
            # pairs: a typed sequence of 2*ms-sized super-blocks, so that blocks of pairs repeat up to ==
            exprs = gen_typed_sequence(ck.rng, 2 * ms, classes)
        else:
            exprs = gen_typed_sequence(ck.rng, ms, classes)
        as_tuple = ck.rng.random() < 0.3
        exp, obs, calls, keys, blocks = run_typed(kind, exprs, ms, rs, as_tuple)
        ck.distinct(('typed', kind, tuple(exprs), ms, rs, as_tuple), len(exprs) >= 2)
        ck.count('typed:' + kind)
        # every distinct input element reaches the mapper, nothing else does, none more often than it occurs (equal blocks
        # are one task); the values are those of the built-in map
        if obs != exp or set(calls) != set(keys) or not multiset_le(calls, keys):
            ck.violation({'kind': 'impl-violation', 'what': '%s on typed values differs from the built-in map (or an element never reached the mapper)' % kind,
                          'typed': kind, 'elements': exprs, 'map_step': ms, 'reduce_step': rs, 'as_tuple': as_tuple,
                          'expected': repr(exp), 'observed': repr(obs), 'mapper_calls': repr(calls)})
        if blocks is not None and exprs:
            cm_cases.append('(%s, %s, %s)' % (listlit([zlit(zid(k)) for k in exp]), natlit(ms),
                                              listlit([listlit([zlit(zid(v)) for v in b]) for b in blocks])))
            cm_meta.append({'typed': 'map', 'elements': exprs, 'map_step': ms, 'as_tuple': as_tuple})
    ck.sample({'kind': 'typed map', 'elements': gen_typed_sequence(ck.rng, 2, EQ_CLASSES), 'map_step': 2})
    chk = ('fun c => match c with (ys, ms, blocks) => list_eqb (list_eqb Z.eqb) (map_blocks ys ms) blocks && '
           'list_eqb Z.eqb (mapseq_value blocks) ys && '
           'list_eqb (option_eqb Z.eqb) (currymap_values blocks) (map Some ys) end')
    fails = ck.cases('map_blocks', 'From JugV Require Import Model.MapReduce.', 'list Z * nat * list (list Z)', chk, cm_cases)
    for i in (fails or []):
        ck.violation({'kind': 'correspondence', 'what': 'map(): block structure differs from the model', 'case': cm_meta[i],
                      'coq_case': cm_cases[i]})

    # ---- map over a mapped sequence (inner step a, outer step b, a <, =, > b), then len / every index / slices / a third map
    mm_cases, mm_meta = [], []
    for n in range(0, ck.n(11, 20)):
        for a in (1, 2, 3, 4):
            for b in (1, 2, 3, 4, 5, 8):
                if not thorough and (n + a + b) % 2:
                    continue
                c = 1 + (n + a + b) % 4
                # (map_step == 1 builds one Task per element by iterating its input, and a mapped sequence cannot be iterated:
                #  jug raises NotImplementedError there - not an input of this property)
                if a != 1 and b == 1:
                    continue
                if b != 1 and c == 1:
                    c = 2
                jugrun.fresh()
                del CALLS[:]
                xs = list(range(n))
                m1 = jug.mapreduce.map(affine, xs, map_step=a)
                m2 = jug.mapreduce.map(shift, m1, map_step=b)
                m3 = jug.mapreduce.map(triple, m2, map_step=c)
                ran = obs_any(lambda: (jugrun.run_all_sequential(), [])[1])
                y2 = [7 * x + 3 + 1000 for x in xs]
                y3 = [3 * y for y in y2]
                obs = {'run': ran, 'len2': obs_any(lambda: [len(m2)]), 'all2': obs_any(lambda: [value(e) for e in m2] if isinstance(m2, list) else value(m2)),
                       'all3': obs_any(lambda: [value(e) for e in m3] if isinstance(m3, list) else value(m3)),
                       'len3': obs_any(lambda: [len(m3)])}
                exp = {'run': ('ok', []), 'len2': ('ok', [n]), 'all2': ('ok', y2), 'all3': ('ok', y3), 'len3': ('ok', [n])}
                for p in range(-n - 1, n + 1):
                    obs['idx2:%d' % p] = obs_any(lambda: [value(m2[p])])
                    exp['idx2:%d' % p] = obs_any(lambda: [y2[p]])
                    obs['idx3:%d' % p] = obs_any(lambda: [value(m3[p])])
                    exp['idx3:%d' % p] = obs_any(lambda: [y3[p]])
                    if not isinstance(m2, list) and b != 1:
                        o = obs['idx2:%d' % p]
                        sl_extra = '(%s, %s, CIndex %s %s)' % (listlit([zlit(y) for y in y2]), natlit(b), zlit(p),
                                                              optlit(zlit(o[1][0])) if o[0] == 'ok' else 'None')
                        mm_cases.append(sl_extra)
                        mm_meta.append({'map_over_map': [n, a, b], 'index': p, 'observed': repr(o)})
                for _ in range(3):
                    bd = [None] + list(range(-n - 1, n + 2))
                    sl = slice(ck.rng.choice(bd), ck.rng.choice(bd), ck.rng.choice([None, 1, 2, -1, -2, 3]))
                    key = 'slice2:%r' % ((sl.start, sl.stop, sl.step),)
                    obs[key] = obs_any(lambda: [value(e) for e in m2[sl]] if isinstance(m2, list) else value(m2[sl]))
                    exp[key] = obs_any(lambda: y2[sl])
                bad = [k for k in exp if obs[k] != exp[k] and not (obs[k][0] == 'err' and exp[k][0] == 'err')]
                calls_ok = sorted(c for c in CALLS if not isinstance(c, tuple)) == xs and \
                    sorted(c[1] for c in CALLS if isinstance(c, tuple) and c[0] == 'shift') == sorted(7 * x + 3 for x in xs) and \
                    sorted(c[1] for c in CALLS if isinstance(c, tuple) and c[0] == 'triple') == sorted(y2)
                ck.distinct(('mapmap', n, a, b, c), n >= 2)
                ck.count('map-over-map:' + ('outer>=inner' if b >= a else 'outer<inner'))
                if bad or not calls_ok:
                    ck.violation({'kind': 'impl-violation', 'what': 'map over a mapped sequence: len / index / slice / further map differ from the built-ins',
                                  'map_over_map': {'n': n, 'inner_step': a, 'outer_step': b, 'third_step': c},
                                  'differs_at': bad[:6], 'expected': repr([exp[k] for k in bad[:6]]), 'observed': repr([obs[k] for k in bad[:6]]),
                                  'every_element_mapped_once': calls_ok})
    ck.sample({'kind': 'map over map', **(mm_meta[len(mm_meta) // 2] if mm_meta else {})})

    # ---- None / falsy mapped values and reducer results, with associative reducers for which they are not neutral
    fl_cases, fl_meta = [], []
    zids = {}
    for it in range(ck.n(330, 3300)):
        red, pool = FALSY_REDUCERS[it % len(FALSY_REDUCERS)]
        n = ck.rng.randint(1, 9)
        exprs = [ck.rng.choice(pool) for _ in range(n)]
        if ck.rng.random() < 0.5:
            exprs[ck.rng.randrange(n)] = pool[0]                   # the absorbing / falsy value somewhere
        if it < 2 * len(FALSY_REDUCERS):
            exprs[0 if it < len(FALSY_REDUCERS) else n - 1] = pool[0]
        ms, rs = ck.rng.choice([1, 2, 3, 4]), ck.rng.choice([2, 3, 4])
        op = ('mapreduce', 'reduce', 'mapreduce-taskgen')[it % 3]
        if op == 'mapreduce-taskgen' and red not in (first, strict_concat):
            op = 'mapreduce'
        jugrun.fresh()
        del CALLS[:]
        TABLE[:] = [ev(e) for e in exprs]
        vals = list(TABLE)
        expect = obs_any(lambda: [functools.reduce(red, vals)])
        if op == 'reduce':
            t = jug.mapreduce.reduce(red, vals, reduce_step=rs)
        elif op == 'mapreduce':
            t = jug.mapreduce.mapreduce(red, lookup, list(range(n)), map_step=ms, reduce_step=rs)
        else:
            t = jug.mapreduce.mapreduce(tg_first if red is first else tg_strict_concat, tg_lookup, list(range(n)), map_step=ms, reduce_step=rs)
        ran = obs_any(lambda: (jugrun.run_all_sequential(), [])[1])
        got = obs_any(lambda: [value(t)])
        same = ran[0] == 'ok' and got[0] == expect[0] and (got[0] == 'err' or (tkey(got[1][0]) == tkey(expect[1][0])))
        calls_ok = op == 'reduce' or sorted(c[1] for c in CALLS) == list(range(n))
        ck.distinct(('falsy', red.__name__, tuple(exprs), ms, rs, op), n >= 2)
        ck.count('falsy:' + red.__name__)
        if not same or not calls_ok:
            ck.violation({'kind': 'impl-violation', 'what': '%s with None / falsy values differs from functools.reduce(map)' % op,
                          'falsy': {'op': op, 'reducer': red.__name__, 'values': exprs, 'map_step': ms, 'reduce_step': rs},
                          'expected': repr(expect), 'observed': repr(got), 'run': repr(ran), 'every_element_mapped_once': calls_ok})
        if red in (first, last) and op != 'reduce' and got[0] == 'ok':
            zid = lambda v: zids.setdefault(repr(tkey(v)), len(zids))
            fl_cases.append('(%s, %s, %s, %s, %s)' % (listlit([zlit(zid(v)) for v in vals]), natlit(ms), natlit(rs),
                                                      'true' if red is first else 'false', zlit(zid(got[1][0]))))
            fl_meta.append({'falsy': {'op': op, 'reducer': red.__name__, 'values': exprs, 'map_step': ms, 'reduce_step': rs}})
    ck.sample({'kind': 'falsy values', **(fl_meta[len(fl_meta) // 2] if fl_meta else {})})
    chk = ('fun c => match c with (xs, ms, rs, pick_first, v) => '
           'match mapreduce_value (if pick_first : bool then (fun a b : Z => a) else (fun a b : Z => b)) (fun x : Z => x) xs ms rs with '
           '| MrValue y => Z.eqb y v | _ => false end end')
    fails = ck.cases('mapreduce_selecting_reducers', 'From JugV Require Import Model.MapReduce.', 'list Z * nat * nat * bool * Z', chk, fl_cases)
    for i in (fails or []):
        ck.violation({'kind': 'correspondence', 'what': 'mapreduce with a selecting reducer over None / falsy values: model and jug.mapreduce disagree',
                      'case': fl_meta[i], 'coq_case': fl_cases[i]})

    # ---- mappers with the same __qualname__ in two modules, plain and TaskGenerator-wrapped, over the same blocks in one store
    with jugrun.scratch_dir('twins') as d:
        mods = twin_modules(d)
        try:
            k = 0
            for op in ('map', 'currymap', 'mapreduce'):
                for wrapped in (False, True):
                    for n in (0, 1, 3, 4, 7, 9) if not thorough else range(0, 13):
                        for ms in (1, 2, 4):
                            k += 1
                            res = run_twins(mods, op, wrapped, list(range(n)), ms, 2 + k % 3, k % 2)
                            ck.distinct(('twins', op, wrapped, n, ms), n >= 2)
                            ck.count('twins:' + op + (':TaskGenerator' if wrapped else ':function'))
                            for tag, exp, obs, calls, ecalls in res:
                                if obs != exp or sorted(calls) != sorted(ecalls):
                                    ck.violation({'kind': 'impl-violation',
                                                  'what': '%s with same-named mappers from two modules: values differ from the built-in map or an element was not mapped exactly once per mapper' % op,
                                                  'twins': {'op': op, 'taskgenerator': wrapped, 'n': n, 'map_step': ms, 'reduce_step': 2 + k % 3, 'order': k % 2},
                                                  'module': tag, 'expected': repr(exp), 'observed': repr(obs), 'mapper_calls': repr(calls)})
        finally:
            import sys as _sys
            for m in mods:
                _sys.modules.pop(m.__name__, None)

    # ---------------------------------------------------------------- (b) indices, slices, slices of slices
    sl_cases, sl_meta = list(mm_cases), list(mm_meta)
    NS = ck.n(9, 12)
    for n in range(0, NS + 1):
        for ms in ((2, 3, 5) if not thorough else (2, 3, 4, 5, 7)):
            if ms == 1:
                continue
            jugrun.fresh()
            xs = list(range(n))
            ys = [7 * x + 3 for x in xs]
            m = jug.mapreduce.map(affine, xs, map_step=ms)
            jugrun.run_all_sequential()
            ys_lit = listlit([zlit(y) for y in ys])
            # integer indices
            for p in range(-n - 2, n + 3):
                o = obs_list(lambda: [value(m[p])])
                e = obs_list(lambda: [ys[p]])
                if o != e and not (o[0] == 'err' and e[0] == 'err'):
                    ck.violation({'kind': 'impl-violation', 'what': 'm[p] differs from list indexing', 'n': n, 'map_step': ms,
                                  'index': p, 'expected': repr(e), 'observed': repr(o)})
                obs = optlit(zlit(o[1][0])) if o[0] == 'ok' else 'None'
                sl_cases.append('(%s, %s, CIndex %s %s)' % (ys_lit, natlit(ms), zlit(p), obs))
                sl_meta.append({'n': n, 'map_step': ms, 'index': p, 'observed': repr(o)})
                ck.distinct(('idx', n, ms, p))
            # slices
            exhaustive = thorough and n <= 8
            for sl in gen_slices(ck, n, exhaustive):
                o = obs_list(lambda: value(m[sl]))
                e = obs_list(lambda: ys[sl])
                if o != e and not (o[0] == 'err' and e[0] == 'err'):
                    ck.violation({'kind': 'impl-violation', 'what': 'value(m[slice]) differs from list slicing', 'n': n,
                                  'map_step': ms, 'slice': slice_repr(sl), 'expected': repr(e), 'observed': repr(o)})
                obs = optlit(listlit([zlit(v) for v in o[1]])) if o[0] == 'ok' else 'None'
                sl_cases.append('(%s, %s, CSlice %s %s)' % (ys_lit, natlit(ms), sl_lit(sl), obs))
                sl_meta.append({'n': n, 'map_step': ms, 'slice': slice_repr(sl), 'observed': repr(o)})
                ck.distinct(('sl', n, ms, sl.start, sl.stop, sl.step), o[0] == 'err' or len(o[1]) >= 1)
                ck.count('slice:step=%s' % ('None' if sl.step is None else ('neg' if sl.step < 0 else ('pos' if sl.step > 0 else '0'))))
                # slice of slice + index into a slice (a few per slice)
                if o[0] == 'ok':
                    k = len(o[1])
                    for _ in range(2 if not thorough else 3):
                        b2 = [None] + list(range(-k - 1, k + 2))
                        sl2 = slice(ck.rng.choice(b2), ck.rng.choice(b2), ck.rng.choice([None, 1, 2, -1, -2, 3, -3]))
                        o2 = obs_list(lambda: value(m[sl][sl2]))
                        e2 = obs_list(lambda: ys[sl][sl2])
                        if o2 != e2 and not (o2[0] == 'err' and e2[0] == 'err'):
                            ck.violation({'kind': 'impl-violation', 'what': 'value(m[s1][s2]) differs from list slicing', 'n': n,
                                          'map_step': ms, 'slice': slice_repr(sl), 'slice2': slice_repr(sl2),
                                          'expected': repr(e2), 'observed': repr(o2)})
                        obs2 = optlit(listlit([zlit(v) for v in o2[1]])) if o2[0] == 'ok' else 'None'
                        sl_cases.append('(%s, %s, CSlice2 %s %s %s)' % (ys_lit, natlit(ms), sl_lit(sl), sl_lit(sl2), obs2))
                        sl_meta.append({'n': n, 'map_step': ms, 'slice': slice_repr(sl), 'slice2': slice_repr(sl2), 'observed': repr(o2)})
                        ck.distinct(('sl2', n, ms, sl.start, sl.stop, sl.step, sl2.start, sl2.stop, sl2.step), o2[0] == 'err' or len(o2[1]) >= 1)
                        p = ck.rng.randint(-k - 1, k + 1)
                        o3 = obs_list(lambda: [value(m[sl][p])])
                        e3 = obs_list(lambda: [ys[sl][p]])
                        if o3 != e3 and not (o3[0] == 'err' and e3[0] == 'err'):
                            ck.violation({'kind': 'impl-violation', 'what': 'm[slice][p] differs from list indexing', 'n': n,
                                          'map_step': ms, 'slice': slice_repr(sl), 'index': p,
                                          'expected': repr(e3), 'observed': repr(o3)})
                        obs3 = optlit(zlit(o3[1][0])) if o3[0] == 'ok' else 'None'
                        sl_cases.append('(%s, %s, CSliceIdx %s %s %s)' % (ys_lit, natlit(ms), sl_lit(sl), zlit(p), obs3))
                        sl_meta.append({'n': n, 'map_step': ms, 'slice': slice_repr(sl), 'index': p, 'observed': repr(o3)})
    ck.sample({'kind': 'slice', **sl_meta[len(sl_meta) // 3]})
    ck.sample({'kind': 'slice', **sl_meta[2 * len(sl_meta) // 3]})
    preamble = '''
Inductive scase :=
| CIndex (p : Z) (obs : option Z)
| CSlice (sl : pyslice) (obs : option (list Z))
| CSlice2 (sl sl2 : pyslice) (obs : option (list Z))
| CSliceIdx (sl : pyslice) (p : Z) (obs : option Z).
Definition strict (l : list (option Z)) : option (list Z) := sequence_opt l.
Definition run_case (c : list Z * nat * scase) : bool :=
  match c with (ys, ms, sc) =>
    let b := mk_baccess ys ms in
    match sc with
    | CIndex p obs => option_eqb Z.eqb (ba_get b p) obs
    | CSlice sl obs => option_eqb (list_eqb Z.eqb) (match ba_slice b sl with Some s => strict (bslice_value s) | None => None end) obs
    | CSlice2 sl sl2 obs =>
        option_eqb (list_eqb Z.eqb)
          (match ba_slice b sl with
           | Some s => match bslice_slice s sl2 with Some s2 => strict (bslice_value s2) | None => None end
           | None => None end) obs
    | CSliceIdx sl p obs =>
        option_eqb Z.eqb (match ba_slice b sl with Some s => bslice_get s p | None => None end) obs
    end
  end.'''
    fails = ck.cases('slices', 'From JugV Require Import Model.MapReduce Model.Slice.', 'list Z * nat * scase',
                     'run_case', sl_cases, preamble=preamble)
    for i in (fails or []):
        ck.violation({'kind': 'correspondence', 'what': 'mapped-sequence index/slice: model and jug.mapreduce disagree',
                      'case': sl_meta[i], 'coq_case': sl_cases[i]})

    # sampled assumption: Model.Slice.py_indices / range_len = CPython (a test, reported as such)
    ind_cases = []
    for _ in range(ck.n(300, 3000)):
        n = ck.rng.randint(0, 12)
        rb = [None] + list(range(-n - 3, n + 4))
        sl = slice(ck.rng.choice(rb), ck.rng.choice(rb), ck.rng.choice([None, 1, 2, 3, -1, -2, -3, 5, -5]))
        s, e, k = sl.indices(n)
        ind_cases.append('(%s, %s, (%s, %s, %s), %s)' % (sl_lit(sl), zlit(n), zlit(s), zlit(e), zlit(k), zlit(len(range(s, e, k)))))
    chk = ('fun c => match c with (sl, n, (s, e, k), len) => match py_indices sl n with '
           '| Some (s\', e\', k\') => Z.eqb s s\' && Z.eqb e e\' && Z.eqb k k\' && '
           'Z.eqb (range_len {| r_start := s; r_stop := e; r_step := k |}) len | None => false end end')
    fails = ck.cases('cpython_slice_semantics', 'From JugV Require Import Model.Slice.', 'pyslice * Z * (Z * Z * Z) * Z', chk, ind_cases)
    for i in (fails or []):
        ck.violation({'kind': 'correspondence', 'what': 'Model.Slice.py_indices differs from CPython slice.indices', 'coq_case': ind_cases[i]})


def replay(obj):
    """Re-execute a recorded C17 case against /repo."""
    jugrun.fresh()
    if 'map_over_map' in obj and isinstance(obj['map_over_map'], dict):
        q = obj['map_over_map']
        xs = list(range(q['n']))
        m1 = jug.mapreduce.map(affine, xs, map_step=q['inner_step'])
        m2 = jug.mapreduce.map(shift, m1, map_step=q['outer_step'])
        m3 = jug.mapreduce.map(triple, m2, map_step=q.get('third_step', 2))
        ran = obs_any(lambda: (jugrun.run_all_sequential(), [])[1])
        y2 = [7 * x + 3 + 1000 for x in xs]
        o = [obs_any(lambda: [value(m2[p])]) for p in range(len(xs))] + [obs_any(lambda: [value(m3[p])]) for p in range(len(xs))]
        e = [('ok', [y]) for y in y2] + [('ok', [3 * y]) for y in y2]
        print('run', ran)
        print('m2[p], m3[p] observed', o)
        print('m2[p], m3[p] expected', e)
        ol = obs_any(lambda: [len(m2), len(m3)])
        print('len observed', ol, 'expected', [len(xs)] * 2)
        return 0 if (ran[0] == 'ok' and o == e and ol == ('ok', [len(xs)] * 2)) else 1
    if 'tgmap' in obj:
        n, ms = obj['tgmap']
        xs = list(range(n))
        pairs = [(x, x + 50) for x in xs]
        try:
            rw = jug.mapreduce.currymap(tg_single2, pairs, map_step=ms)
            mw = jug.mapreduce.map(tg_affine, xs, map_step=ms)
            dw = jug.mapreduce.reduce(tg_concat, [(x,) for x in xs], reduce_step=max(2, ms))
            jugrun.run_all_sequential()
            got = ([value(e) for e in rw], list(value(mw)), list(value(dw)))
        except Exception as e:
            got = 'raised %s: %s' % (type(e).__name__, e)
        exp = ([single2(*p) for p in pairs], [7 * x + 3 for x in xs], list(itertools.chain(*[(x,) for x in xs])))
        print('observed', got)
        print('expected', exp)
        return 0 if got == exp else 1
    if 'falsy' in obj:
        q = obj['falsy']
        red = dict((r.__name__, r) for r, _ in FALSY_REDUCERS)[q['reducer']]
        TABLE[:] = [ev(e) for e in q['values']]
        vals = list(TABLE)
        expect = obs_any(lambda: [functools.reduce(red, vals)])
        if q['op'] == 'reduce':
            t = jug.mapreduce.reduce(red, vals, reduce_step=q['reduce_step'])
        elif q['op'] == 'mapreduce':
            t = jug.mapreduce.mapreduce(red, lookup, list(range(len(vals))), map_step=q['map_step'], reduce_step=q['reduce_step'])
        else:
            t = jug.mapreduce.mapreduce(tg_first if red is first else tg_strict_concat, tg_lookup, list(range(len(vals))),
                                        map_step=q['map_step'], reduce_step=q['reduce_step'])
        ran = obs_any(lambda: (jugrun.run_all_sequential(), [])[1])
        got = obs_any(lambda: [value(t)])
        print('values', vals, 'reducer', q['reducer'])
        print('expected', expect, 'observed', got, 'run', ran)
        return 0 if (ran[0] == 'ok' and got[0] == expect[0] and (got[0] == 'err' or tkey(got[1][0]) == tkey(expect[1][0]))) else 1
    if 'twins' in obj:
        q = obj['twins']
        with jugrun.scratch_dir('twins') as d:
            mods = twin_modules(d)
            res = run_twins(mods, q['op'], q['taskgenerator'], list(range(q['n'])), q['map_step'], q.get('reduce_step', 2), q.get('order', 0))
        rc = 0
        for tag, exp, obs, calls, ecalls in res:
            print(tag, 'expected', exp)
            print(tag, 'observed', obs, 'calls', calls)
            if obs != exp or sorted(calls) != sorted(ecalls):
                rc = 1
        return rc
    if 'typed' in obj and 'elements' in obj:
        exp, obs, calls, keys, blocks = run_typed(obj['typed'], obj['elements'], obj['map_step'], obj.get('reduce_step', 2), obj.get('as_tuple', False))
        print('expected', exp)
        print('observed', obs)
        print('mapper calls', calls)
        return 0 if (obs == exp and set(calls) == set(keys) and multiset_le(calls, keys)) else 1
    if 'slice' in obj or 'index' in obj:
        n, ms = obj['n'], obj['map_step']
        xs = list(range(n))
        ys = [7 * x + 3 for x in xs]
        m = jug.mapreduce.map(affine, xs, map_step=ms)
        jugrun.run_all_sequential()
        mk = lambda d: slice(d['start'], d['stop'], d['step'])
        a, b = m, ys
        if 'slice' in obj:
            a, b = (lambda: m[mk(obj['slice'])]), (lambda: ys[mk(obj['slice'])])
        else:
            a, b = (lambda: m), (lambda: ys)
        if 'slice2' in obj:
            a2, b2 = (lambda: a()[mk(obj['slice2'])]), (lambda: b()[mk(obj['slice2'])])
        elif 'index' in obj:
            a2, b2 = (lambda: [a()[obj['index']]]), (lambda: [b()[obj['index']]])
        else:
            a2, b2 = a, b
        o = obs_list(lambda: value(a2()))
        e = obs_list(b2)
        print('observed', o, 'expected', e)
        return 0 if (o == e or (o[0] == 'err' and e[0] == 'err')) else 1
    if 'reduce_step' in obj:
        xs, forest, v, calls = run_mapreduce(obj['n'], obj['map_step'], obj['reduce_step'], obj.get('variant', 'plain'))
        expect = functools.reduce(concat, map(lambda x: (x,), xs)) if xs else []
        print('observed', v, 'expected', expect)
        return 0 if v == expect else 1
    print('replay: unrecognised case', obj)
    return 2
