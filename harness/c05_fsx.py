"""C05 support: os-level interposition (primitive file-system trace with content snapshots) and an
operational crash simulator (process kill / power loss with lossy directory operations).

Nothing here imports jug; the interposer is installed by monkeypatching os / builtins / io and is
restricted to paths under one scratch root.  Data writes are not intercepted: before and after every
intercepted primitive the tree under the root is reconciled with what the interposer believes, and
every difference in content becomes a 'write' event (every difference in the set of files becomes an
'unseen' create/unlink event, which the protocol rejects: a missed operation is itself a mismatch)."""
import builtins
import hashlib
import io
import os
import stat as statmod

_ORIG = {}
_PATCHED_OS = ['open', 'fsync', 'fdatasync', 'rename', 'replace', 'unlink', 'remove', 'mkdir', 'rmdir',
               'close', 'utime', 'truncate', 'ftruncate', 'link', 'symlink']

WRITE_FLAGS = os.O_WRONLY | os.O_RDWR | os.O_TRUNC | os.O_CREAT | os.O_APPEND


class Blobs:
    """content interning: cid 1 is the empty byte string"""

    def __init__(self):
        self.by_sha = {}
        self.data = {}
        self.cid(b'')

    def cid(self, b):
        h = hashlib.sha1(b).digest()
        c = self.by_sha.get(h)
        if c is None:
            c = len(self.by_sha) + 1
            self.by_sha[h] = c
            self.data[c] = bytes(b)
        return c


class Interposer:
    def __init__(self, root):
        self.root = os.path.realpath(root)
        self.blobs = Blobs()
        self.events = []            # dicts: op, name?, ino?, cid?, src?, dst?, dir?, unseen?
        self.files = {}             # rel name -> model ino
        self.real = {}              # model ino -> (st_dev, st_ino)
        self.content = {}           # model ino -> cid (last seen)
        self.statkey = {}           # model ino -> (size, mtime_ns) for large files
        self.dirs = set()           # rel dir names known to exist ('' = the root itself)
        self.nino = 0
        self.hook = None            # hook(point:str) called before/after each intercepted primitive
        self.busy = 0
        self.installed = False
        self.unsupported = []
        self.fsync_fail_at = None   # fault: the n-th fsync of a FILE (counted from fsync_count) fails once with EIO
        self.fsync_count = 0
        self.exdev = False          # fault: a rename between two directories fails with EXDEV (tempfiles/ on another mount)

    # ------------------------------------------------------------------ paths
    def rel(self, p):
        """relative name of p under the root, or None"""
        try:
            p = os.fspath(p)
        except TypeError:
            return None
        if isinstance(p, bytes):
            p = os.fsdecode(p)
        if not isinstance(p, str):
            return None
        p = os.path.normpath(os.path.join(os.getcwd(), p))
        if p == self.root:
            return ''
        if p.startswith(self.root + os.sep):
            return p[len(self.root) + 1:]
        # resolve symlinks in the directory part (e.g. /tmp -> /private/tmp)
        d = os.path.realpath(os.path.dirname(p))
        q = os.path.join(d, os.path.basename(p))
        if q == self.root:
            return ''
        if q.startswith(self.root + os.sep):
            return q[len(self.root) + 1:]
        return None

    def abs(self, rel):
        return os.path.join(self.root, rel) if rel else self.root

    # ------------------------------------------------------------------ events
    def emit(self, **ev):
        self.events.append(ev)

    def new_ino(self):
        self.nino += 1
        return self.nino

    def _read(self, path):
        with _ORIG['io.open'](path, 'rb') as f:
            return f.read()

    def reconcile(self):
        """compare the real tree with the tracked one; emit write / unseen events for every difference"""
        seen_files = {}
        seen_dirs = set()
        if os.path.isdir(self.root):
            seen_dirs.add('')
            for dp, dns, fns in os.walk(self.root):
                rd = os.path.relpath(dp, self.root)
                rd = '' if rd == '.' else rd
                for d in dns:
                    seen_dirs.add(os.path.join(rd, d) if rd else d)
                for f in fns:
                    seen_files[os.path.join(rd, f) if rd else f] = None
        for d in sorted(seen_dirs - self.dirs):
            self.dirs.add(d)
            self.emit(op='mkdir', dir=d, unseen=True)
        for name in sorted(set(self.files) - set(seen_files)):
            ino = self.files.pop(name)
            self.emit(op='unlink', name=name, ino=ino, unseen=True)
        for name in sorted(seen_files):
            p = self.abs(name)
            try:
                st = os.lstat(p)
            except OSError:
                continue
            if not statmod.S_ISREG(st.st_mode):
                self.unsupported.append('non-regular file %s' % name)
                continue
            ino = self.files.get(name)
            if ino is not None and self.real.get(ino) != (st.st_dev, st.st_ino):
                self.files.pop(name)
                self.emit(op='unlink', name=name, ino=ino, unseen=True)
                ino = None
            if ino is None:
                # was it renamed behind our back?  treat as a brand-new file either way
                ino = self.new_ino()
                self.files[name] = ino
                self.real[ino] = (st.st_dev, st.st_ino)
                self.content[ino] = 1
                self.emit(op='create', name=name, ino=ino, excl=False, unseen=True)
            key = (st.st_size, st.st_mtime_ns)
            if st.st_size > (1 << 20) and self.statkey.get(ino) == key:
                continue
            c = self.blobs.cid(self._read(p))
            self.statkey[ino] = key
            if c != self.content.get(ino):
                self.content[ino] = c
                self.emit(op='write', ino=ino, cid=c)

    def _call_hook(self, point):
        if self.hook is not None and self.busy == 1:
            self.busy += 1
            try:
                self.hook(point)
            finally:
                self.busy -= 1

    def _enter(self, point):
        # the hook may raise (an exception / signal delivered at this primitive boundary): stay consistent
        self.busy += 1
        if self.busy == 1:
            try:
                self.reconcile()
                self._call_hook('before:' + point)
            except BaseException:
                self.busy -= 1
                raise
        return self.busy == 1

    def _leave(self, point, top):
        try:
            if top:
                self.reconcile()
                self._call_hook('after:' + point)
        finally:
            self.busy -= 1

    def ino_of_fd(self, fd):
        try:
            st = os.fstat(fd)
        except OSError:
            return None, None
        if statmod.S_ISDIR(st.st_mode):
            for d in self.dirs:
                try:
                    sd = os.stat(self.abs(d))
                except OSError:
                    continue
                if (sd.st_dev, sd.st_ino) == (st.st_dev, st.st_ino):
                    return 'dir', d
            return None, None
        for ino, key in self.real.items():
            if key == (st.st_dev, st.st_ino) and (ino in self.files.values()):
                return 'file', ino
        return None, None

    # ------------------------------------------------------------------ wrappers
    def _opened(self, name, existed, fd, excl, trunc):
        st = os.fstat(fd)
        if statmod.S_ISDIR(st.st_mode):
            return
        if not existed:
            ino = self.new_ino()
            self.files[name] = ino
            self.real[ino] = (st.st_dev, st.st_ino)
            self.content[ino] = 1
            self.emit(op='create', name=name, ino=ino, excl=bool(excl))
        else:
            ino = self.files.get(name)
            self.emit(op='openw', name=name, ino=ino, trunc=bool(trunc))

    def w_open(self, path, flags, mode=0o777, *, dir_fd=None):
        name = self.rel(path) if dir_fd is None else None
        if name is None or self.busy or not (flags & WRITE_FLAGS):
            return _ORIG['open'](path, flags, mode, dir_fd=dir_fd)
        top = self._enter('open')
        try:
            existed = os.path.lexists(self.abs(name))
            fd = _ORIG['open'](path, flags, mode, dir_fd=dir_fd)
            self._opened(name, existed, fd, flags & os.O_EXCL, flags & os.O_TRUNC)
            return fd
        finally:
            self._leave('open', top)

    def w_builtin_open(self, file, mode='r', *a, **kw):
        name = None
        if not isinstance(file, int):
            name = self.rel(file)
        m = mode if isinstance(mode, str) else 'r'
        if name is None or self.busy or not any(c in m for c in 'wax+'):
            return _ORIG['io.open'](file, mode, *a, **kw)
        top = self._enter('open')
        try:
            existed = os.path.lexists(self.abs(name))
            f = _ORIG['io.open'](file, mode, *a, **kw)
            self._opened(name, existed, f.fileno(), 'x' in m, 'w' in m)
            return f
        finally:
            self._leave('open', top)

    def w_fsync(self, fd):
        if self.busy:
            return _ORIG['fsync'](fd)
        kind, what = self.ino_of_fd(fd)
        if kind is None:
            return _ORIG['fsync'](fd)
        top = self._enter('fsync')
        try:
            if kind == 'file':
                n = self.fsync_count
                self.fsync_count += 1
                if self.fsync_fail_at is not None and n == self.fsync_fail_at:
                    # Linux: a failed fsync reports the write-back error once and marks the pages clean - the data
                    # written so far never reaches the disk, and a later fsync of the same file succeeds trivially
                    import errno
                    self.emit(op='fsync_failed', ino=what)
                    raise OSError(errno.EIO, 'Input/output error')
            r = _ORIG['fsync'](fd)
            if kind == 'dir':
                self.emit(op='fsyncdir', dir=what)
            else:
                self.emit(op='fsync', ino=what, cid=self.content.get(what))
            return r
        finally:
            self._leave('fsync', top)

    def w_fdatasync(self, fd):
        return self.w_fsync(fd)

    def w_close(self, fd):
        if self.busy:
            return _ORIG['close'](fd)
        kind, what = self.ino_of_fd(fd)
        if kind != 'file':
            return _ORIG['close'](fd)
        top = self._enter('close')
        try:
            r = _ORIG['close'](fd)
            self.emit(op='close', ino=what)
            return r
        finally:
            self._leave('close', top)

    def _w_rename(self, which, src, dst, *, src_dir_fd=None, dst_dir_fd=None):
        a = self.rel(src) if src_dir_fd is None else None
        b = self.rel(dst) if dst_dir_fd is None else None
        if (a is None and b is None) or self.busy:
            return _ORIG[which](src, dst, src_dir_fd=src_dir_fd, dst_dir_fd=dst_dir_fd)
        top = self._enter('rename')
        try:
            if self.exdev and a is not None and b is not None and os.path.dirname(a) != os.path.dirname(b):
                import errno
                raise OSError(errno.EXDEV, 'Invalid cross-device link', os.fspath(src), None, os.fspath(dst))
            isdir = os.path.isdir(src)
            r = _ORIG[which](src, dst, src_dir_fd=src_dir_fd, dst_dir_fd=dst_dir_fd)
            if isdir or a is None or b is None:
                self.unsupported.append('rename of a directory or across the root: %s -> %s' % (src, dst))
            elif a in self.files:
                ino = self.files.pop(a)
                self.files[b] = ino
                self.emit(op='rename', src=a, dst=b, ino=ino, cid=self.content.get(ino))
            return r
        finally:
            self._leave('rename', top)

    def w_rename(self, src, dst, **kw):
        return self._w_rename('rename', src, dst, **kw)

    def w_replace(self, src, dst, **kw):
        return self._w_rename('replace', src, dst, **kw)

    def _w_unlink(self, which, path, *, dir_fd=None):
        name = self.rel(path) if dir_fd is None else None
        if name is None or self.busy:
            return _ORIG[which](path, dir_fd=dir_fd)
        top = self._enter('unlink')
        try:
            r = _ORIG[which](path, dir_fd=dir_fd)
            if name in self.files:
                ino = self.files.pop(name)
                self.emit(op='unlink', name=name, ino=ino)
            return r
        finally:
            self._leave('unlink', top)

    def w_unlink(self, path, **kw):
        return self._w_unlink('unlink', path, **kw)

    def w_remove(self, path, **kw):
        return self._w_unlink('remove', path, **kw)

    def w_mkdir(self, path, mode=0o777, *, dir_fd=None):
        name = self.rel(path) if dir_fd is None else None
        if name is None or self.busy:
            return _ORIG['mkdir'](path, mode, dir_fd=dir_fd)
        top = self._enter('mkdir')
        try:
            r = _ORIG['mkdir'](path, mode, dir_fd=dir_fd)
            self.dirs.add(name)
            self.emit(op='mkdir', dir=name)
            return r
        finally:
            self._leave('mkdir', top)

    def _w_generic(self, which, unsupported):
        def w(path, *a, **kw):
            name = self.rel(path) if not isinstance(path, int) else None
            if isinstance(path, int) and not self.busy:
                kind, what = self.ino_of_fd(path)
                name = what if kind else None
            if name is None or self.busy:
                return _ORIG[which](path, *a, **kw)
            top = self._enter(which)
            try:
                r = _ORIG[which](path, *a, **kw)
                if unsupported:
                    self.unsupported.append('%s(%s)' % (which, name))
                else:
                    self.emit(op=which, name=name)
                return r
            finally:
                self._leave(which, top)
        return w

    # ------------------------------------------------------------------ install
    def install(self):
        assert not _ORIG, 'another interposer is installed'
        for n in _PATCHED_OS:
            _ORIG[n] = getattr(os, n)
        _ORIG['io.open'] = io.open
        _ORIG['builtins.open'] = builtins.open
        os.open = self.w_open
        os.fsync = self.w_fsync
        os.fdatasync = self.w_fdatasync
        os.close = self.w_close
        os.rename = self.w_rename
        os.replace = self.w_replace
        os.unlink = self.w_unlink
        os.remove = self.w_remove
        os.mkdir = self.w_mkdir
        os.rmdir = self._w_generic('rmdir', True)
        os.utime = self._w_generic('utime', False)
        os.truncate = self._w_generic('truncate', False)     # the content change shows up as a write event
        os.ftruncate = self._w_generic('ftruncate', False)
        os.link = self._w_generic('link', True)
        os.symlink = self._w_generic('symlink', True)
        builtins.open = self.w_builtin_open
        io.open = self.w_builtin_open
        # code under test may hold the primitives under other names (`from os import rename, unlink, fsync`,
        # `from io import open`): every global of a loaded jug module that IS one of the original primitives gets the
        # wrapper too (restored by uninstall)
        import sys
        wrappers = dict((id(_ORIG[n]), (getattr(os, n), _ORIG[n])) for n in _PATCHED_OS)
        wrappers[id(_ORIG['io.open'])] = (self.w_builtin_open, _ORIG['io.open'])
        wrappers[id(_ORIG['builtins.open'])] = (self.w_builtin_open, _ORIG['builtins.open'])
        self.rebound = []
        for mname, mod in list(sys.modules.items()):
            if mod is None or not (mname == 'jug' or mname.startswith('jug.')):
                continue
            for gname, val in list(vars(mod).items()):
                w = wrappers.get(id(val))
                if w is not None and val is w[1]:
                    setattr(mod, gname, w[0])
                    self.rebound.append((mod, gname, w[1]))
        self.installed = True
        return self

    def uninstall(self):
        if not self.installed:
            return
        if not self.busy:
            self.busy += 1
            try:
                self.reconcile()
            finally:
                self.busy -= 1
        for n in _PATCHED_OS:
            setattr(os, n, _ORIG[n])
        builtins.open = _ORIG['builtins.open']
        io.open = _ORIG['io.open']
        for mod, gname, orig in getattr(self, 'rebound', []):
            setattr(mod, gname, orig)
        self.rebound = []
        _ORIG.clear()
        self.installed = False

    def __enter__(self):
        return self.install()

    def __exit__(self, *a):
        self.uninstall()

    def sync_now(self):
        """reconcile outside any primitive (used at the end of an API operation)"""
        self.busy += 1
        try:
            self.reconcile()
        finally:
            self.busy -= 1

    def listing(self):
        """real directory listing now: rel name -> cid"""
        out = {}
        for dp, dns, fns in os.walk(self.root):
            for f in fns:
                p = os.path.join(dp, f)
                out[os.path.relpath(p, self.root)] = self.blobs.cid(self._read(p) if _ORIG else open(p, 'rb').read())
        return out


# ======================================================================== crash simulator
GARBAGE_KINDS = ('empty', 'half', 'full', 'junk', 'zeros')


def garbage(kind, vol_bytes, rng=None):
    """what a power loss may leave in a file whose last write was not followed by an fsync (a few
    representatives of 'any truncation / mixture of blocks'); deterministic when rng is None"""
    n = len(vol_bytes)
    if kind == 'junk' and rng is None:
        m = min(n, 4096)
        h = hashlib.sha256(vol_bytes[:64] + bytes([n & 255])).digest()
        return (h * (m // 32 + 1))[:m] + vol_bytes[4096:]
    if kind == 'empty':
        return b''
    if kind == 'half':
        return vol_bytes[:n // 2]
    if kind == 'full':
        return vol_bytes
    if kind == 'zeros':
        return b'\0' * n
    return bytes(rng.getrandbits(8) for _ in range(min(n, 4096))) + vol_bytes[4096:]


class CrashSim:
    """Operational replay of an event list.

    volatile view:  names -> ino, ino -> cid (what a process kill leaves / what a reader sees)
    durable view:   `ddir` (entries that reached the disk), `pending` (entry changes issued after the last
                    fsync of their directory: each may independently be lost), `synced[ino]` (cid at the last
                    fsync not followed by a write, else None = garbage), `fresh` (directories created by
                    the trace and never fsynced: may vanish with everything inside)."""

    def __init__(self, events, upto, durable_before=0):
        self.vdir = {}
        self.vdata = {}
        self.synced = {}
        self.ddir = {}
        self.pending = []          # (name, binding-or-None)
        self.fresh = set()
        self.poisoned = set()      # inodes whose last fsync FAILED and whose content has not been written again since
        for k, ev in enumerate(events[:upto]):
            if k == durable_before and k > 0:
                self.make_durable()
            self.apply(ev)
        if durable_before >= upto and upto > 0:
            self.make_durable()

    def make_durable(self):
        """as if sync(1) had been called: everything so far is on disk"""
        for n, b in self.pending:
            self._dset(n, b)
        self.pending = []
        self.fresh = set()
        for i, c in self.vdata.items():
            self.synced[i] = c

    def _dset(self, n, b):
        if b is None:
            self.ddir.pop(n, None)
        else:
            self.ddir[n] = b

    def _bind(self, n, b):
        if b is None:
            self.vdir.pop(n, None)
        else:
            self.vdir[n] = b
        self.pending.append((n, b))

    def apply(self, ev):
        op = ev['op']
        if op == 'create':
            self.vdata[ev['ino']] = 1
            self.synced[ev['ino']] = None
            self._bind(ev['name'], ev['ino'])
        elif op == 'openw':
            pass
        elif op == 'write':
            self.vdata[ev['ino']] = ev['cid']
            self.synced[ev['ino']] = None
            self.poisoned.discard(ev['ino'])     # written again after the failure: that data can be made durable
        elif op == 'fsync_failed':
            self.synced[ev['ino']] = None
            self.poisoned.add(ev['ino'])
        elif op == 'fsync':
            # after a failed fsync the earlier writes are lost for good: syncing again without having written again
            # makes nothing durable (granularity: whole contents, as everywhere in this simulator)
            if ev['ino'] not in self.poisoned:
                self.synced[ev['ino']] = self.vdata.get(ev['ino'])
        elif op == 'fsyncdir':
            d = ev['dir']
            keep = []
            for n, b in self.pending:
                if os.path.dirname(n) == d:
                    self._dset(n, b)
                else:
                    keep.append((n, b))
            self.pending = keep
            self.fresh.discard(d)       # an fsynced directory is itself durable (Model.Fs.sync_dir)
        elif op == 'rename':
            ino = self.vdir.get(ev['src'])
            self._bind(ev['src'], None)
            self._bind(ev['dst'], ino)
        elif op == 'unlink':
            self._bind(ev['name'], None)
        elif op == 'mkdir':
            self.fresh.add(ev['dir'])

    # -------------------------------------------------------------- images
    def kill_image(self):
        """name -> cid"""
        return {n: self.vdata[i] for n, i in self.vdir.items()}

    def fresh_dirs(self):
        return sorted(d for d in self.fresh if d != '')

    def nbits(self):
        return len(self.pending) + len(self.fresh_dirs())

    def masks(self, rng, cap):
        """(exhaustive, sorted list of masks): bit k < len(pending) set = the k-th pending entry change reached
        the disk; bit len(pending)+j set = the j-th fresh directory was lost.  Exhaustive when 2**nbits <= cap;
        otherwise: nothing / everything, every single survivor, every single loss (fresh directories kept),
        and random masks up to `cap`."""
        nbits = self.nbits()
        if 2 ** nbits <= cap:
            return True, list(range(2 ** nbits))
        npend = len(self.pending)
        allp = 2 ** npend - 1
        masks = {0, allp, 2 ** nbits - 1}
        for k in range(npend):
            masks.add(1 << k)
            masks.add(allp & ~(1 << k))
        while len(masks) < cap:
            masks.add(rng.getrandbits(nbits))
        return False, sorted(masks)

    def dir_for_mask(self, m):
        """the durable directory {name: ino} when exactly the entry changes selected by the mask reached the disk"""
        fresh = self.fresh_dirs()
        d = dict(self.ddir)
        for k, (n, b) in enumerate(self.pending):
            if (m >> k) & 1:
                if b is None:
                    d.pop(n, None)
                else:
                    d[n] = b
        for k, fd in enumerate(fresh):
            if (m >> (len(self.pending) + k)) & 1:
                d = {n: b for n, b in d.items() if not (os.path.dirname(n) == fd or os.path.dirname(n).startswith(fd + os.sep))}
        return d

    def lost_for_mask(self, m):
        """human-readable description of what the mask loses"""
        out = []
        for k, (n, b) in enumerate(self.pending):
            if not (m >> k) & 1:
                out.append('%s %s' % ('unbind' if b is None else 'bind', n))
        for k, fd in enumerate(self.fresh_dirs()):
            if (m >> (len(self.pending) + k)) & 1:
                out.append('directory %s' % fd)
        return out

    def powerloss_dirs(self, rng, cap):
        """yield (exhaustive, {name: ino}) for the lossy subsets of the pending entry changes and of the
        fresh directories; exhaustive enumeration when there are at most `cap` of them"""
        exhaustive, masks = self.masks(rng, cap)
        for m in masks:
            yield exhaustive, self.dir_for_mask(m)

    def bindings_by_name(self, rng, cap):
        """for the tie with Model.Fs.pl_bindings: name -> set of possible bindings (ino or None), or None when
        the enumeration was not exhaustive"""
        out = {}
        names = set(self.ddir) | set(n for n, _ in self.pending) | set(self.vdir)
        for exhaustive, d in self.powerloss_dirs(rng, cap):
            if not exhaustive:
                return None
            for n in names:
                out.setdefault(n, set()).add(d.get(n))
        return out
