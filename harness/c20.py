"""C20 - every command resolves options and the store location the same way.

Proof: Props/C20.v (Model/Options.v, Gen/OptionTable.v regenerated from /repo by translate_c20.py).
Tie: the real jug.options.parse(args, optionsfile=StringIO(cfg)) is run for every subcommand on
generated (options on the command line, configuration file, positional words, date) inputs; every
resolved attribute, the expanded jugdir, sys.argv and the error class are compared with
Model.Options.run on the generated table inside coqc.  backends.select is compared with
Model.Options.backend_of.
Discovery: options.parse(args) WITHOUT an options file (what the `jug` command does) is run in fresh
interpreters (subprocess; the first case of each child is the first parse of its process) whose HOME is a
scratch directory holding any subset of the candidate rc files (~/.config/jug/jugrc, ~/.config/jugrc,
~/.jug/configrc: absent / a file / a directory = exists but cannot be opened) with overlapping and disjoint
settings; every resolved option is compared with Model.Options.run_home on the generated candidate list
(the FIRST existing candidate is the configuration file, only that one) and with the Python restatement.
Search (independent of Coq): a plain Python restatement of the property
    value = command line ?? coerce(type of default, configuration file) ?? default
is compared with parse(), (a) systematically for every option x every combination of layers and
(b) on the random cases; the store location is compared across all subcommands.
Command wiring: the real `jug <subcommand>` entry point (jug.jug.main) is run in fresh interpreters for every command form x
jugdir spelling x {command line, jugrc} with backends.select recording its argument: all commands must hand it the same
string for the same options (what parse() resolved), whether they open the store themselves or jug.main does."""
import atexit
import collections
import contextlib
import datetime as _dt
import io
import json
import logging
import os
import re
import subprocess
import sys
import time
import traceback
from concurrent.futures import ThreadPoolExecutor

from . import core
from . import jugrun
from . import translate_c20 as TR
from .core import listlit

import jug.options as O                       # noqa: E402  (jugrun put /repo first on sys.path)
import jug.backends.select                    # noqa: E402,F401
from jug.subcommands import cmdapi            # noqa: E402

SEL = sys.modules['jug.backends.select']      # (jug.backends.select the attribute is the function)

EVIDENCE = dict(
    level='proof',
    rule='case = (subcommand, options on the command line in order, positional words, configuration file entries, date); '
         'observed = error class or (every option attribute, expanded jugdir, sys.argv).  A case is non-trivial when the '
         'command line or the configuration file sets at least one option; distinct = distinct case tuples.  '
         'systematic = every option x {absent, present} on the command line x {absent, present(values)} in the configuration file.  '
         'discovery case = (command line, what lies at each candidate rc path of a scratch HOME, date), parsed without an options '
         'file in a fresh interpreter; discovery-systematic = every subset of the candidate files x command line with/without overrides.',
    explanation='Coq theorems over the option-table model (general in the table; side conditions decided for the table '
                'generated from the source) + differential evaluation of the model against jug.options.parse and '
                'backends.select + direct search with a Python restatement of the precedence rule + the string every real command '
                'hands to backends.select (jug.jug.main in fresh interpreters), which must be the same for all commands',
)

MISSING = object()
RESERVED = {'next', '_autoinit', 'update', 'copy'}     # attributes of Options objects, not options
FALSE_STRINGS = ('', '0', 'false', 'off')              # the documented/tested meaning (test_options.test_bool)


# ----------------------------------------------------------------------------- Gallina literals
def cs(s):
    if not all(32 <= ord(ch) <= 126 for ch in s):
        raise ValueError('non printable-ASCII string in a case: %r' % (s,))
    return '"%s"' % s.replace('"', '""')


def cval(v):
    if v is MISSING:
        return 'None'
    if v is None:
        return '(Some VNone)'
    if isinstance(v, bool):
        return '(Some (VBool %s))' % ('true' if v else 'false')
    if isinstance(v, int):
        return '(Some (VInt (%d)%%Z))' % v
    if isinstance(v, str):
        return '(Some (VStr %s))' % cs(v)
    if isinstance(v, list) and all(isinstance(x, str) for x in v):
        return '(Some (VList %s))' % listlit([cs(x) for x in v])
    return '(Some (VOther %s))' % cs(getattr(v, '__name__', type(v).__name__))


def jval(v):
    """JSON-able, canonical rendering of an observed / expected value."""
    if v is MISSING:
        return '<no such attribute>'
    if v is None or isinstance(v, (bool, int, str)):
        return v
    if isinstance(v, list):
        return [jval(x) for x in v]
    return '<%s>' % getattr(v, '__name__', type(v).__name__)


# ----------------------------------------------------------------------------- running the real code
class _FakeDatetime:
    def __init__(self, date):
        self._d = _dt.datetime.strptime(date, '%Y-%m-%d')

    def now(self):
        return self._d


def _options_frame(exc):
    """Name of the innermost function of jug/options.py on the traceback."""
    name = None
    for fr in traceback.extract_tb(exc.__traceback__):
        if fr.filename.replace('\\', '/').endswith('jug/options.py'):
            name = fr.name
    return name


def run_real(args, cfg_text, date, keys):
    """-> ('arg-error',) | ('coerce-error',) | ('format-error',) | ('ok', {key: value}, argv) | ('crash', message)"""
    root = logging.getLogger()
    saved = (sys.argv[:], root.level, O.datetime)
    O.datetime = _FakeDatetime(date)
    try:
        try:
            with jugrun.quiet():
                opts = O.parse(list(args), io.StringIO(cfg_text))
        except SystemExit:
            return ('arg-error',)
        except (ValueError, TypeError, KeyError) as e:
            where = _options_frame(e)
            if where == 'read_configuration_file':
                return ('coerce-error',)
            if where == 'parse':
                return ('format-error',)
            return ('crash', '%s: %s (in %s)' % (type(e).__name__, e, where))
        except Exception as e:          # anything else parse() lets escape: an observation (reported), not a crash of the check
            return ('crash', '%s: %s' % (type(e).__name__, str(e)[:300]))
        attrs = {k: getattr(opts, k, MISSING) for k in keys}
        return ('ok', attrs, list(sys.argv))
    finally:
        sys.argv[:] = saved[0]
        root.level = saved[1]
        O.datetime = saved[2]


def live_defaults(keys):
    return {k: getattr(O.default_options, k, MISSING) for k in keys}


# ----------------------------------------------------------------------------- the case
Case = collections.namedtuple('Case', 'sub opts pos layout cfg date')
# opts: list of (flag, raw) in command-line order; pos: positional words; layout: how they are arranged;
# cfg: list of (section, key, value) in file order


def render_opt(rng, e, flag, raw):
    if e is not None and e['action'] != 'store':
        return [flag]
    if e is None and raw is None:
        return [flag]
    if raw.startswith('-') or rng.random() < 0.4:
        return ['%s=%s' % (flag, raw)]
    return [flag, raw]


def render_cfg(cfg):
    secs = collections.OrderedDict()
    for s, k, v in cfg:
        secs.setdefault(s, []).append((k, v))
    out = []
    for s, items in secs.items():
        out.append('[%s]' % s)
        for k, v in items:
            out.append('%s=%s' % (k, v))
    return '\n'.join(out) + '\n'


def cfg_in_file_order(cfg):
    """The entries in the order configparser yields them (sections grouped, first occurrence order)."""
    secs = collections.OrderedDict()
    for s, k, v in cfg:
        secs.setdefault(s, []).append((s, k, v))
    return [x for items in secs.values() for x in items]


def case_lit(case, outcome_lit, home=None):
    """home=None: the configuration file case.cfg is passed to parse(); else: it is discovered in `home`"""
    if home is None:
        src = '(inl %s)' % listlit(['(%s, %s, %s)' % (cs(s), cs(k), cs(v)) for s, k, v in case.cfg])
    else:
        src = '(inr %s)' % home_lit(home)
    return ('({| c_sub := %s; c_opts := %s; c_pos := %s |}, %s, %s, %s)'
            % (cs(case.sub), listlit(['(%s, %s)' % (cs(f), cs(r or '')) for f, r in case.opts]),
               listlit([cs(p) for p in case.pos]), src, cs(case.date), outcome_lit))


def outcome_lit(obs, keys):
    if obs[0] == 'arg-error':
        return 'OArgError'
    if obs[0] == 'coerce-error':
        return 'OCoerceError'
    if obs[0] == 'format-error':
        return 'OFormatError'
    return '(OOk %s %s)' % (listlit([cval(obs[1][k]) for k in keys]), listlit([cs(a) for a in obs[2]]))


# ----------------------------------------------------------------------------- the property, restated in Python
def py_new_name(section, key):
    if section == 'main':
        return key.replace('-', '_')
    return section.replace('-', '_') + '_' + key.replace('-', '_')


class Unconvertible(Exception):
    pass


def py_coerce(default, s):
    """The configuration string converted to the type of the default (specification)."""
    if default is MISSING or default is None:
        return s
    if isinstance(default, bool):
        return s.lower() not in FALSE_STRINGS
    if isinstance(default, int):
        try:
            return int(s)
        except ValueError:
            raise Unconvertible()
    if isinstance(default, str):
        return s
    raise Unconvertible()


TEMPLATE_TOKEN = re.compile(r'%%|%\(jugfile\)s|%\(date\)s|%|[^%]+')


def py_expand(template, stem, date):
    out = []
    for m in TEMPLATE_TOKEN.finditer(template):
        t = m.group(0)
        if t == '%%':
            out.append('%')
        elif t == '%(jugfile)s':
            out.append(stem)
        elif t == '%(date)s':
            out.append(date)
        elif t == '%':
            return None
        else:
            out.append(t)
    return ''.join(out)


def expected(case, tab, defaults, keys):
    """-> ('arg-error',) | ('coerce-error',) | ('format-error',) | ('ok', {key: value}, argv, {key: layer it came from})"""
    if case.sub not in tab['subcommands']:
        return ('arg-error',)
    entries = [e for e in tab['specific'] if e['sub'] == case.sub] + tab['common']
    byflag = {}
    for e in entries:
        for f in e['flags']:
            byflag.setdefault(f, e)
    given = {}
    seen = []
    for flag, raw in case.opts:
        e = byflag.get(flag)
        if e is None:
            return ('arg-error',)
        for e2 in seen:
            if e['mutex'] is not None and e2['mutex'] == e['mutex'] and e2 is not e:
                return ('arg-error',)
        seen.append(e)
        if e['action'] == 'store':
            if e['type'] == 'int':
                try:
                    given[e['dest']] = int(raw)
                except ValueError:
                    return ('arg-error',)
            else:
                given[e['dest']] = raw
        elif e['action'] == 'store_const':
            c = e['const']
            given[e['dest']] = None if c[0] == 'none' else c[1]
        elif e['action'] == 'store_true':
            given[e['dest']] = True
        elif e['action'] == 'store_false':
            given[e['dest']] = False
    for e in entries:
        if e['required'] and not any(e2 is e for e2 in seen):
            return ('arg-error',)
    if case.pos:
        given['jugfile'] = case.pos[0]
    extra = list(case.pos[1:])
    given[tab['subdest']] = case.sub
    cfgmap = {}
    for s, k, v in cfg_in_file_order(case.cfg):
        name = py_new_name(s, k)
        try:
            py_coerce(defaults.get(name, MISSING), v)
        except Unconvertible:
            return ('coerce-error',)
        cfgmap[name] = v
    exp, src = {}, {}
    for k in set(keys) | {'jugdir', 'jugfile'}:
        if k == 'user_args':                      # the positional remainder, not an option
            exp[k], src[k] = extra, 'command line'
        elif k in given:
            exp[k], src[k] = given[k], 'command line'
        elif k in cfgmap:
            exp[k], src[k] = py_coerce(defaults.get(k, MISSING), cfgmap[k]), 'configuration file'
        else:
            exp[k], src[k] = defaults.get(k, MISSING), 'default'
    if not isinstance(exp['jugdir'], str) or not isinstance(exp['jugfile'], str):
        return ('format-error',)
    jugfile = exp['jugfile']
    d = py_expand(exp['jugdir'], jugfile[:-3], case.date)
    if d is None:
        return ('format-error',)
    exp['jugdir'] = d
    return ('ok', {k: exp[k] for k in keys}, [jugfile] + extra, src,
            {'command line': {k: jval(v) for k, v in given.items()}, 'configuration file': cfgmap})


def same(a, b):
    return type(a) is type(b) and a == b if (a is not MISSING and b is not MISSING) else (a is b)


def compare(ck, case, args, obs, exp, keys, defaults, family, extra=None, hint=None):
    """Direct oracle.  Reports at most one violation per case; returns True when they agree.
    extra: more fields for the replay object; hint(option, expected, observed) -> a more specific `what` or None."""
    def report(what, option, e, o, layers=None):
        obj = {'kind': 'impl-violation', 'what': what, 'family': family, 'option': option,
               'args': args, 'config_text': render_cfg(case.cfg), 'date': case.date,
               'layers': layers, 'expected': jval(e), 'observed': jval(o),
               'how_to_run': 'bin/check C20 --replay <this file>'}
        obj.update(extra or {})
        ck.violation(obj)
        return False
    if obs[0] != exp[0]:
        return report('outcome class differs: expected %s, observed %s' % (exp[0], obs[0]), None, exp[0],
                      obs[0] if obs[0] != 'crash' else 'crash: ' + obs[1])
    if obs[0] != 'ok':
        return True
    for k in keys:
        e, o = exp[1][k], obs[1][k]
        if not same(e, o):
            lay = {'command line': exp[4]['command line'].get(k, '<absent>'),
                   'configuration file': exp[4]['configuration file'].get(k, '<absent>'),
                   'default': jval(defaults.get(k, MISSING)), 'expected value comes from': exp[3].get(k)}
            cfg_s = exp[4]['configuration file'].get(k)
            hinted = hint(k, e, o) if hint is not None else None
            if hinted:
                what = hinted
            elif k == 'jugdir':
                what = 'expanded jugdir differs'
            elif exp[3].get(k) == 'configuration file' and isinstance(e, bool) and o is bool(cfg_s):
                what = 'configuration boolean converted as bool(str), not as _str_to_bool'
            elif exp[3].get(k) == 'configuration file' and same(o, defaults.get(k, MISSING)):
                what = 'configuration file ignored although the option is absent from the command line'
            else:
                what = 'option value is not command line ?? coerce(configuration file) ?? default'
            return report(what, k, e, o, lay)
    if obs[2] != exp[2]:
        return report('sys.argv is not [jugfile] + extra arguments', 'sys.argv', exp[2], obs[2])
    return True


# ----------------------------------------------------------------------------- generators
INT_OK = ['0', '1', '7', '23', '150', ' 42 ', '+5', '-3', '1_000', '007']
INT_BAD = ['abc', '', '1.5', '1__0', '_1', '0x10', '--3', '5-']
CFG_INT_OK = ['0', '5', '23', '+7', '-2', '1_000', '007']
CFG_INT_BAD = ['abc', '', '1.5', 'off']
BOOL_STRINGS = ['off', '0', 'False', 'false', 'FALSE', 'Off', 'oFf', '', 'true', 'True', 'yes', 'on', '1', 'no', '2', 'ON']
GENERIC = ['x', '', 'a b', 'Task.name', 'off', '0', "it's", 'q"uote', '%(date)s', 'caf=e', 'info', '8081', '-lead']
JUGFILES = ['jugfile.py', 'proj.py', 'a.py', 'x', 'ab', 'abc', 'dir/jf.py', 'my jug.py', 'p.PY', 'j%s.py', 'q"f.py', 'primes.py']
EXTRA_PLAIN = ['a', 'b c', '1', 'k=v', 'out.txt', '']
EXTRA_ANY = EXTRA_PLAIN + ['--x', '-v', '--pdb', '--jugdir=zz', '-']
TPL_PIECES = ['jd', 'data/', '%(jugfile)s', '%(date)s', '%%', '.jugdata', 'x-', '(', ')s']
TPL_HEADS = ['redis://h:1/', 'redis:', 'dict_store', 'dict_store:', 'file_keepalive:', 'dict_stor', 'Redis:']
TPL_BAD_TAILS = ['%(nope)s', 'a%', '%(jugfile', '%(jugfile)d', '%(date)z', '%(jugfile)', '%(Date)s']
DATES = ['2026-09-27', '2024-02-29', '1999-12-31']
UNKNOWN_NAMES = ['unknown_key', 'weird_sec_some_key', 'jugdirx']


def gen_template(rng):
    parts = []
    if rng.random() < 0.3:
        parts.append(rng.choice(TPL_HEADS))
    for _ in range(rng.choice([0, 1, 1, 2, 3])):
        parts.append(rng.choice(TPL_PIECES))
    if rng.random() < 0.07:
        parts.append(rng.choice(TPL_BAD_TAILS))
    return ''.join(parts)


def cmd_value(rng, e):
    if e['type'] == 'int':
        return rng.choice(INT_BAD) if rng.random() < 0.04 else rng.choice(INT_OK)
    if e['dest'] == 'jugdir':
        return gen_template(rng)
    if e['dest'] == 'verbose':
        return rng.choice(['info', 'debug', 'INFO', 'quiet', 'x', ''])
    return rng.choice(GENERIC)


def cfg_value(rng, name, default):
    if isinstance(default, bool):
        return rng.choice(BOOL_STRINGS)
    if isinstance(default, int):
        return rng.choice(CFG_INT_BAD) if rng.random() < 0.05 else rng.choice(CFG_INT_OK)
    if name == 'jugdir':
        return gen_template(rng)
    if name == 'jugfile':
        return rng.choice(JUGFILES)
    if name == 'verbose':
        return rng.choice(['info', 'DEBUG', 'quiet', 'zz'])
    return rng.choice([g for g in GENERIC if g == g.strip()])


def cfg_spelling(rng, name):
    """A (section, key) that read_configuration_file maps to `name`."""
    def dash(s):
        return ''.join('-' if (ch == '_' and rng.random() < 0.5) else ch for ch in s)
    cuts = [i for i, ch in enumerate(name) if ch == '_' and 0 < i < len(name) - 1]
    if cuts and rng.random() < 0.6:
        i = rng.choice(cuts)
        sec, key = name[:i], name[i + 1:]
        if sec.replace('-', '_') != 'main' and not sec.startswith('_') and sec.upper() != 'DEFAULT':
            return dash(sec) if not dash(sec).startswith('-') else sec, dash(key)
    return 'main', dash(name)


class Gen:
    def __init__(self, ck, tab, loaded):
        self.rng = ck.rng
        self.tab = tab
        self.subs = loaded
        self.optmap = {}
        for sub in tab['subcommands']:
            for e in [e for e in tab['specific'] if e['sub'] == sub] + tab['common']:
                for f in e['flags']:
                    self.optmap.setdefault((sub, f), e)
        self.all_flags = sorted({f for e in tab['specific'] + tab['common'] for f in e['flags']})
        names = [k for k, _ in tab['main_defaults']] + [k for k, _ in tab['sub_defaults']] \
            + [e['dest'] for e in tab['specific'] + tab['common']]
        self.names = sorted({n for n in names if n not in RESERVED and n == n.lower()})

    def entries(self, sub):
        return [e for e in self.tab['specific'] if e['sub'] == sub] + self.tab['common']

    def some_config(self, defaults, n=None):
        rng = self.rng
        if n is None:
            n = rng.choice([0, 0, 1, 2, 3, 5, 8])
        cfg, used = [], set()
        for _ in range(n):
            r = rng.random()
            if r < 0.06:
                name = rng.choice(UNKNOWN_NAMES)
            elif r < 0.08:
                name = 'print_out'
            else:
                name = rng.choice([x for x in self.names if x != 'print_out'])
            sec, key = cfg_spelling(rng, name)
            if (sec, key) in used or not key or key[0] in '#;[' or key != key.lower():
                continue
            used.add((sec, key))
            cfg.append((sec, key, cfg_value(rng, name, defaults.get(name, MISSING))))
        return cfg_in_file_order(cfg)

    def some_opts(self, sub):
        rng = self.rng
        optionals = [e for e in self.entries(sub) if e['flags']]
        p = rng.choice([0.0, 0.1, 0.25, 0.5, 0.9])
        chosen = []
        for e in optionals:
            if rng.random() < p or (e['required'] and rng.random() < 0.93):
                chosen.append(e)
                if rng.random() < 0.07:
                    chosen.append(e)
        if rng.random() < 0.9:          # mostly respect mutually exclusive groups
            seen, kept = {}, []
            for e in chosen:
                if e['mutex'] is not None and seen.setdefault(e['mutex'], e) is not e:
                    continue
                kept.append(e)
            chosen = kept
        rng.shuffle(chosen)
        opts = [(rng.choice(e['flags']), cmd_value(rng, e) if e['action'] == 'store' else '') for e in chosen]
        if rng.random() < 0.03:         # an option this subcommand does not have
            mine = [f for e in optionals for f in e['flags']]
            foreign = [f for f in self.all_flags + ['--no-such-option'] if not any(m.startswith(f) for m in mine)]
            if foreign:
                opts.insert(rng.randrange(len(opts) + 1), (rng.choice(foreign), ''))
        return opts

    def some_pos(self):
        rng = self.rng
        r = rng.random()
        if r < 0.3:
            return [], ('plain', None)
        jf = rng.choice(JUGFILES)
        if r < 0.65:
            extras = [rng.choice(EXTRA_PLAIN) for _ in range(rng.choice([0, 0, 1, 2, 3]))]
            return [jf] + extras, ('plain', None)
        extras = [rng.choice(EXTRA_ANY) for _ in range(rng.choice([0, 1, 2, 3]))]
        if r < 0.85:
            return [jf] + extras, ('dashdash-first', None)
        plain = [rng.choice(EXTRA_PLAIN) for _ in range(rng.choice([0, 1, 2]))]
        return [jf] + plain + extras, ('dashdash-mid', 1 + len(plain))

    def case(self, defaults):
        rng = self.rng
        sub = rng.choice(self.subs) if rng.random() > 0.01 else 'nosuch'
        opts = self.some_opts(sub) if sub != 'nosuch' else []
        pos, layout = self.some_pos()
        return Case(sub, opts, pos, layout, self.some_config(defaults), rng.choice(DATES))

    def argv(self, case):
        """Arrange the case as a command line, only in shapes whose reading is unambiguous:
             sub [opts] [pos...] [opts]            (no positional word starts with '-')
             sub [opts] -- pos...
             sub [opts] jugfile plain... -- rest..."""
        rng = self.rng
        toks = [render_opt(rng, self.optmap.get((case.sub, f)), f, r) for f, r in case.opts]
        kind, k = case.layout
        if kind == 'plain':
            cut = rng.randrange(len(toks) + 1) if case.pos else len(toks)
            if any(p.startswith('-') for p in case.pos):
                raise AssertionError('plain layout with a dash-leading positional')
            # the order of c_opts is the left-to-right order: options before the positionals first
            return [case.sub] + [t for ts in toks[:cut] for t in ts] + list(case.pos) + [t for ts in toks[cut:] for t in ts]
        flat = [t for ts in toks for t in ts]
        if kind == 'dashdash-first':
            return [case.sub] + flat + ['--'] + list(case.pos)
        if kind == 'dashdash-mid':
            return [case.sub] + flat + list(case.pos[:k]) + ['--'] + list(case.pos[k:])
        raise ValueError(kind)


# ----------------------------------------------------------------------------- backends.select
@contextlib.contextmanager
def patched_select():
    """Record which constructor backends.select picks, without creating a store."""
    class R:
        redis_store = staticmethod(lambda url: ('BRedis', url))

    class F:
        file_store = staticmethod(lambda p: ('BFile', p))
        file_keepalive_store = staticmethod(lambda p: ('BFileKeepalive', p))

    def d(*a):
        return ('BDictFile', a[0]) if a else ('BDict',)
    saved = (SEL.redis_store, SEL.file_store, SEL.dict_store)
    SEL.redis_store, SEL.file_store, SEL.dict_store = R, F, d
    try:
        yield
    finally:
        SEL.redis_store, SEL.file_store, SEL.dict_store = saved


def backend_lit(b):
    return b[0] if len(b) == 1 else '(%s %s)' % (b[0], cs(b[1]))


def py_backend(s):
    if s.startswith('redis:'):
        return ('BRedis', s)
    if s == 'dict_store':
        return ('BDict',)
    if s.startswith('dict_store:'):
        return ('BDictFile', s[len('dict_store:'):])
    if s.startswith('file_keepalive:'):
        return ('BFileKeepalive', s[len('file_keepalive:'):])
    return ('BFile', s)


# ----------------------------------------------------------------------------- discovery: parse() without an options file
# the documented candidates, newest location first (docs/source/configuration.rst, docs/source/history.rst)
SPEC_CANDIDATES = ['~/.config/jug/jugrc', '~/.config/jugrc', '~/.jug/configrc']


class Other:
    """An attribute value that is neither None/bool/int/str/list of str, seen through its name only."""
    def __init__(self, name):
        self.__name__ = name

    def __eq__(self, o):
        return isinstance(o, Other) and o.__name__ == self.__name__

    def __hash__(self):
        return hash(self.__name__)


def canon(v):
    if v is MISSING or v is None or isinstance(v, (bool, int, str)):
        return v
    if isinstance(v, list) and all(isinstance(x, str) for x in v):
        return v
    return Other(getattr(v, '__name__', type(v).__name__))


def dec(e):
    tag = e[0]
    if tag == 'missing':
        return MISSING
    if tag == 'none':
        return None
    if tag == 'other':
        return Other(e[1])
    return e[1]


# Runs in a brand-new interpreter (as the `jug` command does): nothing of jug is imported before, no subcommand module is
# loaded when the first parse() starts, HOME is the scratch home of the first case already in the environment.
CHILD = r"""
import sys, os, json, io, contextlib, traceback, logging, datetime as _dt
job = json.load(sys.stdin)
sys.path.insert(0, job['repo'])
import jug.options as O
if not os.path.abspath(O.__file__).startswith(os.path.abspath(job['repo']) + os.sep):
    raise SystemExit('jug imported from %s, not from %s' % (O.__file__, job['repo']))
MISSING = object()
class FakeDatetime:
    def __init__(self, date):
        self._d = _dt.datetime.strptime(date, '%Y-%m-%d')
    def now(self):
        return self._d
def enc(v):
    if v is MISSING:
        return ['missing']
    if v is None:
        return ['none']
    if isinstance(v, bool):
        return ['bool', v]
    if isinstance(v, int):
        return ['int', v]
    if isinstance(v, str):
        return ['str', v]
    if isinstance(v, list) and all(isinstance(x, str) for x in v):
        return ['list', v]
    return ['other', getattr(v, '__name__', type(v).__name__)]
def frame(exc):
    name = None
    for fr in traceback.extract_tb(exc.__traceback__):
        if fr.filename.replace('\\', '/').endswith('jug/options.py'):
            name = fr.name
    return name
res = []
for i, case in enumerate(job['cases']):
    os.environ['HOME'] = case['home']
    loaded_before = sorted(m for m in sys.modules if m.startswith('jug.subcommands.'))
    root = logging.getLogger()
    saved = (sys.argv[:], root.level, O.datetime)
    O.datetime = FakeDatetime(case['date'])
    try:
        try:
            with contextlib.redirect_stdout(io.StringIO()), contextlib.redirect_stderr(io.StringIO()):
                opts = O.parse(list(case['args']))
                attrs = {k: enc(getattr(opts, k, MISSING)) for k in job['keys']}
            r = {'outcome': 'ok', 'attrs': attrs, 'argv': list(sys.argv)}
        except SystemExit:
            r = {'outcome': 'arg-error'}
        except (ValueError, TypeError, KeyError) as e:
            where = frame(e)
            if where == 'read_configuration_file':
                r = {'outcome': 'coerce-error'}
            elif where == 'parse':
                r = {'outcome': 'format-error'}
            else:
                r = {'outcome': 'crash', 'error': '%s: %s (in %s)' % (type(e).__name__, e, where)}
        except Exception as e:
            r = {'outcome': 'crash', 'error': '%s: %s' % (type(e).__name__, e)}
    finally:
        sys.argv[:] = saved[0]
        root.level = saved[1]
        O.datetime = saved[2]
    r['first_parse'] = (i == 0 and not loaded_before)
    res.append(r)
sys.__stdout__.write('RESULT ' + json.dumps(res) + '\n')
"""


def write_home(home_dir, home):
    """home: {'~/rel/path': ('file', [(section, key, value)...]) | ('text', content) | ('dir',)}; anything not listed
    does not exist."""
    os.makedirs(home_dir)
    for path, what in home.items():
        if not path.startswith('~/'):
            raise ValueError(path)
        fname = os.path.join(home_dir, *path[2:].split('/'))
        os.makedirs(os.path.dirname(fname), exist_ok=True)
        if what[0] == 'dir':
            os.makedirs(fname)
        else:
            with open(fname, 'w') as f:
                f.write(what[1] if what[0] == 'text' else render_cfg(what[1]))


def run_child(cases, keys):
    """cases: [{'home': dir, 'args': [...], 'date': ...}] -> [observation] in one fresh interpreter, or an error string."""
    env = dict(os.environ)
    env['HOME'] = cases[0]['home']
    job = json.dumps({'repo': core.REPO, 'keys': keys, 'cases': cases})
    last = 'not run'
    for _ in range(2):                       # a loaded machine must not look like a violation: one retry
        try:
            p = subprocess.run([sys.executable, '-c', CHILD], input=job, env=env, stdout=subprocess.PIPE,
                               stderr=subprocess.PIPE, universal_newlines=True, timeout=300, cwd=cases[0]['home'])
        except subprocess.TimeoutExpired:
            last = 'timeout'
            continue
        for line in p.stdout.splitlines():
            if line.startswith('RESULT '):
                return [obs_of(r) for r in json.loads(line[7:])]
        last = 'exit %s: %s' % (p.returncode, p.stderr.strip()[-400:])
    return last


def obs_of(r):
    """child record -> the same tuple run_real returns (+ 'crash'), with the first-parse flag"""
    if r['outcome'] == 'ok':
        return ('ok', {k: dec(v) for k, v in r['attrs'].items()}, r['argv']), r['first_parse']
    if r['outcome'] == 'crash':
        return ('crash', r['error']), r['first_parse']
    return (r['outcome'],), r['first_parse']


def home_json(home):
    return {p: ('<directory>' if w[0] == 'dir' else render_cfg(w[1])) for p, w in home.items()}


def home_lit(home):
    def cand(w):
        if w[0] == 'dir':
            return 'CUnreadable'
        return '(CFile %s)' % listlit(['(%s, %s, %s)' % (cs(s), cs(k), cs(v)) for s, k, v in w[1]])
    return listlit(['(%s, %s)' % (cs(p), cand(w)) for p, w in home.items()])


def discovered(home, candidates):
    """-> (path of the first existing candidate or None, the entries of THE configuration file, decided)
    decided=False: the first existing candidate cannot be opened - what then is the code's choice (no configuration),
    the property does not say; such cases are compared with the model only."""
    for p in candidates:
        if p in home:
            if home[p][0] == 'dir':
                return p, [], False
            return p, list(home[p][1]), True
    return None, [], True


def merge_cfg(*parts):
    """Entries of several generated lists as ONE file: no (section, key) twice (configparser is strict)."""
    out, used = [], set()
    for part in parts:
        for s_, k, v in part:
            if (s_, k) in used:
                continue
            used.add((s_, k))
            out.append((s_, k, v))
    return cfg_in_file_order(out)


def some_home(g, defaults, candidates):
    """What lies at each candidate path: nothing / a directory / a file.  The files of one home draw from a common
    pool of option names (overlapping settings, independent values and spellings) plus settings of their own."""
    rng = g.rng
    plain = [n for n in g.names if n != 'print_out']
    pool = [rng.choice(plain) for _ in range(rng.choice([1, 2, 3, 4, 6]))]
    for n in ('jugdir', 'jugfile'):
        if rng.random() < 0.5:
            pool.append(n)
    p_absent = rng.choice([0.15, 0.35, 0.35, 0.6])
    home, first_seen = {}, False
    for p in candidates:
        r = rng.random()
        if r < p_absent:
            continue
        if r < p_absent + 0.05:
            home[p] = ('dir',)
            first_seen = True
            continue
        shared = []
        for name in pool:
            if rng.random() < 0.65:
                sec, key = cfg_spelling(rng, name)
                if key and key[0] not in '#;[' and key == key.lower():
                    shared.append((sec, key, cfg_value(rng, name, defaults.get(name, MISSING))))
        own = g.some_config(defaults, n=rng.choice([0, 0, 1, 2, 4])) if rng.random() < 0.8 else []
        poison = []
        if first_seen and rng.random() < 0.25:
            # a file that must not be read at all may hold anything, e.g. a value that cannot be converted
            ints = [n for n in plain if isinstance(defaults.get(n, MISSING), int) and not isinstance(defaults.get(n), bool)]
            if ints:
                poison = [cfg_spelling(rng, rng.choice(ints)) + (rng.choice(CFG_INT_BAD),)]
        parts = [shared, own, poison]
        rng.shuffle(parts)
        home[p] = ('file', merge_cfg(*parts))
        first_seen = True
    items = list(home.items())
    rng.shuffle(items)
    return collections.OrderedDict(items)


SYS_CONFIGS = [        # overlapping (jugdir, nr-wait-cycles, will-cite, jugfile) and disjoint settings, booleans in several spellings
    [('main', 'jugdir', 'A.%(jugfile)s.store'), ('main', 'will-cite', 'on'), ('execute', 'nr-wait-cycles', '5'),
     ('execute', 'keep-going', 'off')],
    [('main', 'jugdir', 'B-store'), ('main', 'short', 'yes'), ('main', 'jugfile', 'b.py'), ('execute', 'nr_wait_cycles', '7'),
     ('execute', 'wait-cycle-time', '3'), ('main', 'will_cite', 'False')],
    [('main', 'jugdir', 'C-%(date)s'), ('main', 'jugfile', 'old.py'), ('main', 'pdb', 'TRUE'), ('main', 'will-cite', '0'),
     ('execute', 'nr-wait-cycles', '99'), ('execute', 'keep-going', 'true'), ('cleanup', 'keep-locks', '1'),
     ('status', 'cache', 'off'), ('main', 'verbose', 'info')],
    [('main', 'jugdir', 'D'), ('main', 'debug', '1'), ('execute', 'keep-failed', 'On')],
]


class DiscoveryRun:
    """Generates the discovery cases, builds their scratch homes and starts the fresh interpreters in the background
    (they run while the in-process families are computed); gather() waits for them and removes the scratch homes."""

    def __init__(self, ck, g, tab, defaults, keys):
        # candidate paths: the documented ones and whatever the source names (the model follows the source's list, the
        # restated property the documented one; they are proved equal - C20_generated_rc_candidates)
        src_candidates = list(tab.get('rc_candidates') or [])
        paths = SPEC_CANDIDATES + [p for p in src_candidates if p not in SPEC_CANDIDATES]
        self.waited = None
        self.stack = contextlib.ExitStack()
        atexit.register(self.stack.close)          # nothing stays behind even if the check dies before gather()
        scratch = self.stack.enter_context(jugrun.scratch_dir('jugv_c20_home'))
        batches = []            # one batch = one fresh interpreter: [(case, args, home)]
        # systematic: every subset of the candidate files (each file different), command line with/without overrides
        over = [(f, r) for f, r in [('--jugdir', 'cli-%(jugfile)s'), ('--nr-wait-cycles', '0'), ('--will-cite', '')]
                if ('execute', f) in g.optmap]
        subsets = [[p for j, p in enumerate(paths) if (m >> j) & 1] for m in range(2 ** len(paths))]
        if len(subsets) > 16:
            subsets = [subsets[0], subsets[-1]] + ck.rng.sample(subsets[1:-1], 14)
        for si, present in enumerate(subsets):
            home = collections.OrderedDict((p, ('file', cfg_in_file_order(SYS_CONFIGS[paths.index(p) % len(SYS_CONFIGS)])))
                                           for p in reversed(present))
            variants = [Case('execute', [], [], ('plain', None), None, DATES[0]),
                        Case('execute', over, ['proj.py'], ('plain', None), None, DATES[1]),
                        Case('status' if 'status' in g.subs else g.subs[0], [], ['proj.py', 'extra'], ('plain', None), None, DATES[0])]
            variants = [c for c in variants if c.sub in g.subs]
            variants = variants[si % len(variants):] + variants[:si % len(variants)]
            batches.append(('discovery-systematic', [(c, g.argv(c), home) for c in variants]))
        # random
        n_children, per_child = ck.n(24, 300), 10
        for _ in range(n_children):
            batch = []
            for j in range(per_child):
                home = some_home(g, defaults, paths)
                if j == 0 and not any(w[0] == 'file' and len(w[1]) >= 2 for w in home.values()):
                    home = some_home(g, defaults, paths)       # the first parse of a process should have something to read
                c = g.case(defaults)
                batch.append((c._replace(cfg=None), g.argv(c), home))
            batches.append(('discovery', batch))
        jobs = []
        for bi, (family, batch) in enumerate(batches):
            cases = []
            for ci, (c, args, home) in enumerate(batch):
                hd = os.path.join(scratch, 'b%03d' % bi, 'h%02d' % ci)
                write_home(hd, home)
                cases.append({'home': hd, 'args': args, 'date': c.date})
            jobs.append(cases)
        self.batches = batches
        self.pool = ThreadPoolExecutor(max_workers=max(2, min(6, core.NPROC // 2)))
        self.futures = [self.pool.submit(run_child, cases, keys) for cases in jobs]

    def gather(self):
        t0 = time.time()
        try:
            results = [f.result() for f in self.futures]
        finally:
            self.pool.shutdown()
            self.stack.close()
        self.waited = round(time.time() - t0, 1)
        return self.batches, results


# ----------------------------------------------------------------------------- the check
# a case names its configuration either directly (inl: the entries of the options file passed to parse) or as a home
# directory in which parse() has to find it (inr: what lies at each candidate path)
CHK = ('fun x => match x with (c, src, date, obs) => outcome_eqb (match src with '
       'inl cfg => run table c cfg date obs_keys | inr h => run_home table c rc_candidates h date obs_keys end) obs end')
IMPORTS = 'From JugV Require Import Model.Options Gen.OptionTable.\nLocal Open Scope string_scope.'
CASE_TYPE = 'cmdline * (config + home) * string * outcome'


# ----------------------------------------------------------------------------- which string each COMMAND hands to backends.select
WIRING_CHILD = r"""
import sys, json, os
job = json.loads(sys.stdin.read())
sys.path.insert(0, job['repo'])
import jug.backends as B
from jug.jug import main
orig = B.select
seen = []
def sel(jugdir, *a, **k):
    seen.append(jugdir)
    return orig('dict_store')
B.select = sel
for m in list(sys.modules.values()):
    if m is not None and getattr(m, '__name__', '').split('.')[0] == 'jug':
        for k, v in list(vars(m).items()):
            if v is orig:
                setattr(m, k, sel)
err = None
devnull = open(os.devnull, 'w')
out, sys.stdout, sys.stderr = sys.stdout, devnull, devnull
try:
    main(['jug'] + job['argv'])
except BaseException as e:
    err = type(e).__name__
out.write('RESULT ' + json.dumps({'select': [x if isinstance(x, str) else repr(x) for x in seen], 'err': err}) + '\n')
out.flush()
os._exit(0)
"""
WIRING_SUBCOMMANDS = [('execute', []), ('status', []), ('check', []), ('sleep-until', []), ('cleanup', []),
                      ('cleanup', ['--locks-only']), ('invalidate', ['--target', 'nothing']), ('pack', []), ('graph', []),
                      ('status', ['--cache'])]
WIRING_TEMPLATES = ['wdata', '~/wstore', 'w.%(jugfile)s.d', '~', './w//x', 'dict_store:~/w.pkl', '$HOME/w', 'w/../w2']


def command_wiring(ck):
    """options.parse resolves ONE jugdir string; whichever command runs must open the store backends.select picks for THAT
    string - execute/status (which open the store themselves) and the commands jug.main opens it for alike.  The real
    `jug <sub>` entry point is run in a fresh interpreter per case (scratch HOME and cwd, jugfile without tasks) with
    backends.select recording its argument (an in-memory store is handed back)."""
    with jugrun.scratch_dir('jugv_c20w') as root:
        return _command_wiring(ck, root)


def _command_wiring(ck, root, only=None):
    home = os.path.join(root, 'home')
    os.makedirs(home)
    with open(os.path.join(root, 'wj.py'), 'w') as f:
        f.write('x = 1\n')
    jobs = []
    for tpl in WIRING_TEMPLATES:
        for where in ('cli', 'rc'):
            for sub, extra in WIRING_SUBCOMMANDS:
                jobs.append((tpl, where, sub, extra))
    if only is not None:                                 # replay: every command form for one (spelling, where)
        jobs = [j for j in jobs if (j[0], j[1]) == tuple(only)]
    rcdir = os.path.join(root, 'homes')
    for n, tpl in enumerate(WIRING_TEMPLATES):           # written before any child starts
        os.makedirs(os.path.join(rcdir, '%d' % n, '.config', 'jug'))
        with open(os.path.join(rcdir, '%d' % n, '.config', 'jug', 'jugrc'), 'w') as f:
            f.write('[main]\njugdir = %s\n' % tpl)

    def one(job):
        tpl, where, sub, extra = job
        h = home
        argv = [sub, 'wj.py'] + extra + ['--will-cite']
        if where == 'cli':
            argv.append('--jugdir=' + tpl)
        else:
            h = os.path.join(rcdir, '%d' % WIRING_TEMPLATES.index(tpl))
        env = dict(os.environ)
        env['HOME'] = h
        env.pop('JUG_MAX_TASKS', None)
        last = 'not run'
        for _ in range(2):
            try:
                p = subprocess.run([sys.executable, '-c', WIRING_CHILD], input=json.dumps({'repo': core.REPO, 'argv': argv}),
                                   env=env, stdout=subprocess.PIPE, stderr=subprocess.PIPE, universal_newlines=True,
                                   timeout=120, cwd=root)
            except subprocess.TimeoutExpired:
                last = 'timeout'
                continue
            for line in p.stdout.splitlines():
                if line.startswith('RESULT '):
                    return json.loads(line[7:])
            last = 'exit %s: %s' % (p.returncode, p.stderr.strip()[-300:])
        return last

    with ThreadPoolExecutor(max_workers=8) as ex:
        results = list(ex.map(one, jobs))
    opened, failed = 0, []
    groups = collections.OrderedDict()
    for (tpl, where, sub, extra), r in zip(jobs, results):
        if not isinstance(r, dict):
            failed.append('%s %s: %s' % (sub, tpl, r))
            continue
        ck.count('wiring:%s:%s' % (where, 'store opened' if r['select'] else 'no store opened (%s)' % r['err']))
        if not r['select']:
            continue
        opened += 1
        ck.distinct(('wiring', tpl, where, sub, tuple(extra)), True)
        groups.setdefault((tpl, where), []).append((sub, extra, r['select']))
    for (tpl, where), rows in groups.items():
        # the property: every command the same way.  The reference is what most commands do (what parse() resolved, on the
        # unchanged code: py_expand); a command that hands backends.select anything else opens another store.
        seen = collections.Counter(x for _, _, sel in rows for x in set(sel))
        ref = seen.most_common(1)[0][0]
        for sub, extra, sel in rows:
            if any(x != ref for x in sel):
                ck.violation({'kind': 'impl-violation',
                              'what': 'a command opens another store than the other commands do for the same options',
                              'subcommand': sub, 'extra_args': extra, 'jugdir_given': tpl, 'given_in': where,
                              'argument_of_backends_select_in_most_commands': ref,
                              'expected_argument_of_backends_select': py_expand(tpl, 'wj', 'DATE'),
                              'observed_arguments_of_backends_select': sel, 'wiring': True})
    if only is not None:
        return [(j[2], j[3], r['select'] if isinstance(r, dict) else r) for j, r in zip(jobs, results)]
    if failed:
        ck.notes.append('C20 command wiring: %d of %d children did not report: %s' % (len(failed), len(jobs), '; '.join(failed[:3])))
    if len(failed) * 10 > len(jobs) or opened < len(jobs) // 2:
        ck.broken.append('C20 command wiring: only %d of %d commands opened a store (%d children did not report)'
                         % (opened, len(jobs), len(failed)))


def setup(ck, lenient=False):
    tab = TR.table(lenient=lenient)
    cmdapi._commands.load_commands()
    loaded = sorted(cmdapi._commands)
    subs = [s for s in tab['subcommands'] if s in loaded]
    missing = [s for s in tab['subcommands'] if s not in loaded]
    dead = set()
    if missing:
        # e.g. an optional package is not installed: the subcommand and the defaults it registers do not exist
        # at run time.  It is skipped (recorded), and the option names only it knows are left alone.
        ck.notes.append('subcommands declared in the source that did not load here (skipped): %s' % missing)
        ck.count('skipped-subcommands', len(missing))
        for m in missing:
            dead |= set(tab['defaults_of'].get(m, []))
            dead |= {e['dest'] for e in tab['specific'] if e['sub'] == m}
    extra = [s for s in loaded if s not in tab['subcommands']]
    if extra:
        ck.notes.append('subcommands loaded from outside jug/subcommands (ignored): %s' % extra)
    g = Gen(ck, tab, subs)
    g.names = [n for n in g.names if n not in dead]
    keys = sorted(set(g.names) | {tab['subdest'], 'user_args'} | set(UNKNOWN_NAMES))
    return tab, g, keys


def run(ck):
    proved = ck.prove()
    # the model and the generated table are needed for the tie even when a proof broke
    rc, out = core.make(['Gen/OptionTable.vo'])
    coq_ok = rc == 0
    if not coq_ok:
        ck.broken.append('Gen/OptionTable.v does not compile: ' + out[-400:].replace('\n', ' | '))
    ck.trusted_base = core.DEFAULT_TRUSTED_BASE + [
        'C20: argparse itself (how a token list is split into options and positional words) is outside the model; the harness '
        'renders each structured command line only in shapes whose reading is unambiguous and the outcome is compared',
        'C20: configparser (file syntax, lower-casing of keys, strict duplicates) is outside the model',
        'C20: harness/translate_c20.py (ast extractor of the option table and of the candidate rc paths, fail closed)',
        'C20: os.path.expanduser / os.path.exists / open (how "~" and HOME name a file) are outside the model; the harness '
        'builds real scratch HOME directories and parses in fresh interpreters',
    ]
    ck.assumptions = ['strings are printable ASCII; %-formatting is modelled for literal text, %% and %(key)s only',
                      'argparse prefix abbreviations of option names and -h/--help are not modelled (not generated)']
    try:
        tab, g, keys = setup(ck)
    except TR.TranslateError as e:
        # the strict translation failed (already recorded by prove()): the Coq tie cannot run, but the search for a
        # concrete failing input can - with the option table extracted leniently and the harness's own restatement
        # of the precedence rule as oracle (DESIGN.md 1.4 step 4)
        coq_ok = False
        try:
            tab, g, keys = setup(ck, lenient=True)
        except TR.TranslateError as e2:
            ck.broken.append('option table cannot be extracted even leniently: %s' % e2)
            return
    for a in tab.get('assumed') or []:
        # a shape of jug/options.py the translator does not recognise is not a failure by itself: the table was generated
        # with the SPECIFIED shape and every differential case below (model in coqc and restated property, on the real code)
        # decides whether the code has it - a disagreement is reported as usual
        ck.obligations.append({'name': 'translator: a shape of jug/options.py is not recognised; the specified one is assumed '
                                       'and the differential cases decide', 'kind': 'translator', 'ok': 'lenient', 'msg': a})
        ck.notes.append('translator (lenient): ' + a)
        ck.assumptions.append('NOT read from the source in this run (shape not recognised), assumed as specified and tested by '
                              'every correspondence case: ' + a)
        ck.count('translator-shapes-assumed')
    defaults = live_defaults(keys)
    preamble = 'Definition obs_keys : list string := %s.' % listlit([cs(k) for k in keys])
    lits, metas = [], []

    def one(case, family, args=None):
        if args is None:
            args = g.argv(case)
        obs = run_real(args, render_cfg(case.cfg), case.date, keys)
        exp = expected(case, tab, defaults, keys)
        agree = compare(ck, case, args, obs, exp, keys, defaults, family)
        ck.count('%s:%s' % (family, obs[0]))
        if obs[0] == 'crash':           # reported by compare(); nothing the model could be asked about
            return obs, agree
        lits.append(case_lit(case, outcome_lit(obs, keys)))
        metas.append({'family': family, 'args': args, 'config_text': render_cfg(case.cfg), 'date': case.date,
                      'observed': obs[0] if obs[0] != 'ok' else {'argv': obs[2],
                                                                 'attrs': {k: jval(v) for k, v in obs[1].items()}}})
        ck.distinct((case.sub, tuple(case.opts), tuple(case.pos), tuple(case.cfg), case.date, case.layout),
                    bool(case.opts or case.cfg))
        return obs, agree

    # (d) is prepared first: its fresh interpreters run in the background while (a)-(c) are computed in this process
    disc = DiscoveryRun(ck, g, tab, defaults, keys)
    cdefaults = {k: canon(v) for k, v in defaults.items()}

    # ------------------------------------------------------------ (a) systematic: every option x every layer combination
    entries_by_dest = collections.OrderedDict()
    for e in tab['specific'] + tab['common']:
        entries_by_dest.setdefault(e['dest'], e)
    required_for = {sub: [(e['flags'][0], 'tgt') for e in g.entries(sub) if e['required'] and e['flags']] for sub in g.subs}
    for name in g.names:
        d = defaults.get(name, MISSING)
        e = entries_by_dest.get(name)
        if e is not None and e['flags']:
            sub = e['sub'] or 'execute'
        else:
            sub = 'status' if 'status' in g.subs else g.subs[0]
        if sub not in g.subs:
            continue
        if isinstance(d, bool):
            cfg_values = ['off', '0', 'False', '', 'on', 'yes']
        elif isinstance(d, int):
            cfg_values = ['23', '-2', 'abc']
        elif name == 'jugdir':
            cfg_values = ['%(date)s-%(jugfile)s', 'dict_store']
        elif name == 'print_out':
            cfg_values = ['x']
        else:
            cfg_values = ['x', '']
        if name == 'jugfile':
            cmd_variants = [([], []), ([], ['given.py'])]
        elif e is not None and e['flags']:
            raw = ('7' if e['type'] == 'int' else 'cmd') if e['action'] == 'store' else ''
            cmd_variants = [([], []), ([(e['flags'][-1], raw)], [])]
        else:
            cmd_variants = [([], [])]
        for opts, pos in cmd_variants:
            for v in [None] + cfg_values:
                base = [o for o in required_for.get(sub, []) if not any(o[0] == f for f, _ in opts)]
                cfg = []
                if v is not None:
                    sec, key = ('main', name) if ck.rng.random() < 0.5 else cfg_spelling(ck.rng, name)
                    cfg = [(sec, key, v)]
                one(Case(sub, base + opts, pos, ('plain', None), cfg, DATES[0]), 'systematic')
                ck.count('systematic-layers:cmd=%d,cfg=%d' % (bool(opts or pos), v is not None))
    # the documented example of docs/source/configuration.rst
    one(Case('status', [], [], ('plain', None), [('status', 'cache', 'off')], DATES[0]), 'systematic')

    # ------------------------------------------------------------ (b) random cases
    n_random = ck.n(1500, 30000)
    for i in range(n_random):
        case = g.case(defaults)
        obs, _ = one(case, 'random')
        if i % 211 == 0 and obs[0] == 'ok':
            ck.sample(metas[-1], limit=4)

    # ------------------------------------------------------------ (c) the same project from every subcommand
    n_loc = ck.n(30, 300)
    loc_cases = []
    for i in range(n_loc):
        cfg = g.some_config(defaults, n=ck.rng.choice([0, 1, 2, 4]))
        if ck.rng.random() < 0.5:
            cfg = cfg_in_file_order(cfg + [('main', 'jugdir', gen_template(ck.rng))]) \
                if not any(py_new_name(s, k) == 'jugdir' for s, k, _ in cfg) else cfg
        jd = [('--jugdir', gen_template(ck.rng))] if ck.rng.random() < 0.5 else []
        pos = [ck.rng.choice(JUGFILES)] if ck.rng.random() < 0.6 else []
        date = ck.rng.choice(DATES)
        seen = {}
        for sub in g.subs:
            own = [o for o in g.some_opts(sub) if g.optmap.get((sub, o[0])) is not None
                   and g.optmap[(sub, o[0])]['dest'] not in ('jugdir',) and g.optmap[(sub, o[0])]['type'] != 'int']
            own = [o for o in own if g.optmap[(sub, o[0])]['mutex'] is None]
            own += [o for o in required_for[sub] if not any(o[0] == f for f, _ in own)]
            extras = [ck.rng.choice(EXTRA_PLAIN) for _ in range(ck.rng.choice([0, 1]))] if pos else []
            case = Case(sub, own + jd, pos + extras, ('plain', None), cfg, date)
            args = g.argv(case)
            obs, _ = one(case, 'same-project', args)
            with patched_select():
                loc = (obs[0],) if obs[0] != 'ok' else (obs[1]['jugdir'], SEL.select(obs[1]['jugdir']))
            seen.setdefault(loc, []).append((sub, args))
            if obs[0] == 'ok':
                loc_cases.append(loc)
        if len(seen) != 1:
            ck.violation({'kind': 'impl-violation', 'what': 'subcommands of one project address different stores',
                          'config_text': render_cfg(cfg), 'date': date,
                          'locations': [{'location': repr(k), 'commands': v[:3]} for k, v in seen.items()]})
            ck.count('same-project:DIFFERENT')
        else:
            k = next(iter(seen))
            ck.count('same-project:%s' % (k[0] if len(k) == 1 else 'one-location'))

    # ------------------------------------------------------------ (d) the configuration file is DISCOVERED (fresh interpreters)
    batches, results = disc.gather()
    ck.dist['discovery: fresh interpreters'] = len(batches)
    ck.dist['discovery: wall_s waited for the fresh interpreters'] = disc.waited
    for (family, batch), res in zip(batches, results):
        if isinstance(res, str):
            ck.broken.append('discovery: the fresh interpreter did not report (%s)' % res)
            ck.count('discovery:child-failed')
            continue
        for (c, args, home), (obs, first_parse) in zip(batch, res):
            first, cfg, decided = discovered(home, SPEC_CANDIDATES)
            case = c._replace(cfg=cfg)
            hj = home_json(home)
            meta = {'family': family, 'args': args, 'home': hj, 'date': c.date, 'first_parse_of_its_process': first_parse,
                    'observed': obs[0] if obs[0] != 'ok' else {'argv': obs[2], 'attrs': {k: jval(v) for k, v in obs[1].items()}}}
            ck.count('%s:%s' % (family, obs[0]))
            ck.count('discovery-candidates-existing:%d' % len(home))
            if first_parse:
                ck.count('discovery-first-parse-of-a-fresh-process')
            ck.distinct(('home', c.sub, tuple(c.opts), tuple(c.pos), tuple(sorted(hj.items())), c.date, c.layout), bool(home))
            if obs[0] == 'crash':
                ck.violation({'kind': 'impl-violation', 'what': 'options.parse raised an unexpected error', 'family': family,
                              'option': None, 'args': args, 'home': hj, 'date': c.date, 'expected': 'no crash', 'observed': obs[1],
                              'how_to_run': 'bin/check C20 --replay <this file>'})
                continue
            if decided:
                exp = expected(case, tab, cdefaults, keys)

                def hint(k, e, o, home=home, first=first):
                    for p in SPEC_CANDIDATES[SPEC_CANDIDATES.index(first) + 1 if first else 0:]:
                        if p in home and home[p][0] == 'file':
                            for s_, key, v in home[p][1]:
                                if py_new_name(s_, key) == k:
                                    try:
                                        if same(py_coerce(cdefaults.get(k, MISSING), v), o):
                                            return ('option taken from a lower-priority rc file (%s) although %s exists: the '
                                                    'configuration file is the FIRST existing candidate only' % (p, first))
                                    except Unconvertible:
                                        pass
                    return None
                compare(ck, case, args, obs, exp, keys, cdefaults, family,
                        extra={'home': hj, 'configuration_file': first or '<none>', 'first_parse_of_its_process': first_parse},
                        hint=hint if first else None)
            else:
                ck.count('discovery:first-candidate-unreadable(model only)')
            lits.append(case_lit(c, outcome_lit(obs, keys), home=home))
            metas.append(meta)
            if first_parse and len(home) >= 2 and obs[0] == 'ok':
                ck.sample(meta, limit=6)

    # ------------------------------------------------------------ evaluate the model on everything observed
    # (the passed-file cases and the discovered-file cases are one list: they are evaluated by the same coqc processes)
    fails = ck.cases('options', IMPORTS, CASE_TYPE, CHK, lits, shard=ck.n(160, 400), preamble=preamble) if coq_ok else None
    for i in (fails or []):
        if 'home' in metas[i]:
            ck.violation({'kind': 'correspondence', 'what': 'Model.Options.run_home and jug.options.parse (no options file) disagree (%s)'
                          % metas[i]['family'], 'case': metas[i], 'args': metas[i]['args'], 'home': metas[i]['home'],
                          'date': metas[i]['date'], 'coq_case': lits[i], 'obs_keys': keys})
        else:
            ck.violation({'kind': 'correspondence', 'what': 'Model.Options.run and jug.options.parse disagree (%s)' % metas[i]['family'],
                          'case': metas[i], 'coq_case': lits[i], 'obs_keys': keys})

    # ------------------------------------------------------------ the store each command opens
    command_wiring(ck)

    # ------------------------------------------------------------ backends.select vs backend_of
    strs = sorted(set([d for d, _ in loc_cases] + TPL_HEADS + ['', 'jugdata', 'dict_store:x.pkl', 'dict_storex', 'redis:',
                                                                 'file_keepalive:/a/b', 'redis://localhost:6379/0', 'a/redis:', 'dict_store:',
                                                                 # locations that contain a colon themselves
                                                                 'dict_store:a:b', 'dict_store:node7:scratch/x.pkl', 'dict_store::x',
                                                                 'file_keepalive:node7:scratch/jd', 'file_keepalive:2024-05-01T12:30:00.jugdata',
                                                                 'file_keepalive::', 'file_keepalive:dict_store:x', 'node7:scratch/jd']))
    sel_cases = []
    with patched_select():
        for s in strs:
            b = SEL.select(s)
            if b != py_backend(s):
                ck.violation({'kind': 'impl-violation', 'what': 'backends.select picks an unexpected backend', 'jugdir': s,
                              'expected': list(py_backend(s)), 'observed': list(b)})
            sel_cases.append('(%s, %s)' % (cs(s), backend_lit(b)))
    fails = ck.cases('select', IMPORTS, 'string * backend',
                     'fun x => backend_eqb (backend_of (fst x)) (snd x)', sel_cases) if coq_ok else None
    for i in (fails or []):
        ck.violation({'kind': 'correspondence', 'what': 'Model.Options.backend_of and backends.select disagree', 'coq_case': sel_cases[i]})

    if not proved:
        ck.notes.append('proof obligations broke; the systematic search above is the seeded search of DESIGN.md 1.4(4)')


def replay(obj):
    """Re-execute one recorded command line + configuration file against /repo."""
    if obj.get('wiring'):
        class _Ck:
            broken, notes = [], []
            def count(self, *a): pass
            def distinct(self, *a): pass
            def violation(self, v): self.v = v
        c = _Ck()
        with jugrun.scratch_dir('jugv_c20w') as root:
            rows = _command_wiring(c, root, only=(obj['jugdir_given'], obj['given_in']))
        print('jugdir %r given in %s; the string each command hands to backends.select:' % (obj['jugdir_given'], obj['given_in']))
        for sub, extra, sel in rows:
            print('  jug %-12s %-14s -> %s' % (sub, ' '.join(extra), sel))
        print('all the same' if not hasattr(c, 'v') else 'NOT all the same: e.g. %s' % c.v['subcommand'])
        return 1 if hasattr(c, 'v') or any(not isinstance(x[2], list) for x in rows) else 0
    if 'args' not in obj or ('config_text' not in obj and 'home' not in obj):
        print('replay: nothing executable in this file:', obj.get('kind'), obj.get('no_longer_checks', ''))
        return 2
    opt = obj.get('option')
    keys = [opt] if opt and opt != 'sys.argv' else ['jugdir']
    if 'home' in obj:
        # the configuration file is discovered: a scratch HOME with the recorded files, parse(args) without an options
        # file as the first parse of a fresh interpreter
        home = {p: (('dir',) if t == '<directory>' else ('text', t)) for p, t in obj['home'].items()}
        with jugrun.scratch_dir('jugv_c20_replay') as scratch:
            hd = os.path.join(scratch, 'home')
            write_home(hd, home)
            res = run_child([{'home': hd, 'args': obj['args'], 'date': obj.get('date', DATES[0])}], keys)
        if isinstance(res, str):
            print('replay: the fresh interpreter did not report:', res)
            return 2
        obs = res[0][0]
        if obs[0] == 'crash':
            obs = ('crash: ' + obs[1],)
        for p in sorted(home):
            print('HOME     ', p, ' ', repr(obj['home'][p]))
        print('the configuration file is the first existing of', SPEC_CANDIDATES, '->', obj.get('configuration_file'))
    else:
        obs = run_real(obj['args'], obj['config_text'], obj.get('date', DATES[0]), keys)
    if obs[0] != 'ok':
        got = obs[0]
    elif opt == 'sys.argv':
        got = obs[2]
    elif opt:
        got = jval(obs[1][opt])
    else:
        got = 'ok'
    print('args     ', obj['args'])
    print('config   ', repr(obj.get('config_text')))
    print('option   ', opt, ' layers', obj.get('layers'))
    print('observed ', repr(got))
    print('expected ', repr(obj.get('expected')))
    return 0 if got == obj.get('expected') else 1
