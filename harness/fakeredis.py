"""A command-atomic in-process stand-in for a redis server (no redis-server in this sandbox).

Every client command is one atomic step on a shared dictionary.  `hook(client_id, cmd, args)`
is called BEFORE each command executes, which is where a lock-step scheduler parks a client
thread; `trace` records (client_id, cmd, args, result) of every command.

Use `install(server)` to make `redis.Redis(**params)` return clients of `server` for code that
constructs its own connection (jug.backends.redis_store.redis_store)."""
import fnmatch
import threading


class FakeServer:
    def __init__(self):
        self.data = {}
        self.lock = threading.RLock()
        self.trace = []
        self.hook = None
        self.nclients = 0

    def client(self, cid=None):
        with self.lock:
            self.nclients += 1
            return FakeRedis(self, cid if cid is not None else self.nclients)


def _b(x):
    if isinstance(x, str):
        return x.encode('utf-8')
    if isinstance(x, (int, float)):
        return str(x).encode('ascii')
    return bytes(x)


class FakeRedis:
    def __init__(self, server, cid):
        self.server = server
        self.cid = cid

    def _cmd(self, name, args, fn):
        s = self.server
        if s.hook is not None:
            s.hook(self.cid, name, args)
        with s.lock:
            res = fn(s.data)
            s.trace.append((self.cid, name, args, res))
        return res

    def get(self, k):
        k = _b(k)
        return self._cmd('GET', (k,), lambda d: d.get(k))

    def set(self, k, v):
        k, v = _b(k), _b(v)

        def f(d):
            d[k] = v
            return True
        return self._cmd('SET', (k, v), f)

    def append(self, k, v):
        k, v = _b(k), _b(v)

        def f(d):
            d[k] = d.get(k, b'') + v
            return len(d[k])
        return self._cmd('APPEND', (k, v), f)

    def setrange(self, k, offset, v):
        k, v = _b(k), _b(v)

        def f(d):
            old = d.get(k, b'')
            old = old + b'\0' * max(0, offset - len(old))
            d[k] = old[:offset] + v + old[offset + len(v):]
            return len(d[k])
        return self._cmd('SETRANGE', (k, offset, v), f)

    def getset(self, k, v):
        k, v = _b(k), _b(v)

        def f(d):
            old = d.get(k)
            d[k] = v
            return old
        return self._cmd('GETSET', (k, v), f)

    def setnx(self, k, v):
        k, v = _b(k), _b(v)

        def f(d):
            if k in d:
                return False
            d[k] = v
            return True
        return self._cmd('SETNX', (k, v), f)

    def delete(self, *ks):
        ks = tuple(_b(k) for k in ks)

        def f(d):
            n = 0
            for k in ks:
                if k in d:
                    del d[k]
                    n += 1
            return n
        return self._cmd('DEL', ks, f)

    def exists(self, *ks):
        ks = tuple(_b(k) for k in ks)
        return self._cmd('EXISTS', ks, lambda d: sum(1 for k in ks if k in d))

    def keys(self, pattern='*'):
        pat = _b(pattern)
        return self._cmd('KEYS', (pat,), lambda d: [k for k in list(d.keys()) if fnmatch.fnmatchcase(k.decode('latin1'), pat.decode('latin1'))])

    def disconnect(self):
        pass

    def close(self):
        pass


_installed = []


def install(server):
    """Monkeypatch redis.Redis so that redis_store(url) connects to `server`."""
    import redis
    import jug.backends.redis_store as rs
    if not _installed:
        _installed.append(redis.Redis)
    redis.Redis = lambda **params: server.client()
    rs.redis.Redis = redis.Redis


def uninstall():
    import redis
    import jug.backends.redis_store as rs
    if _installed:
        redis.Redis = _installed[0]
        rs.redis.Redis = redis.Redis
