"""A command-atomic in-process stand-in for a redis server (no redis-server in this sandbox).

Every client command is one atomic step on a shared dictionary.  `hook(client_id, cmd, args)`
is called BEFORE each command executes, which is where a lock-step scheduler parks a client
thread; `trace` records (client_id, cmd, args, result) of every command.

Key expiry as in redis (SET ... EX/PX/NX/XX/KEEPTTL/GET, SETEX, PSETEX, EXPIRE, PEXPIRE, TTL, PTTL, PERSIST)
against a SERVER CLOCK `server.now` (seconds) that only the harness moves: `server.advance(seconds)`.
A key whose deadline is <= now does not exist for any command (and is dropped from `server.data`, which
other harness code reads directly).  Plain SET / GETSET / SETNX-on-a-missing-key / DEL clear an expiry,
APPEND and SETRANGE keep it, as in redis.

Connection faults: `conn.drop_next_command('before')` / `('after')` makes the NEXT command of that connection fail with
redis.ConnectionError - either before it reaches the server (nothing is applied) or after the server applied it (the
reply is lost).  The connection works again for the command after that (redis-py reconnects by itself).  The command is
recorded in `trace` (result as applied, None when it never arrived) and in `server.faults` = [(trace index, mode)].

Use `install(server)` to make `redis.Redis(**params)` return clients of `server` for code that
constructs its own connection (jug.backends.redis_store.redis_store)."""
import datetime
import fnmatch
import math
import threading


class FakeServer:
    def __init__(self):
        self.data = {}
        self.expires = {}           # key -> deadline on the server clock (absent: no expiry)
        self.now = 0.0              # the server clock, in seconds; moved by advance() only
        self.expired_log = []       # (time, key) of every key that expired
        self.faults = []            # (index into trace, 'before' | 'after') of every command lost with its connection
        self.lock = threading.RLock()
        self.trace = []
        self.hook = None
        self.nclients = 0

    def advance(self, seconds):
        """`seconds` pass on the server: keys whose time to live is over disappear"""
        if seconds < 0:
            raise ValueError('the server clock does not run backwards')
        with self.lock:
            self.now += seconds
            self.purge()

    def purge(self):
        """drop expired keys (and deadlines of keys that are gone, e.g. after `data` was replaced)"""
        if not self.expires:
            return
        for k in [k for k, t in self.expires.items() if t <= self.now or k not in self.data]:
            if k in self.data and self.expires[k] <= self.now:
                del self.data[k]
                self.expired_log.append((self.now, k))
            del self.expires[k]

    def client(self, cid=None):
        with self.lock:
            self.nclients += 1
            return FakeRedis(self, cid if cid is not None else self.nclients)


def _b(x):
    if isinstance(x, str):
        return x.encode('utf-8')
    if isinstance(x, (int, float)):
        return str(x).encode('ascii')
    return bytes(x)


def _secs(x):
    """an expiry argument as redis-py accepts it: int or datetime.timedelta"""
    if isinstance(x, datetime.timedelta):
        return int(x.total_seconds())
    if isinstance(x, bool) or not isinstance(x, int):
        raise TypeError('expiry must be an integer or a timedelta, got %r' % (x,))
    return x


def connection_error(msg):
    try:
        import redis
        return redis.ConnectionError(msg)
    except ImportError:
        return ConnectionError(msg)


class FakeRedis:
    def __init__(self, server, cid):
        self.server = server
        self.cid = cid
        self.drop_next = None       # None | 'before' | 'after'

    def drop_next_command(self, mode):
        """the next command of this connection is lost with the connection: 'before' it reaches the server (not applied) or
        'after' the server applied it (reply lost); the caller sees redis.ConnectionError"""
        if mode not in ('before', 'after', None):
            raise ValueError(mode)
        self.drop_next = mode

    def _cmd(self, name, args, fn):
        s = self.server
        if s.hook is not None:
            s.hook(self.cid, name, args)
        mode, self.drop_next = self.drop_next, None
        with s.lock:
            s.purge()
            if mode == 'before':
                s.faults.append((len(s.trace), mode))
                s.trace.append((self.cid, name, args, None))
                raise connection_error('Connection reset by peer (simulated: %s never reached the server)' % name)
            res = fn(s.data)
            if mode == 'after':
                s.faults.append((len(s.trace), mode))
            s.trace.append((self.cid, name, args, res))
        if mode == 'after':
            raise connection_error('Connection reset by peer (simulated: the reply to %s was lost)' % name)
        return res

    def get(self, k):
        k = _b(k)
        return self._cmd('GET', (k,), lambda d: d.get(k))

    def set(self, k, v, ex=None, px=None, nx=False, xx=False, keepttl=False, get=False, exat=None, pxat=None):
        """SET key value [NX|XX] [GET] [EX s|PX ms|EXAT t|PXAT t|KEEPTTL] -> True, or None when NX/XX refuses
        (with get=True: the old value).  Without an expiry option the key's time to live is cleared."""
        k, v = _b(k), _b(v)
        s = self.server
        if nx and xx:
            raise ValueError("SET: 'nx' and 'xx' are mutually exclusive")
        if sum(x is not None for x in (ex, px, exat, pxat)) + bool(keepttl) > 1:
            raise ValueError('SET: more than one expiry option')
        for name, x in (('ex', ex), ('px', px)):
            if x is not None:
                x = _secs(x)
                if x <= 0:
                    raise ValueError('invalid expire time in SET (%s=%r)' % (name, x))
        opts = ()
        if nx:
            opts += (b'NX',)
        if xx:
            opts += (b'XX',)
        if get:
            opts += (b'GET',)
        if ex is not None:
            opts += (b'EX', _secs(ex))
        if px is not None:
            opts += (b'PX', _secs(px))
        if exat is not None:
            opts += (b'EXAT', exat)
        if pxat is not None:
            opts += (b'PXAT', pxat)
        if keepttl:
            opts += (b'KEEPTTL',)

        def f(d):
            old = d.get(k)
            if (nx and old is not None) or (xx and old is None):
                return old if get else None
            d[k] = v
            if ex is not None:
                s.expires[k] = s.now + _secs(ex)
            elif px is not None:
                s.expires[k] = s.now + _secs(px) / 1000.0
            elif exat is not None:
                s.expires[k] = float(exat)
            elif pxat is not None:
                s.expires[k] = pxat / 1000.0
            elif not keepttl:
                s.expires.pop(k, None)
            s.purge()
            return old if get else True
        return self._cmd('SET', (k, v) + opts, f)

    def setex(self, k, seconds, v):
        k, v = _b(k), _b(v)
        secs = _secs(seconds)
        if secs <= 0:
            raise ValueError('invalid expire time in SETEX')
        s = self.server

        def f(d):
            d[k] = v
            s.expires[k] = s.now + secs
            return True
        return self._cmd('SETEX', (k, secs, v), f)

    def psetex(self, k, ms, v):
        k, v = _b(k), _b(v)
        ms = _secs(ms)
        if ms <= 0:
            raise ValueError('invalid expire time in PSETEX')
        s = self.server

        def f(d):
            d[k] = v
            s.expires[k] = s.now + ms / 1000.0
            return True
        return self._cmd('PSETEX', (k, ms, v), f)

    def _expire(self, cmd, k, amount, scale):
        k = _b(k)
        amount = _secs(amount)
        s = self.server

        def f(d):
            if k not in d:
                return False
            s.expires[k] = s.now + amount / scale
            s.purge()               # a time to live <= 0 deletes the key
            return True
        return self._cmd(cmd, (k, amount), f)

    def expire(self, k, seconds):
        return self._expire('EXPIRE', k, seconds, 1.0)

    def pexpire(self, k, ms):
        return self._expire('PEXPIRE', k, ms, 1000.0)

    def _ttl(self, cmd, k, scale):
        k = _b(k)
        s = self.server

        def f(d):
            if k not in d:
                return -2
            if k not in s.expires:
                return -1
            return int(math.ceil((s.expires[k] - s.now) * scale))
        return self._cmd(cmd, (k,), f)

    def ttl(self, k):
        return self._ttl('TTL', k, 1)

    def pttl(self, k):
        return self._ttl('PTTL', k, 1000)

    def persist(self, k):
        k = _b(k)
        s = self.server
        return self._cmd('PERSIST', (k,), lambda d: k in d and s.expires.pop(k, None) is not None)

    def append(self, k, v):
        k, v = _b(k), _b(v)

        def f(d):
            d[k] = d.get(k, b'') + v
            return len(d[k])
        return self._cmd('APPEND', (k, v), f)

    def setrange(self, k, offset, v):
        k, v = _b(k), _b(v)

        def f(d):
            old = d.get(k, b'')
            old = old + b'\0' * max(0, offset - len(old))
            d[k] = old[:offset] + v + old[offset + len(v):]
            return len(d[k])
        return self._cmd('SETRANGE', (k, offset, v), f)

    def getset(self, k, v):
        k, v = _b(k), _b(v)

        s = self.server

        def f(d):
            old = d.get(k)
            d[k] = v
            s.expires.pop(k, None)
            return old
        return self._cmd('GETSET', (k, v), f)

    def setnx(self, k, v):
        k, v = _b(k), _b(v)

        def f(d):
            if k in d:
                return False
            d[k] = v
            return True
        return self._cmd('SETNX', (k, v), f)

    def delete(self, *ks):
        ks = tuple(_b(k) for k in ks)

        def f(d):
            n = 0
            for k in ks:
                if k in d:
                    del d[k]
                    self.server.expires.pop(k, None)
                    n += 1
            return n
        return self._cmd('DEL', ks, f)

    def exists(self, *ks):
        ks = tuple(_b(k) for k in ks)
        return self._cmd('EXISTS', ks, lambda d: sum(1 for k in ks if k in d))

    def keys(self, pattern='*'):
        pat = _b(pattern)
        return self._cmd('KEYS', (pat,), lambda d: [k for k in list(d.keys()) if fnmatch.fnmatchcase(k.decode('latin1'), pat.decode('latin1'))])

    def disconnect(self):
        pass

    def close(self):
        pass


_installed = []


def install(server):
    """Monkeypatch redis.Redis so that redis_store(url) connects to `server`."""
    import redis
    import jug.backends.redis_store as rs
    if not _installed:
        _installed.append(redis.Redis)
    redis.Redis = lambda **params: server.client()
    rs.redis.Redis = redis.Redis


def uninstall():
    import redis
    import jug.backends.redis_store as rs
    if _installed:
        redis.Redis = _installed[0]
        rs.redis.Redis = redis.Redis
