"""Helpers to drive the real jug (imported from /repo) in-process."""
import contextlib
import io
import os
import shutil
import sys
import tempfile

from . import core

if core.REPO not in sys.path:
    sys.path.insert(0, core.REPO)

import jug                                    # noqa: E402
import jug.task                               # noqa: E402
from jug.backends.dict_store import dict_store  # noqa: E402


def assert_repo_jug():
    p = os.path.abspath(jug.__file__)
    if not p.startswith(os.path.abspath(core.REPO) + os.sep):
        raise RuntimeError('jug imported from %s, not from %s' % (p, core.REPO))


assert_repo_jug()


def fresh(store=None):
    """Reset jug's global state; returns the store."""
    del jug.task.alltasks[:]
    if store is None:
        store = dict_store()
    jug.task.Task.store = store
    return store


def run_all_sequential(tasks=None):
    """Run every task not yet loadable, in definition order (a topological order)."""
    if tasks is None:
        tasks = list(jug.task.alltasks)
    for t in tasks:
        if not t.can_load():
            t.run()


@contextlib.contextmanager
def scratch_dir(prefix='jugv'):
    d = tempfile.mkdtemp(prefix=prefix, dir=os.environ.get('VERIF_SCRATCH', '/tmp'))
    try:
        yield d
    finally:
        shutil.rmtree(d, ignore_errors=True)


@contextlib.contextmanager
def chdir(d):
    old = os.getcwd()
    os.chdir(d)
    try:
        yield
    finally:
        os.chdir(old)


@contextlib.contextmanager
def quiet():
    out, err = io.StringIO(), io.StringIO()
    with contextlib.redirect_stdout(out), contextlib.redirect_stderr(err):
        yield out, err
