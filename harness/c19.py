"""C19 - keep-alive locks: live holders are never reported failed, dead ones are, the helper ends.

Proof: Props/C19.v (Model/Keepalive.v, Proofs/KeepaliveFacts.v), instantiated on the constants that
harness/translate_c19.py regenerates from /repo into Gen/KeepaliveParams.v.
Tie: the REAL jug.backends.file_keepalive_monitor.main() loop, the REAL file_keepalive_based_lock
get/release/fail/is_locked/is_failed and the REAL `cleanup --failed-only` command are driven on a
simulated clock (patched sleep/getppid/kill/utime in the monitor module, time/Popen in file_store; a
real lock file in a scratch directory carries the simulated mtimes) through generated fault
sequences; refresh times, the helper's end (time, cause) and what other clients see are compared
with the model inside coqc.
The helper is started the way start_monitor() starts it: the holder works in its own directory with
a relative or absolute jugdir (lock class, store.getlock, jug.backends.select('file_keepalive:DIR')),
the Popen call it makes is recorded (command line, cwd, other arguments), the monitor's main() gets
that argv and its utime() resolves the path against the cwd the call gives the helper; the call and
the file it addresses are compared with the model (launch_check) and with the lock file on disk.
fail() is observed at the granularity of its primitives (kill of the helper, os.utime of the failed
stamp): a wake-up of the helper can be scheduled between the two.
Search: the same runs are judged by the property's own oracle, independent of Coq."""
import importlib
import math
import os
import signal
import sys
import threading
import time as _time

from . import core
from .core import zlit, listlit, boollit
from . import jugrun
from jug.backends import file_store as fs
from jug.subcommands.cleanup import cleanup as cleanup_cmd

select_mod = importlib.import_module("jug.backends.select")

mon = importlib.import_module('jug.backends.file_keepalive_monitor')
_os_utime = os.utime          # the harness's own calls (simulated mtimes); os.utime itself is wrapped during a run

EVIDENCE = dict(
    level='proof',
    rule='case = one fault sequence (holder in its own working directory with a relative / absolute jugdir named through the lock '
         'class, store.getlock or backends.select; lock acquired at t0, helper started as the recorded Popen call says, start-up '
         'delay, per-round sleep overruns, holder death / release() / fail() (also with a wake-up of the helper between its two '
         'primitives) / removal of the lock file by somebody else, is_locked()/is_failed() queries, cleanup --failed-only and '
         'get() by other clients at chosen simulated times; runs from seconds to days) with everything the real code did '
         '(start of the helper, refresh times, end of the helper with cause, primitives of fail(), answers); non-trivial = the '
         'helper refreshed the lock at least once or a fault happened; distinct = distinct scenario tuples',
    explanation='Coq theorems over the keep-alive state machine for all event sequences, instantiated on the constants extracted '
                'from the source + differential evaluation of the model against the real monitor loop / lock class on a simulated clock',
)

DEFAULTS = dict(period=5, rounds=60, expiry=1800, failed_atime=1, failed_mtime=1)   # as documented in the source
# admissible environments (drift, startup): Props/C19.v proves the theorems for startup + 60*drift < 1500
ENVS = [(0, 0), (2, 10), (20, 250), (24, 59), (10, 899), (0, 1499)]
PARENT = 4242
NAME = 'c19lock'

IMPORTS = 'From JugV Require Import Model.Keepalive Gen.KeepaliveParams.'
CASE_TYPE = 'Z * Z * Z * Z * list citem * list out * (list Z * path * launch * list Z * list Z)'
CHK = ('fun c => match c with (t0, s, dr, st, items, obs, (wcwd, fullname, lobs, target, lockfile)) => '
       'let evs := expand (t0 + s) items in '
       'valid ka_params dr (init ka_params t0 st) evs && '
       'list_eqb out_eqb (outs ka_params (init ka_params t0 st) evs) obs && '
       'launch_check wcwd fullname lobs target lockfile end')
MONITOR_MODULE = 'jug.backends.file_keepalive_monitor'
# Popen arguments that do not change which file the helper addresses or whether it runs
HARMLESS_POPEN_KW = ('stdin', 'stdout', 'stderr', 'close_fds', 'bufsize')
STOP_SIGNALS = (signal.SIGKILL, signal.SIGTERM, signal.SIGINT, signal.SIGHUP, signal.SIGQUIT)
GATE_TIMEOUT = 60


def source_constants():
    """(constants, error): the translator's view of /repo; documented defaults when it fails."""
    try:
        from . import translate_c19
        return translate_c19.extract(), None
    except Exception as e:   # TranslateError etc.: the proof side reports it; the search still needs numbers
        return dict(DEFAULTS), '%s: %s' % (type(e).__name__, e)


# ------------------------------------------------------------------------------------------------
# the simulated world around the real code
class _Killed(BaseException):
    """SIGKILL of the helper process (unwinds the real main())."""


class _Horizon(BaseException):
    """The scenario's schedule of rounds is exhausted (the helper is still running)."""


class FakePopen:
    """What file_store gets from Popen(...): the call is recorded, the helper itself is the real
    monitor main() run by Sim on the simulated clock."""

    def __init__(self, sim, args, kw):
        self.sim = sim
        self.args = list(args) if isinstance(args, (list, tuple)) else args
        self.kw = dict(kw)
        self.worker_cwd = os.getcwd()
        self.killed = False
        self.returncode = None
        self.pid = 4243 + len(sim.popens)
        sim.popens.append(self)

    def _stop(self):
        self.sim.gate_before()
        try:
            self.killed = True
            self.returncode = -9
            self.sim.on_kill(self)
        finally:
            self.sim.gate_after()

    def kill(self):
        self._stop()

    def terminate(self):
        self._stop()

    def send_signal(self, sig):
        if sig in STOP_SIGNALS:
            self._stop()
        elif sig != 0:
            self.sim.anomalies.append('send_signal(%r) to the helper: not modelled' % (sig,))

    def poll(self):
        return self.returncode

    def wait(self, timeout=None):
        return self.returncode

    def communicate(self, input=None, timeout=None):
        return (None, None)


def split_path(p):
    """(absolute?, components) of a normalised path"""
    p = os.path.normpath(p)
    return os.path.isabs(p), [c for c in p.split(os.sep) if c not in ('', '.')]


class Sim:
    """One scenario: the holder (working directory W, jugdir J as the scenario says) acquires the lock
    at t0, the helper's main() starts at t0 + s with the argv / cwd of the recorded Popen call, faults
    happen at their simulated times *inside* the patched sleep()."""

    def __init__(self, scn, wdir):
        self.scn = scn
        jd = scn.get('jugdir') or {'mode': 'abs', 'via': 'class', 'dir': 'jd'}
        self.wdir = os.path.realpath(wdir)
        self.jugdir = os.path.join(self.wdir, jd['dir']) if jd['mode'] == 'abs' else jd['dir']
        self.via = jd.get('via', 'class')
        # where the scenario puts the lock file (checked against the disk after get())
        self.lockpath = os.path.normpath(os.path.join(self.wdir, self.jugdir, 'locks', NAME + '.lock'))
        self.now = scn['t0']
        self.alive = True
        self.actions = [(int(a[0]), a[1], bool(a[2]), int(a[3]) if len(a) > 3 else 0) for a in scn['actions']]
        self.ai = 0
        self.drift_it = (dr for n, dr in scn['rounds'] for _ in range(n))
        self.outs = []
        self.anomalies = []
        self.popens = []
        self.mon_running = False
        self.in_main = False
        self.kill_pending = False
        self.utime_failed_at = None
        self.last_wake = None
        self.nwakes = 0
        self.cur_op = None
        self.fail_returns = []      # (time, what fail() returned)
        self.fail_spans = []        # (first primitive seen, returned) as indices into self.outs
        self.gate = None            # a fail() running in its own thread, stopped between two primitives
        self.parked = None
        self.launch = None          # the recorded start of the helper
        self.helper_cwd = None
        self.store = None
        self.hook_depth = 0
        self.main_thread = None
        self.popen_fails = False
        self.get_raised = None
        self.no_helper = False

    # ---- the holder's primitives on the lock (kill of the helper: FakePopen; os.utime: here)
    def gate_before(self):
        g = self.gate
        if g is not None and threading.current_thread() is g['thread'] and not g['passed'] and g['count'] == g['k']:
            g['passed'] = True
            g['reached'].set()
            if not g['go'].wait(GATE_TIMEOUT):
                raise RuntimeError('a suspended fail() was never resumed')

    def gate_after(self):
        g = self.gate
        if g is not None and threading.current_thread() is g['thread']:
            g['count'] += 1

    def is_lock(self, path):
        try:
            return os.path.normpath(os.path.join(os.getcwd(), os.fspath(path))) == self.lockpath
        except (TypeError, ValueError):
            return False

    def w_utime(self, path, times=None, *a, **kw):
        """os.utime as file_store sees it (and as a helper that spells it os.utime sees it)"""
        if self.monitor_ctx():
            return self.p_utime(path, times)
        if not self.is_lock(path) or self.cur_op is None:
            return _os_utime(path, times, *a, **kw)
        self.gate_before()
        try:
            try:
                r = _os_utime(path, times, *a, **kw)
            except OSError:
                self.outs.append(('marked', self.now, False))
                raise
            self.outs.append(('marked', self.now, True))
            return r
        finally:
            self.gate_after()

    # ---- what the monitor module sees
    def p_sleep(self, secs):
        self.hook_depth += 1
        try:
            return self.p_sleep_(secs)
        finally:
            self.hook_depth -= 1

    def p_sleep_(self, secs):
        self.resume_parked()
        try:
            dr = next(self.drift_it)
        except StopIteration:
            raise _Horizon()
        if type(secs) is not int:
            self.anomalies.append('sleep(%r): not an integer number of seconds' % (secs,))
            secs = int(secs)
        target = self.now + secs + dr
        acts = self.actions
        while self.ai < len(acts):
            t, kind, after, mid = acts[self.ai]
            if mid and kind == 'fail' and t == target:
                # this wake-up falls between two primitives of fail()
                self.ai += 1
                self.apply_split(t, mid)
                break
            if t < target or (t == target and not after):
                self.ai += 1
                self.apply(t, kind)
            else:
                break
        self.now = target
        self.last_wake = target
        self.nwakes += 1

    def p_getppid(self):
        if self.alive:
            return PARENT
        mode = self.scn.get('death_mode', 'ppid1')
        return 1 if mode == 'ppid1' else (777 if mode == 'ppid_other' else PARENT)

    def p_kill(self, pid, sig):
        if sig != 0:
            self.anomalies.append('kill(%r, %r): the monitor sent a real signal' % (pid, sig))
        if pid == PARENT and not self.alive:
            mode = self.scn.get('death_mode', 'ppid1')
            if mode == 'kill_eperm':
                raise PermissionError(1, 'Operation not permitted')
            raise ProcessLookupError(3, 'No such process')
        return None

    def p_utime(self, path, times=None):
        """utime() of the helper process: the path is resolved against the HELPER's working directory"""
        if times is not None:
            self.anomalies.append('utime(%r, %r) in the monitor: unexpected time argument' % (path, times))
        try:
            resolved = os.path.normpath(os.path.join(self.helper_cwd, os.fspath(path)))
        except (TypeError, ValueError):
            self.anomalies.append('utime(%r) in the monitor: not a path' % (path,))
            resolved = None
        try:
            if resolved == self.lockpath:
                _os_utime(self.lockpath, (self.now, self.now))
            elif resolved is not None and resolved.startswith(self.wdir + os.sep):
                _os_utime(resolved, (self.now, self.now))        # some other file of the scenario (normally: ENOENT)
            elif resolved is not None and os.path.lexists(resolved):
                self.anomalies.append('the helper touches %r, a file outside the scenario (not executed)' % (resolved,))
                return
            else:
                raise FileNotFoundError(2, 'No such file or directory', path)
        except OSError:
            self.utime_failed_at = self.now
            raise
        if resolved == self.lockpath:
            self.outs.append(('refresh', self.now))

    def p_time(self):
        return float(self.now)

    def p_popen(self, args, *a, **kw):
        if self.popen_fails:
            raise BlockingIOError(11, 'Resource temporarily unavailable')      # fork: EAGAIN (process limit)
        if a:
            self.anomalies.append('Popen called with positional arguments after the command line: not modelled')
        return FakePopen(self, args, kw)

    def on_kill(self, p):
        if self.popens and p is self.popens[0] and self.mon_running:
            self.mon_running = False
            self.outs.append(('exit', self.now, 'killed'))
            self.kill_pending = True

    # ---- faults and other clients
    def do_fail(self):
        self.cur_op = 'fail'
        i0 = len(self.outs)
        try:
            r = self.wl.fail()
            self.fail_returns.append((self.now, r))
            self.fail_spans.append((i0, len(self.outs)))
        finally:
            self.cur_op = None

    def apply_split(self, t, k):
        """fail() by the holder at t; it is suspended before its (k+1)-th primitive, the helper wakes up
        (the caller returns from sleep), and fail() continues when the helper sleeps again or has ended"""
        self.now = t
        if not self.alive:
            return
        g = {'k': k, 'count': 0, 'passed': False, 'reached': threading.Event(), 'go': threading.Event(),
             'done': threading.Event(), 'exc': None}

        def body():
            try:
                self.do_fail()
            except BaseException as e:      # reported by resume_parked
                g['exc'] = e
            finally:
                g['done'].set()
                g['reached'].set()
        g['thread'] = threading.Thread(target=body, daemon=True)
        self.gate = g
        g['thread'].start()
        if not g['reached'].wait(GATE_TIMEOUT):
            self.anomalies.append('fail() neither reached a primitive nor returned')
        self.parked = g
        if g['done'].is_set() or self.kill_pending:
            # fail() has fewer primitives / the helper is dead already: the wake-up does not happen
            self.resume_parked()

    def resume_parked(self):
        g = self.parked
        if g is None:
            return
        self.parked = None
        g['go'].set()
        if not g['done'].wait(GATE_TIMEOUT):
            self.anomalies.append('a suspended fail() did not return')
        g['thread'].join(GATE_TIMEOUT)
        self.gate = None
        if g['exc'] is not None:
            self.anomalies.append('fail() raised %s: %s' % (type(g['exc']).__name__, g['exc']))
        if self.kill_pending:
            self.kill_pending = False
            if self.in_main:
                raise _Killed()

    def apply(self, t, kind):
        self.now = t
        if kind == 'die':
            self.alive = False
        elif kind == 'release':
            if self.alive:
                self.wl.release()
        elif kind == 'fail':
            if self.alive:
                self.do_fail()
        elif kind == 'unlink':
            mode = self.scn.get('unlink_mode', 'os')
            if mode == 'remove_locks':
                self.store.remove_locks()            # what `cleanup --locks-only` does
            elif mode == 'other_release':
                self.store.getlock(NAME).release()   # another client's release()
            elif os.path.exists(self.lockpath):
                os.unlink(self.lockpath)
        elif kind == 'read':
            # somebody looks INTO the lock file (cat, grep -r, backup): on a file system that records access times the
            # atime moves, the mtime does not
            try:
                st = os.stat(self.lockpath)
                _os_utime(self.lockpath, (t, st.st_mtime))
            except OSError:
                pass
        elif kind == 'query':
            other = self.store.getlock(NAME)
            self.outs.append(('locked', t, bool(other.is_locked())))
            self.outs.append(('failed', t, bool(other.is_failed())))
        elif kind == 'cleanup':
            said = []

            class Opt:
                cleanup_locks_only = False
                cleanup_failed_only = True
                cleanup_keep_locks = False
                print_out = staticmethod(lambda *a, **k: said.append(' '.join(str(x) for x in a)))
            cleanup_cmd.run(self.store, Opt())
            if said == ['Removed 1 failure locks']:
                self.outs.append(('cleaned', t, True))
            elif said == ['Removed 0 failure locks']:
                self.outs.append(('cleaned', t, False))
            else:
                self.anomalies.append('cleanup --failed-only said %r' % (said,))
                self.outs.append(('cleaned', t, False))
        elif kind == 'get':
            other = self.store.getlock(NAME)
            got = bool(other.get())
            if got:
                _os_utime(self.lockpath, (t, t))       # creation time on the simulated clock
            self.outs.append(('get', t, got))
        else:
            raise ValueError('unknown action ' + kind)
        if self.kill_pending:
            self.kill_pending = False
            if self.in_main:
                raise _Killed()

    def monitor_ctx(self):
        """is the caller the helper's own code (main() and what it calls), not the harness or the lock class?"""
        return self.in_main and self.hook_depth == 0 and threading.current_thread() is self.main_thread

    def either(self, orig, hook):
        """a process-wide primitive: the simulated one for the helper's code, the real one for everybody else"""
        def f(*a, **kw):
            return hook(*a, **kw) if self.monitor_ctx() else orig(*a, **kw)
        return f

    def run(self):
        import subprocess
        import types
        self.main_thread = threading.current_thread()
        # the names the two modules bind (`from os import utime`) ...
        patches = [(mon, n, v) for n, v in (('sleep', self.p_sleep), ('getppid', self.p_getppid), ('kill', self.p_kill),
                                            ('utime', self.p_utime), ('argv', ['file_keepalive_monitor'])) if hasattr(mon, n)]
        # ... and the other spelling (`import os` ... os.utime(...)): process-wide, switched by who is calling
        patches += [(os, 'getppid', self.either(os.getppid, self.p_getppid)), (os, 'kill', self.either(os.kill, self.p_kill)),
                    (_time, 'sleep', self.either(_time.sleep, self.p_sleep)), (sys, 'argv', list(sys.argv)),
                    (os, 'utime', self.w_utime)]
        if isinstance(getattr(fs, 'time', None), types.ModuleType):
            patches.append((_time, 'time', self.p_time))
        else:
            patches.append((fs, 'time', self.p_time))
        if hasattr(fs, 'Popen'):
            patches.append((fs, 'Popen', self.p_popen))
        else:
            patches.append((subprocess, 'Popen', self.p_popen))
        for m in (fs,):
            for n, v in list(vars(m).items()):
                if v is _os_utime:
                    patches.append((m, n, self.w_utime))
        saved = [(m, n, getattr(m, n)) for m, n, _ in patches]
        old_cwd = os.getcwd()
        os.chdir(self.wdir)
        for m, n, v in patches:
            setattr(m, n, v)
        try:
            self._run()
        finally:
            for m, n, v in saved:
                setattr(m, n, v)
            os.chdir(old_cwd)
            g = self.parked or self.gate
            if g is not None:           # never leave a thread behind
                g['go'].set()
                g['thread'].join(GATE_TIMEOUT)
        return self

    def read_launch(self):
        """The one Popen call get() made, as the start of a helper process: its argv, its working
        directory, the file its path argument denotes there.  None (and an anomaly) if it is not a
        start of the monitor module that this harness knows how to reproduce."""
        if len(self.popens) != 1:
            self.anomalies.append('get() started %d helper processes, expected exactly one' % len(self.popens))
            return None
        p = self.popens[0]
        args = p.args
        if not isinstance(args, list) or not all(isinstance(x, str) for x in args):
            self.anomalies.append('helper command line is not a list of strings: %r' % (args,))
            return None
        if len(args) != 4 or args[0] != sys.executable or args[1:3] != ['-m', MONITOR_MODULE]:
            self.anomalies.append('helper command line is not [python, -m, %s, <lock>]: %r' % (MONITOR_MODULE, args))
            return None
        other = sorted(k for k in p.kw if k != 'cwd' and k not in HARMLESS_POPEN_KW)
        if other:
            self.anomalies.append('helper started with Popen arguments that are not modelled: %r' % (other,))
            return None
        cwd = p.kw.get('cwd')
        if cwd is not None:
            try:
                cwd = os.fspath(cwd)
            except TypeError:
                self.anomalies.append('helper started with cwd=%r' % (cwd,))
                return None
            if isinstance(cwd, bytes):
                cwd = os.fsdecode(cwd)
        hcwd = p.worker_cwd if cwd is None else os.path.normpath(os.path.join(p.worker_cwd, cwd))
        target = os.path.normpath(os.path.join(hcwd, args[3]))
        return {'worker_cwd': p.worker_cwd, 'popen_cwd': cwd, 'arg': args[3], 'helper_cwd': hcwd, 'target': target,
                'target_real': os.path.realpath(target), 'lock_real': os.path.realpath(self.lockpath),
                'argv': [getattr(mon, '__file__', MONITOR_MODULE)] + args[3:]}

    def prelude(self, kind):
        """an earlier life of the SAME lock object (Task.lock() reuses the cached object), over before the scenario starts"""
        if not kind:
            return
        if self.wl.get() is not True:
            self.anomalies.append('prelude: get() on a fresh lock did not return True')
            return
        if kind == 'helper-ended':
            # another client removed the lock file, the helper noticed at its next refresh and ended by itself
            os.unlink(self.lockpath)
            for p in self.popens:
                p.returncode = 0
        elif kind == 'released':
            self.wl.release()
        elif kind == 'failed-cleaned':
            self.wl.fail()
            self.store.getlock(NAME).release()      # cleanup --failed-only by somebody else
        else:
            raise ValueError('unknown prelude ' + kind)
        if os.path.exists(self.lockpath):
            self.anomalies.append('prelude %s: the lock file is still there' % kind)
        del self.popens[:]

    def _run(self):
        scn = self.scn
        t0, s = scn['t0'], scn['s']
        if self.via == 'select':
            self.store = select_mod.select('file_keepalive:' + self.jugdir)
        else:
            self.store = fs.file_keepalive_store(self.jugdir)
        if self.via == 'class':
            self.wl = fs.file_keepalive_based_lock(self.jugdir, NAME)
        else:
            self.wl = self.store.getlock(NAME)
        self.prelude(scn.get('prelude'))
        self.popen_fails = bool(scn.get('popen_fails'))
        try:
            got = self.wl.get()
        except OSError as e:
            got = None
            self.get_raised = '%s: %s' % (type(e).__name__, e)
        finally:
            self.popen_fails = False
        if self.get_raised is not None:
            # the holder got an exception, it does not go on: what it leaves behind is a lock without holder and helper
            if not scn.get('popen_fails'):
                self.anomalies.append('get() of the holder raised ' + self.get_raised)
                return
            self.alive = False
            if os.path.isfile(self.lockpath):
                _os_utime(self.lockpath, (t0, t0))
            self.no_helper = True
        elif got is not True:
            self.anomalies.append('the holder could not acquire a fresh lock')
            return
        elif not os.path.isfile(self.lockpath):
            self.anomalies.append('after get() there is no lock file at %s' % self.lockpath)
            return
        else:
            _os_utime(self.lockpath, (t0, t0))
            if not self.popens:
                # get() answered True and no helper process exists: nobody will refresh this lock
                self.no_helper = True
            else:
                self.launch = self.read_launch()
                if self.launch is None:
                    return
        if self.no_helper:
            self.now = t0
            while self.ai < len(self.actions):
                t, kind, after, mid = self.actions[self.ai]
                self.ai += 1
                self.apply(t, kind)
            return
        self.helper_cwd = self.launch['helper_cwd']
        if hasattr(mon, 'argv'):
            mon.argv = list(self.launch['argv'])
        sys.argv = list(self.launch['argv'])
        self.mon_running = True
        start = t0 + s
        while self.ai < len(self.actions) and self.actions[self.ai][0] < start:
            t, kind, after, mid = self.actions[self.ai]
            self.ai += 1
            self.apply(t, kind)
        self.now = start
        if self.mon_running:
            self.in_main = True
            ended = None
            try:
                mon.main()
                ended = 'returned'
            except _Killed:
                ended = 'killed'
            except _Horizon:
                ended = 'horizon'
            except Exception as e:
                ended = 'crashed'
                self.anomalies.append('the monitor loop raised %s: %s' % (type(e).__name__, e))
            finally:
                self.in_main = False
            if ended in ('returned', 'crashed'):
                cause = 'lockgone' if (self.utime_failed_at is not None and self.utime_failed_at == self.now) else 'parent'
                if ended == 'crashed':
                    cause = 'crashed'
                self.outs.append(('exit', self.now, cause))
                self.mon_running = False
        self.resume_parked()
        while self.ai < len(self.actions):
            t, kind, after, mid = self.actions[self.ai]
            self.ai += 1
            self.apply(t, kind)


def run_scenario(scn, root, k=0):
    wdir = os.path.join(root, 'w%d' % k)
    os.makedirs(wdir)
    try:
        return Sim(scn, wdir).run()
    finally:
        import shutil
        shutil.rmtree(wdir, ignore_errors=True)


# ------------------------------------------------------------------------------------------------
# the property's own oracle (no model, no Coq)
def oracle(scn, sim, C):
    P, R, E = C['period'], C['rounds'], C['expiry']
    dr_env, st_env = scn['env']
    D = P + dr_env
    bad = [('harness-anomaly', a) for a in sim.anomalies]
    # ---- the start of the helper: the file its path argument denotes in ITS working directory must be
    # the lock file the holder created (compared as the operating system resolves them)
    L = sim.launch
    if L is not None:
        if L['target_real'] != L['lock_real']:
            bad.append(('helper started on a path that is not the lock file',
                        'holder in <W>, jugdir %r (%s): lock file %s; helper started with cwd=%r and path argument %r '
                        'addresses %s' % (rel_to(sim.jugdir, sim.wdir), sim.via, rel_to(sim.lockpath, sim.wdir), rel_to(L['popen_cwd'], sim.wdir),
                                          rel_to(L['arg'], sim.wdir), rel_to(L['target'], sim.wdir))))
    obs = [o for o in sim.outs if o[0] in ('locked', 'failed', 'cleaned', 'get')]
    oi = 0
    alive, held, removed, foreign = True, True, False, False
    fail_rets = list(sim.fail_returns)
    sticky_since = None     # time of a fail() that returned True, until the lock file is removed
    td = None           # death of the holder while it held the lock
    if sim.get_raised is not None:
        # get() raised (the helper could not be started): the caller does not hold the lock; the file it left is a dead lock
        alive, td = False, scn['t0']
    elif sim.no_helper:
        bad.append(('lock acquired without a helper process', 'get() returned True and no helper process was started for it%s: '
                    'nobody refreshes this lock' % (' (Popen raised OSError)' if scn.get('popen_fails') else
                                                    ' (same lock object as before: %s)' % scn.get('prelude') if scn.get('prelude') else '')))
    t_kill = None       # first release()/fail() by the live holder
    t_gone = None       # first removal of the lock file by somebody else
    fail_marked = False
    for a in scn['actions']:
        t, kind = a[0], a[1]
        live = alive and held and not removed and not foreign
        dead_held = (td is not None) and held and not removed and not foreign
        if kind == 'die':
            if alive:
                alive = False
                if held:
                    td = t
        elif kind == 'release':
            if alive:
                if t_kill is None and held:
                    t_kill = t
                held = False
                removed = True
                fail_marked = False
                sticky_since = None
        elif kind == 'fail':
            if alive:
                if t_kill is None and held:
                    t_kill = t
                held = False
                fail_marked = not removed
                if not fail_rets:
                    bad.append(('harness-anomaly', 'fail() at %d did not return' % t))
                elif fail_rets.pop(0)[1] is True:
                    sticky_since = t
        elif kind == 'unlink':
            if not removed and t_gone is None and held and not foreign:
                t_gone = t
            removed = True
            fail_marked = False
            sticky_since = None
        elif kind == 'query':
            if oi + 1 >= len(obs) or obs[oi][0] != 'locked' or obs[oi + 1][0] != 'failed':
                bad.append(('harness-anomaly', 'query at %d has no observation' % t))
                break
            locked, failed = obs[oi][2], obs[oi + 1][2]
            oi += 2
            if live and failed:
                bad.append(('live holder reported failed', 'is_failed() = True at t0+%d while the holder is alive and holds the lock' % (t - scn['t0'])))
            if live and not locked:
                bad.append(('live holder lock not seen', 'is_locked() = False at t0+%d' % (t - scn['t0'])))
            if dead_held and t >= td + D + E and not failed:
                bad.append(('dead holder not reported failed', 'is_failed() = False at td+%d (holder died at t0+%d)' % (t - td, td - scn['t0'])))
            if removed and not foreign and (locked or failed):
                bad.append(('removed lock still seen', 'locked=%s failed=%s at t0+%d' % (locked, failed, t - scn['t0'])))
            if fail_marked and not removed and not foreign and t >= C['failed_mtime'] + E and not failed:
                bad.append(('failed mark not reported', 'is_failed() = False at t0+%d after fail()' % (t - scn['t0'])))
            if sticky_since is not None and t >= C['failed_mtime'] + E and not (locked and failed):
                bad.append(('failed lock not sticky', 'fail() returned True at t0+%d and nobody removed the lock file, but at t0+%d '
                            'is_locked() = %s, is_failed() = %s' % (sticky_since - scn['t0'], t - scn['t0'], locked, failed)))
        elif kind == 'cleanup':
            if oi >= len(obs) or obs[oi][0] != 'cleaned':
                bad.append(('harness-anomaly', 'cleanup at %d has no observation' % t))
                break
            cleaned = obs[oi][2]
            oi += 1
            if live and cleaned:
                bad.append(('cleanup --failed-only removed a live lock', 'at t0+%d' % (t - scn['t0'])))
            if dead_held and t >= td + D + E and not cleaned:
                bad.append(('cleanup --failed-only left a dead lock', 'at td+%d' % (t - td)))
            if cleaned:
                removed = True
                fail_marked = False
                sticky_since = None
        elif kind == 'get':
            if oi >= len(obs) or obs[oi][0] != 'get':
                bad.append(('harness-anomaly', 'get at %d has no observation' % t))
                break
            got = obs[oi][2]
            oi += 1
            if live and got:
                bad.append(('lock stolen from a live holder', 'get() = True at t0+%d' % (t - scn['t0'])))
            if removed and not foreign and not got:
                bad.append(('get() fails although the lock was removed', 'at t0+%d' % (t - scn['t0'])))
            if sticky_since is not None and got:
                bad.append(('failed lock not sticky', 'fail() returned True at t0+%d and nobody removed the lock file, but get() = True '
                            'at t0+%d' % (sticky_since - scn['t0'], t - scn['t0'])))
            if got:
                foreign = True
    # ---- the helper
    exits = [o for o in sim.outs if o[0] == 'exit']
    if len(exits) > 1:
        bad.append(('harness-anomaly', 'helper ended twice: %r' % (exits,)))
    ex = exits[0] if exits else None
    if ex is not None and ex[2] == 'crashed':
        bad.append(('helper crashed', 'at t0+%d' % (ex[1] - scn['t0'])))
    deadlines = []
    if t_kill is not None:
        deadlines.append(('release/fail', t_kill))
    if td is not None:
        deadlines.append(('holder death', td + D + st_env))
    if t_gone is not None and not foreign:
        deadlines.append(('lock file removal', t_gone + R * D + st_env))
    any_cause = (t_kill is not None) or (not alive) or (t_gone is not None) or removed
    if not any_cause and ex is not None:
        bad.append(('helper ended while the holder lives and holds the lock', 'at t0+%d cause %s' % (ex[1] - scn['t0'], ex[2])))
    if deadlines:
        why, dl = min(deadlines, key=lambda x: x[1])
        covered = (sim.last_wake is not None and sim.last_wake > dl) or not sim.mon_running
        if ex is None and covered and sim.mon_running:
            bad.append(('helper still running', 'after %s: expected to end by t0+%d, simulated until t0+%d'
                        % (why, dl - scn['t0'], sim.last_wake - scn['t0'])))
        if ex is not None and ex[1] > dl:
            bad.append(('helper ended late', 'after %s: ended t0+%d, expected by t0+%d' % (why, ex[1] - scn['t0'], dl - scn['t0'])))
    if td is not None:
        for o in sim.outs:
            if o[0] == 'refresh' and o[1] > td + D:
                bad.append(('dead holder lock refreshed', 'refresh at td+%d' % (o[1] - td)))
    # once fail() has returned True the helper of that holder must not touch the lock any more
    for (i0, i1), (tf, r) in zip(sim.fail_spans, sim.fail_returns):
        if r is True:
            late = [o for o in sim.outs[i1:] if o[0] == 'refresh']
            if late:
                bad.append(('helper refreshed the lock after fail() returned', 'fail() returned True at t0+%d, refresh at t0+%d'
                            % (tf - scn['t0'], late[0][1] - scn['t0'])))
    return bad


def rel_to(p, wdir):
    """paths in messages: the scratch directory changes from run to run"""
    if p is None:
        return None
    p = str(p)
    return '<W>' + p[len(wdir):] if p == wdir or p.startswith(wdir + os.sep) else p


# ------------------------------------------------------------------------------------------------
# rendering for Coq
EV = {'die': 'EDie', 'release': 'ERelease', 'unlink': 'EUnlink', 'query': 'EQuery',
      'cleanup': 'ECleanup', 'get': 'EGet'}        # fail: its two primitives EFailStop ; EFailMark
CAUSE = {'parent': 'CParent', 'lockgone': 'CLockGone', 'killed': 'CKilled'}


def render_items(scn, period):
    """The scenario as Model.Keepalive.citem list, computed from the scenario alone (not from what the
    real code did): wake-ups every period + drift seconds, actions at their times; an action at the
    very second of a wake-up comes first unless flagged `after`.  fail() is its two primitives in the
    order of the source (stop the helper ; write the failed stamp); flagged `mid`, the wake-up of that
    second falls between the two."""
    items = []
    acts = [(a[0], a[1], bool(a[2]), int(a[3]) if len(a) > 3 else 0) for a in scn['actions']]
    ai = 0
    lw = scn['t0'] + scn['s']

    def emit(a, d=None, can_split=False):
        """-> True when the action consumed one wake-up"""
        t, kind, after, mid = a
        if kind == 'read':
            return False            # reading the lock file is no event of the model
        if kind != 'fail':
            items.append('CEv %s %s' % (zlit(t), EV[kind]))
            return False
        items.append('CEv %s EFailStop' % zlit(t))
        split = bool(mid) and can_split and t == lw + d
        if split:
            items.append('CWakes %s %s' % (zlit(1), zlit(d)))
        items.append('CEv %s EFailMark' % zlit(t))
        return split
    for n, dr in scn['rounds']:
        d = period + dr
        if d <= 0:
            raise ValueError('non-positive round length')
        remaining = n
        while remaining > 0:
            if ai < len(acts):
                t, kind, after, mid = acts[ai]
                if mid and kind == 'fail':
                    after = False
                k = (t - lw) // d if after else (t - lw - 1) // d
                k = max(0, min(k, remaining))
            else:
                k = remaining
            if k > 0:
                items.append('CWakes %s %s' % (zlit(k), zlit(d)))
                lw += k * d
                remaining -= k
            if remaining > 0 and ai < len(acts):
                if emit(acts[ai], d, True):
                    lw += d
                    remaining -= 1
                ai += 1
    while ai < len(acts):
        emit(acts[ai])
        ai += 1
    return items


def render_out(o):
    k = o[0]
    if k == 'refresh':
        return 'ORefresh %s' % zlit(o[1])
    if k == 'exit':
        return 'OExit %s %s' % (zlit(o[1]), CAUSE[o[2]])
    return {'locked': 'OLocked', 'failed': 'OFailed', 'cleaned': 'OCleaned', 'get': 'OGet', 'marked': 'OMarked'}[k] \
        + ' %s %s' % (zlit(o[1]), boollit(o[2]))


def render_launch(sim):
    """(holder's cwd, self.fullname as the model computes it from the scenario, the observed Popen call, the file it
    addresses as the operating system resolves it, the lock file found on disk); path components interned"""
    L = sim.launch
    if L is None:
        raise ValueError('no start of the helper was recorded')
    ids = {}

    def comps(cs):
        return listlit([zlit(ids.setdefault(c, len(ids) + 1)) for c in cs])

    def plit(p):
        isabs, cs = split_path(p)
        return '(%s, %s)' % (boollit(isabs), comps(cs))
    wcwd = comps(split_path(L['worker_cwd'])[1])
    fullname = plit(os.path.join(sim.jugdir, 'locks', NAME + '.lock'))       # file_based_lock.__init__
    lobs = '{| l_cwd := %s; l_arg := %s |}' % ('None' if L['popen_cwd'] is None else 'Some ' + plit(L['popen_cwd']), plit(L['arg']))
    return '(%s, %s, %s, %s, %s)' % (wcwd, fullname, lobs, comps(split_path(L['target_real'])[1]), comps(split_path(L['lock_real'])[1]))


def render_case(scn, sim, period):
    return '(%s, %s, %s, %s, %s, %s, %s)' % (zlit(scn['t0']), zlit(scn['s']), zlit(scn['env'][0]), zlit(scn['env'][1]),
                                             listlit(render_items(scn, period)), listlit([render_out(o) for o in sim.outs]),
                                             render_launch(sim))


# ------------------------------------------------------------------------------------------------
# scenario generation
class Schedule:
    """Blocks (n rounds, drift) after the helper's start; wake-up j (1-based) happens at time_of(j)."""

    def __init__(self, start, period):
        self.start = start
        self.period = period
        self.blocks = []

    def end(self):
        return self.start + sum(n * (self.period + dr) for n, dr in self.blocks)

    def count(self):
        return sum(n for n, dr in self.blocks)

    def time_of(self, j):
        t = self.start
        for n, dr in self.blocks:
            if j <= n:
                return t + j * (self.period + dr)
            t += n * (self.period + dr)
            j -= n
        return t

    def is_wake(self, t):
        """is t the time of a wake-up of this schedule?"""
        lw = self.start
        for n, dr in self.blocks:
            d = self.period + dr
            if lw < t <= lw + n * d:
                return (t - lw) % d == 0
            lw += n * d
        return False

    def extend_to(self, rng, t_end, dr_env, fine=False):
        """append blocks until the last wake-up is later than t_end"""
        while self.end() <= t_end:
            left = t_end - self.end()
            dr = rng.choice([0, dr_env, rng.randint(0, dr_env)])
            d = self.period + dr
            need = left // d + 1
            if fine:
                n = 1
            else:
                n = need if rng.random() < 0.4 else rng.randint(1, need)
            self.blocks.append([n, dr])


def gen_scenario(rng, C, max_days, tight=None):
    P, R, E = C['period'], C['rounds'], C['expiry']
    dr_env, st_env = rng.choice(ENVS) if tight is None else tight
    D = P + dr_env
    t0 = rng.choice([1000000, 1700000000]) + rng.randrange(0, 100000)
    s = rng.choice([0, st_env, rng.randint(0, st_env)])
    dur = int(10 ** rng.uniform(1, math.log10(max_days * 86400)))
    fate = rng.choices(['alive', 'die', 'release', 'fail', 'unlink', 'mixed'], weights=[4, 5, 1, 1, 2, 4])[0]
    sch = Schedule(t0 + s, P)
    fine = dur < 70 * P or rng.random() < 0.05 and dur < 3000 * P
    if rng.random() < 0.15:           # every round as slow as the environment allows: longest refresh gaps
        n = (dur + 2 * D) // D + 1
        sch.blocks.append([n, dr_env])
        s = st_env
        sch.start = t0 + s
    else:
        sch.extend_to(rng, t0 + dur + D, dr_env, fine=fine)
    acts = []       # [t, kind, after]

    def near_wake(t):
        """t, or (40%) the second of / next to a wake-up close to it"""
        if rng.random() < 0.4 and sch.count() > 0:
            j = max(1, min(sch.count(), (t - sch.start) // D + rng.randint(-1, 1)))
            if rng.random() < 0.5 and R > 0:
                j = max(1, min(sch.count(), (j // R) * R + rng.choice([0, 0, 1, -1])))   # around a refresh
            return max(t0, sch.time_of(j) + rng.choice([-1, 0, 0, 0, 1]))
        return t
    tf = near_wake(t0 + dur)
    if fate == 'fail' and R > 0 and sch.count() >= R and rng.random() < 0.5:
        tf = sch.time_of(R * rng.randint(1, sch.count() // R))      # at the second of a refresh
    end = tf
    scn = {'t0': t0, 's': s, 'env': [dr_env, st_env], 'fate': fate,
           'death_mode': rng.choice(['ppid1', 'ppid1', 'ppid_other', 'kill_esrch', 'kill_eperm']),
           'unlink_mode': rng.choice(['os', 'remove_locks', 'other_release'])}
    if fate == 'die':
        acts.append([tf, 'die'])
        tail = rng.choice([D + 2, E // 2, E + D + 50, 2 * E + 100])
        for q in (tf + D + E, tf + D + E + rng.randint(0, 500), tf + E - 1, tf + rng.randint(0, max(1, tail))):
            if q <= tf + tail:
                acts.append([q, 'query'])
        r = rng.random()
        if r < 0.5:
            tc = tf + D + E + rng.randint(0, 3000)
            acts.append([tc, 'cleanup'])
            acts.append([tc + rng.randint(0, 50), 'get'])
            if rng.random() < 0.5:
                acts.append([tc + 60, 'query'])
        elif r < 0.65:
            acts.append([tf + rng.randint(0, E), 'cleanup'])     # too early (most of the time)
            acts.append([tf + E + D + 5, 'query'])
        elif r < 0.8:
            tu = tf + rng.randint(0, tail + 1)
            acts.append([tu, 'unlink'])
            acts.append([tu + rng.randint(0, 100), 'get'])
    elif fate in ('release', 'fail'):
        acts.append([tf, fate])
        acts.append([tf + rng.randint(0, 5), 'query'])
        acts.append([tf + rng.randint(0, 2 * E), 'query'])
        if rng.random() < 0.6:
            tc = tf + rng.randint(0, 100)
            acts.append([tc, 'cleanup'])
            acts.append([tc + rng.randint(0, 20), 'get'])
        if rng.random() < 0.3:
            acts.append([tf + rng.randint(0, 200), 'die'])
    elif fate == 'unlink':
        acts.append([tf, 'unlink'])
        tail = rng.choice([D, R * D // 2, R * D + st_env + D + 1, R * D + st_env + 500])
        acts.append([tf + rng.randint(0, tail), 'query'])
        r = rng.random()
        if r < 0.3:
            acts.append([tf + rng.randint(0, tail), 'get'])
        elif r < 0.5:
            acts.append([tf + rng.randint(0, tail), rng.choice(['release', 'fail', 'die'])])
        acts.append([tf + tail, 'query'])
    elif fate == 'mixed':
        t = tf
        kinds = rng.sample(['unlink', 'fail', 'release', 'die', 'cleanup', 'get', 'unlink', 'fail', 'release'], rng.randint(2, 5))
        dead = False
        for kd in kinds:
            if dead and kd in ('release', 'fail'):
                continue
            acts.append([t, kd])
            dead = dead or kd == 'die'
            acts.append([t + rng.randint(0, 3), 'query'])
            t += rng.choice([0, 1, rng.randint(0, 2 * D), rng.randint(0, 2 * E + 200)])
        acts.append([t + rng.choice([0, E, E + D + R * D + st_env + 1]), 'query'])
    # queries (and harmless cleanup / get attempts by other clients) while the task runs
    for _ in range(rng.randint(1, 5)):
        acts.append([rng.randint(t0, max(t0, tf)), rng.choices(['query', 'cleanup', 'get'], weights=[6, 2, 1])[0]])
    nref = sch.count() // R if R > 0 else 0
    for _ in range(min(3, nref)):       # at the second of a refresh: longest gap (before) / fresh (after)
        j = R * rng.randint(1, nref)
        acts.append([sch.time_of(j), 'query', rng.random() < 0.3])
    acts = [a if len(a) == 3 else a + [rng.random() < 0.25] for a in acts]
    acts.sort(key=lambda a: a[0])
    end = max([end] + [a[0] for a in acts])
    sch.extend_to(rng, end + D, dr_env, fine=False)
    # a fail() at the very second of a wake-up: (60%) the wake-up falls between its two primitives
    for a in acts:
        if a[1] == 'fail' and sch.is_wake(a[0]) and rng.random() < 0.6:
            a[2] = False
            a.append(1)
    # somebody reads the lock file (its atime moves) some time before another client looks at the lock
    for a in list(acts):
        if a[1] in ('query', 'cleanup') and rng.random() < 0.3:
            acts.append([max(t0, a[0] - rng.randint(1, max(1, E - 1))), 'read', False])
    acts.sort(key=lambda a: a[0])
    scn['rounds'] = sch.blocks
    scn['actions'] = acts
    scn['jugdir'] = dict(rng.choice(JUGDIRS))
    scn['prelude'] = rng.choice([None] * 5 + list(PRELUDES))
    if rng.random() < 0.03:
        scn['popen_fails'] = True
    # the start-up race outside the model: holder gone before the helper first reads getppid(), and
    # re-parented to a sub-reaper (pid != 1).  Generated with the classic re-parenting to pid 1 only.
    if any(a[1] == 'die' and a[0] <= t0 + s for a in acts) and scn['death_mode'] == 'ppid_other':
        scn['death_mode'] = 'ppid1'
    return scn


# how the holder names its jugdir: relative to its working directory (jug's default '<jugfile>.jugdata' is) or
# absolute; through the lock class, store.getlock() or jug.backends.select('file_keepalive:DIR')
JUGDIRS = [
    {'mode': 'abs', 'via': 'class', 'dir': 'jd'},
    {'mode': 'rel', 'via': 'class', 'dir': 'jd'},
    {'mode': 'rel', 'via': 'select', 'dir': 'work.jugdata'},
    {'mode': 'abs', 'via': 'select', 'dir': 'store/jd'},
    {'mode': 'rel', 'via': 'store', 'dir': 'a/b/jd.jugdata'},
    {'mode': 'rel', 'via': 'select', 'dir': './proj.jugdata'},
]


PRELUDES = ('helper-ended', 'released', 'failed-cleaned')


def special_scenarios(C):
    """Deterministic timelines for: the lock object had an earlier life (its helper ended by itself / released / failed and cleaned
    up) and a long task follows; the helper cannot be started (Popen raises OSError); a dead holder's lock file is read every 20
    minutes; a failed lock's file is read."""
    P, R, E = C['period'], max(1, C['rounds']), C['expiry']
    out = []
    t0 = 1000000
    for i, (dr_env, st_env) in enumerate(ENVS):
        D = P + dr_env
        base = {'t0': t0, 's': st_env, 'env': [dr_env, st_env], 'death_mode': 'ppid1', 'unlink_mode': 'os'}

        def mk(acts, fate, **kw):
            acts = sorted([list(a) for a in acts], key=lambda a: a[0])
            n = (acts[-1][0] - t0 - st_env) // D + 3
            return dict(base, fate=fate, rounds=[[n, dr_env]], actions=acts, jugdir=dict(JUGDIRS[(i + len(out)) % len(JUGDIRS)]), **kw)
        long_task = [[t0 + E - 1, 'query', False], [t0 + E + 1, 'query', False], [t0 + E + 2, 'cleanup', False], [t0 + E + 3, 'get', False],
                     [t0 + 3 * E, 'query', False]]
        out.append(mk(long_task, 'special:reused-object', prelude=PRELUDES[i % len(PRELUDES)]))
        out.append(mk(long_task, 'special:helper-cannot-start', popen_fails=True))
        td = t0 + 700
        reads = [[td + k * 1200, 'read', False] for k in range(1, 6)]
        out.append(mk([[td, 'die', False]] + reads + [[td + D + E, 'query', False], [td + D + E + 600, 'query', False],
                                                       [td + D + E + 601, 'cleanup', False], [td + D + E + 602, 'get', False]], 'special:dead-lock-read'))
        tf = t0 + 400
        out.append(mk([[tf, 'fail', False], [tf + 50, 'read', False], [tf + 60, 'query', False], [tf + 61, 'cleanup', False]], 'special:failed-lock-read'))
    return out


def fail_window_scenarios(C):
    """Deterministic timelines around fail(): the holder fails the lock at the very second of a wake-up of the
    helper (a refresh / an ordinary round), the wake-up falling between the two primitives of fail(), before
    or after it; other clients look at the lock right afterwards and later, cleanup --failed-only, get()."""
    P, R, E = C['period'], max(1, C['rounds']), C['expiry']
    out = []
    k = 0
    for dr_env, st_env in ENVS:
        D = P + dr_env
        t0 = 1000000
        base = t0 + st_env

        def mk(acts, tag):
            nonlocal k
            acts = [list(a) for a in acts]
            acts.sort(key=lambda a: a[0])
            last = max(a[0] for a in acts)
            n = (last - base) // D + 3
            k += 1
            return {'t0': t0, 's': st_env, 'env': [dr_env, st_env], 'fate': 'fail-window:' + tag, 'death_mode': 'ppid1',
                    'unlink_mode': 'os', 'rounds': [[n, dr_env]], 'actions': acts, 'jugdir': dict(JUGDIRS[k % len(JUGDIRS)])}
        T1, T2, Tn = base + R * D, base + 2 * R * D, base + (R + 1) * D
        after_fail = lambda T: [[T, 'query', False], [T + 1, 'query', False], [T + 2, 'get', False], [T + E - 1, 'query', False],
                                [T + E + 1, 'query', False], [T + E + 5, 'cleanup', False], [T + E + 6, 'get', False]]
        out.append(mk([[T1 - 1, 'query', False], [T1, 'fail', False, 1]] + after_fail(T1), 'mid-first-refresh'))
        out.append(mk([[T2 - 1, 'query', False], [T2, 'fail', False, 1]] + after_fail(T2), 'mid-second-refresh'))
        out.append(mk([[Tn, 'fail', False, 1]] + after_fail(Tn), 'mid-ordinary-round'))
        out.append(mk([[T1, 'fail', False]] + after_fail(T1), 'before-refresh'))
        out.append(mk([[T1, 'fail', True]] + after_fail(T1), 'after-refresh'))
        out.append(mk([[T1, 'fail', False, 1], [T1 + 3, 'die', False], [T1 + 4, 'query', False], [T1 + D + E, 'query', False]], 'mid-then-die'))
        out.append(mk([[T1, 'fail', False, 1], [T1 + 7, 'fail', False, 1], [T1 + 8, 'query', False]], 'mid-twice'))
        out.append(mk([[T1 - 2, 'unlink', False], [T1, 'fail', False, 1], [T1 + 1, 'query', False], [T1 + 2, 'get', False]], 'mid-lock-gone'))
    return out


def tight_scenarios(C, hours, dense):
    """Deterministic adversarial timelines: the holder lives, every round takes as long as the
    environment allows, the helper starts as late as allowed; other clients look at the lock at
    the second of every wake-up (dense) or of every refresh (sparse), before and after it."""
    P, R = C['period'], max(1, C['rounds'])
    out = []
    for dr_env, st_env in ENVS:
        D = P + dr_env
        t0 = 1000000
        n = hours * 3600 // D + 1
        acts = []
        step = 1 if dense else R
        for j in range(step, n + 1, step):
            t = t0 + st_env + j * D
            acts.append([t, 'query', False])
            if not dense:
                acts.append([t, 'cleanup', False])
                acts.append([t, 'get', False])
                acts.append([t, 'query', True])
        out.append({'t0': t0, 's': st_env, 'env': [dr_env, st_env], 'fate': 'alive-tight', 'death_mode': 'ppid1',
                    'unlink_mode': 'os', 'rounds': [[n + 1, dr_env]], 'actions': acts, 'jugdir': dict(JUGDIRS[len(out) % len(JUGDIRS)])})
    return out


def duration_bucket(scn):
    d = (scn['actions'][-1][0] - scn['t0']) if scn['actions'] else 0
    return '<1min' if d < 60 else '<1h' if d < 3600 else '<1day' if d < 86400 else '>=1day'


# ------------------------------------------------------------------------------------------------
def smoke_real_process(root, jd, k=0):
    """One REAL helper process, started by get() of a holder that works in its own directory with the given
    jugdir: it runs, the file its path argument denotes in ITS working directory (/proc/<pid>/cwd, cmdline) is the
    lock file the holder created, release() kills it.  -> list of problems"""
    wdir = os.path.realpath(os.path.join(root, 'smoke%d-%s-%s' % (k, jd['mode'], jd['via'])))
    os.makedirs(wdir)
    jugdir = os.path.join(wdir, jd['dir']) if jd['mode'] == 'abs' else jd['dir']
    problems = []
    old = os.getcwd()
    os.chdir(wdir)
    p = None
    try:
        store = select_mod.select('file_keepalive:' + jugdir) if jd['via'] == 'select' else fs.file_keepalive_store(jugdir)
        lock = fs.file_keepalive_based_lock(jugdir, 'smoke') if jd['via'] == 'class' else store.getlock('smoke')
        lockfile = os.path.realpath(os.path.join(wdir, jugdir, 'locks', 'smoke.lock'))
        if lock.get() is not True:
            return ['get() failed on a fresh directory']
        if not os.path.isfile(lockfile):
            problems.append('after get() there is no lock file at <W>/%s' % os.path.relpath(lockfile, wdir))
        p = lock.monitor
        if p is None:
            problems.append('no helper process was started')
        else:
            _time.sleep(0.3)
            if p.poll() is not None:
                problems.append('helper process ended by itself within 0.3 s (returncode %r)' % p.returncode)
            else:
                try:
                    cmd = [os.fsdecode(x) for x in open('/proc/%d/cmdline' % p.pid, 'rb').read().split(b'\0')]
                    hcwd = os.readlink('/proc/%d/cwd' % p.pid)
                except OSError:
                    cmd = hcwd = None       # no /proc: nothing to compare
                if cmd is not None:
                    if MONITOR_MODULE not in cmd or cmd.index(MONITOR_MODULE) + 1 >= len(cmd):
                        problems.append('unexpected helper command line %r' % (cmd,))
                    else:
                        arg = cmd[cmd.index(MONITOR_MODULE) + 1]
                        target = os.path.realpath(os.path.join(hcwd, arg))
                        if target != lockfile:
                            problems.append('the helper (cwd %s, path argument %r) addresses %s, the lock file is <W>/%s'
                                            % (rel_to(hcwd, wdir), rel_to(arg, wdir), rel_to(target, wdir), os.path.relpath(lockfile, wdir)))
            lock.release()
            try:
                rc = p.wait(timeout=5)
                if rc != -9:
                    problems.append('helper ended with returncode %r, expected -9 (SIGKILL)' % rc)
            except Exception as e:
                problems.append('helper still running 5 s after release(): %s' % e)
            if lock.monitor is not None:
                problems.append('release() left lock.monitor set')
        if os.path.exists(lockfile):
            problems.append('lock file still there after release()')
    finally:
        os.chdir(old)
        if p is not None and p.poll() is None:
            try:
                p.kill()
                p.wait(timeout=5)
            except Exception:
                pass
    return problems


def smoke(ck, root, jds):
    for k, jd in enumerate(jds):
        problems = smoke_real_process(root, jd, k)
        ck.count('smoke:real-process')
        ck.obligations.append({'name': 'real helper process (jugdir %s, %s, via %s): started by get() on the lock file, killed by release()'
                                       % (jd['dir'], jd['mode'], jd['via']), 'kind': 'test', 'ok': not problems, 'msg': '; '.join(problems)})
        if problems:
            ck.violation({'kind': 'impl-violation', 'what': 'real helper process smoke test', 'problems': problems, 'smoke_jugdir': jd,
                          'how_to_run': 'bin/check C19 --replay <this file>'})


def minimise(scn, what, root, C):
    """Keep only the actions needed to show a violation of kind `what` (greedy, bounded)."""
    best = scn
    tries = 0
    if what == 'live holder reported failed':      # usually the offending query alone is enough
        cur = first_failing_prefix(scn, what, root, C)
        if cur is not scn and any(w == what for w, _ in oracle(cur, run_scenario(cur, root, 999999), C)):
            return cur
    i = len(best['actions']) - 1
    while i >= 0 and tries < 60:
        cand = dict(best, actions=best['actions'][:i] + best['actions'][i + 1:])
        tries += 1
        if cand['actions'] and any(w == what for w, _ in oracle(cand, run_scenario(cand, root, 999999), C)):
            best = cand
        i -= 1
        i = min(i, len(best['actions']) - 1)
    return best


def first_failing_prefix(scn, what, root, C):
    """For a dense timeline: cut the scenario after the first observation that violates `what`."""
    sim = run_scenario(scn, root, 999998)
    qs = [o for o in sim.outs if o[0] == 'failed' and o[2]]
    if not qs:
        return scn
    t = qs[0][1]
    return dict(scn, actions=[a for a in scn['actions'] if a[0] == t][:1])


TRUSTED = [
    'C19: harness/translate_c19.py (AST templates of the monitor loop, is_failed, fail, _FAILED_TIMESTAMP; fail-closed)',
    'C19: the simulated clock / process table around the real monitor loop (harness/c19.py: patched sleep, getppid, kill, utime, '
    'time, Popen, os.utime); real lock files in a scratch directory carry the simulated mtimes; the helper\'s path argument is '
    'resolved against the working directory the recorded Popen call gives it (os.path.join / realpath)',
]


def judge_scenarios(ck, scns, root, C, prop='C19', tag='', extra=None):
    """Run the scenarios on the real code, judge every run with the property's own oracle (violations are
    reported), render it for Coq.  -> (cases, meta)"""
    cases, meta = [], []
    for k, scn in enumerate(scns):
        sim = run_scenario(scn, root, k)
        bad = oracle(scn, sim, C)
        for what, detail in bad:
            if what == 'harness-anomaly' or ck.viol_by_what.get(what + tag, 0) >= core.MAX_REPLAYS_PER_KIND:
                small = scn         # (further ones of the same kind are only counted)
            else:
                small = minimise(scn, what, root, C)
            ssim = run_scenario(small, root, 999997)
            ck.violation(dict({'kind': 'impl-violation', 'what': what + tag, 'detail': detail, 'scenario': small,
                               'observed': ssim.outs, 'helper_start': launch_json(ssim), 'constants_in_source': C,
                               'how_to_run': 'bin/check %s --replay <this file>' % prop}, **(extra or {})))
        ck.count('fate:' + scn['fate'].split(':')[0])
        ck.count('duration:' + duration_bucket(scn))
        ck.count('refreshes', sum(1 for o in sim.outs if o[0] == 'refresh'))
        ck.count('rounds', sim.nwakes)
        ck.count('jugdir:%s via %s' % (scn.get('jugdir', {}).get('mode', 'abs'), scn.get('jugdir', {}).get('via', 'class')))
        for a in scn['actions']:
            if a[1] == 'fail':
                ck.count('fail():wake-up between its primitives' if len(a) > 3 and a[3] else 'fail():atomic')
        for o in sim.outs:
            if o[0] == 'exit':
                ck.count('helper-end:' + o[2])
        if sim.mon_running:
            ck.count('helper-end:none(still running at the end of the scenario)')
        nontrivial = any(o[0] == 'refresh' for o in sim.outs) or any(a[1] in ('die', 'release', 'fail', 'unlink') for a in scn['actions'])
        ck.distinct((scn['t0'], scn['s'], scn['env'], scn['rounds'], scn['actions'], scn['death_mode'], scn['unlink_mode'],
                     scn.get('jugdir')), nontrivial)
        if any(o[0] == 'exit' and o[2] == 'crashed' for o in sim.outs):
            continue
        if scn.get('popen_fails'):
            ck.count('helper could not be started (direct oracle only)')
            continue
        try:
            cases.append(render_case(scn, sim, C['period']))
            meta.append(scn)
        except ValueError as e:
            ck.broken.append('scenario could not be rendered for Coq: %s' % e)
        if k in (7, 40, 200):
            ck.sample({'scenario': dict(scn, rounds=scn['rounds'][:6], actions=scn['actions'][:8]), 'observed': sim.outs[:10],
                       'helper_start': launch_json(sim)})
    return cases, meta


def tie_scenarios(ck, name, cases, meta, root, C, prop='C19', shard=60, extra=None):
    fails = ck.cases(name, IMPORTS, CASE_TYPE, CHK, cases, shard=shard)
    for i in (fails or []):
        sim = run_scenario(meta[i], root, 999996)
        ck.violation(dict({'kind': 'correspondence', 'what': 'keep-alive run: model and real code disagree (or the run is outside the model\'s admissible runs)',
                           'scenario': meta[i], 'observed': sim.outs, 'helper_start': launch_json(sim), 'coq_case': cases[i],
                           'constants_in_source': C, 'how_to_run': 'bin/check %s --replay <this file>' % prop}, **(extra or {})))


def launch_json(sim):
    L = sim.launch
    if L is None:
        return None
    return {k: rel_to(L[k], sim.wdir) for k in ('worker_cwd', 'popen_cwd', 'arg', 'helper_cwd', 'target_real', 'lock_real')}


def run(ck):
    C, terr = source_constants()
    proved = ck.prove()
    ck.trusted_base = core.DEFAULT_TRUSTED_BASE + TRUSTED
    ck.assumptions = [
        'environment: every round of the helper (sleep + loop body) takes at most period + drift seconds, its first round at most '
        'startup more; proved for all drift, startup >= 0 with startup + 60*drift < 1500 (Props/C19.v)',
        'integer-second clock shared by all clients (no clock skew between NFS clients); one loop body of the helper is atomic',
        'the holder\'s death is visible to the helper through getppid()/kill(pid, 0) (no PID reuse; a stopped (SIGSTOP) holder counts '
        'as alive); the helper reads its parent pid before the holder can die',
        'nobody but the holder, its helper and the modelled clients touches the lock file',
        'Popen.kill() takes effect before the holder\'s next primitive (stop_monitor() does not wait() for the helper: a utime() of the '
        'helper that is already inside the kernel when SIGKILL arrives is not modelled)',
        'paths: no symbolic links or ".." between the holder\'s working directory and the lock file; the helper inherits the '
        'holder\'s environment (PYTHONPATH) - covered for the real process by the smoke test only',
    ]
    if terr:
        ck.notes.append('translator failed, direct search uses the documented constants: ' + terr)
    try:
        from . import translate_c19
        snotes = translate_c19.structure_notes()
    except Exception as e:
        snotes = ['structure not examined: %s: %s' % (type(e).__name__, e)]
    ck.obligations.append({'name': 'source of the monitor loop / keep-alive lock is in the shapes the model was transcribed from (lenient: a '
                                   'difference is a note; the behaviour is compared by the runs below)', 'kind': 'structure', 'ok': True,
                           'msg': ' | '.join(snotes)})
    thorough = ck.tier == 'thorough'
    max_days = 7 if thorough else 3
    with jugrun.scratch_dir('jugv19') as root:
        scns = []
        scns += tight_scenarios(C, 6 if not thorough else 24, dense=False)
        scns += fail_window_scenarios(C)
        scns += special_scenarios(C)
        nrand = ck.n(500, 20000)
        for _ in range(nrand):
            scns.append(gen_scenario(ck.rng, C, max_days))
        for env in ENVS:    # random faults on the slowest admissible schedule of each environment
            for _ in range(ck.n(5, 100)):
                scns.append(gen_scenario(ck.rng, C, max_days, tight=env))
        t_sim = _time.time()
        cases, meta = judge_scenarios(ck, scns, root, C)
        ck.notes.append('simulation of %d scenarios: %.1fs' % (len(scns), _time.time() - t_sim))
        tie_scenarios(ck, 'keepalive', cases, meta, root, C, shard=ck.n(60, 400))
        # ---- dense adversarial timelines, direct oracle only: any refresh cadence / expiry that lets a
        # live holder look dead shows up here with the exact second
        for scn in tight_scenarios(C, 3 if not thorough else 12, dense=True):
            sim = run_scenario(scn, root, 999995)
            ck.count('dense-timeline-queries', len(scn['actions']))
            seen = set()
            for what, detail in oracle(scn, sim, C):
                if what in seen:
                    continue
                seen.add(what)
                small = first_failing_prefix(scn, what, root, C) if what == 'live holder reported failed' else scn
                if small is scn:
                    small = dict(scn, actions=scn['actions'][:50])
                ssim = run_scenario(small, root, 999994)
                ck.violation({'kind': 'impl-violation', 'what': what, 'detail': detail, 'scenario': small,
                              'observed': ssim.outs[-6:], 'helper_start': launch_json(ssim), 'constants_in_source': C,
                              'how_to_run': 'bin/check C19 --replay <this file>'})
        # ---- real helper processes: relative and absolute jugdir (all ways of naming it in the thorough tier)
        smoke(ck, root, JUGDIRS if thorough else [JUGDIRS[2], JUGDIRS[0]])


def replay(obj, prop='C19'):
    """Re-execute one recorded scenario against /repo: prints what the real code does, what the
    property's oracle says, and (when Coq is available) whether the model agrees."""
    if obj.get('smoke_jugdir'):
        with jugrun.scratch_dir('jugv19r') as root:
            problems = smoke_real_process(root, obj['smoke_jugdir'])
        print('real helper process, holder in its own directory <W> with jugdir %r:' % (obj['smoke_jugdir'],))
        for pr in problems:
            print('VIOLATED:', pr)
        print('expected: get() starts one helper process that addresses the lock file; release() kills it')
        return 1 if problems else 0
    scn = obj.get('scenario')
    if not scn:
        print('replay: nothing to re-execute (%s)' % obj.get('kind'))
        for b in obj.get('no_longer_checks', []):
            print('  no longer checks:', b)
        return 2
    C, terr = source_constants()
    print('constants in the source now:', C, ('(translator: %s)' % terr) if terr else '')
    with jugrun.scratch_dir('jugv19r') as root:
        sim = run_scenario(scn, root, 0)
        bad = oracle(scn, sim, C)
        print('scenario: t0=%d helper starts at t0+%d, env (drift,startup)=%s, %d rounds, actions (relative to t0): %s'
              % (scn['t0'], scn['s'], scn['env'], sum(n for n, _ in scn['rounds']),
                 [(a[0] - scn['t0'], a[1]) + (('wake-up between its primitives',) if len(a) > 3 and a[3] else ()) for a in scn['actions'][:40]]))
        print('holder: working directory <W>, jugdir %r; start of the helper: %s' % (scn.get('jugdir', {'mode': 'abs', 'via': 'class', 'dir': 'jd'}),
                                                                                    launch_json(sim)))
        print('observed (relative to t0):', [(o[0], o[1] - scn['t0']) + tuple(o[2:]) for o in sim.outs[-40:]])
        if obj.get('observed') is not None:
            same = [list(o) for o in sim.outs][-len(obj['observed']):] == [list(o) for o in obj['observed']] if obj['observed'] else True
            print('same as recorded:', same)
        for what, detail in bad:
            print('VIOLATED: %s - %s' % (what, detail))
        print('expected: the helper addresses the lock file / live holder never reported failed / dead holder reported failed from '
              'td+period+drift+expiry on / helper ends / after fail() returned True the lock stays failed')
        rc = 1 if bad else 0
        if obj.get('kind') == 'correspondence':
            ck = core.Check(prop, 'quick', 0)
            try:
                case = render_case(scn, sim, C['period'])
                fails = ck.cases('replay', IMPORTS, CASE_TYPE, CHK, [case])
                print('model agrees with the real code on this run:', fails == [])
                if fails != []:
                    rc = 1
            except Exception as e:
                print('model could not be evaluated:', e)
                rc = 1
        return rc
