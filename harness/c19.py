"""C19 - keep-alive locks: live holders are never reported failed, dead ones are, the helper ends.

Proof: Props/C19.v (Model/Keepalive.v, Proofs/KeepaliveFacts.v), instantiated on the constants that
harness/translate_c19.py regenerates from /repo into Gen/KeepaliveParams.v.
Tie: the REAL jug.backends.file_keepalive_monitor.main() loop, the REAL file_keepalive_based_lock
get/release/fail/is_locked/is_failed and the REAL `cleanup --failed-only` command are driven on a
simulated clock (patched sleep/getppid/kill/utime in the monitor module, time/Popen in file_store; a
real lock file in a scratch directory carries the simulated mtimes) through generated fault
sequences; refresh times, the helper's end (time, cause) and what other clients see are compared
with the model inside coqc.
Search: the same runs are judged by the property's own oracle, independent of Coq."""
import importlib
import math
import os
import sys
import time as _time

from . import core
from .core import zlit, listlit, boollit
from . import jugrun
from jug.backends import file_store as fs
from jug.subcommands.cleanup import cleanup as cleanup_cmd

mon = importlib.import_module('jug.backends.file_keepalive_monitor')

EVIDENCE = dict(
    level='proof',
    rule='case = one fault sequence (lock acquired at t0, helper start-up delay, per-round sleep overruns, holder death / '
         'release() / fail() / removal of the lock file by somebody else, is_locked()/is_failed() queries, cleanup --failed-only and '
         'get() by other clients at chosen simulated times; runs from seconds to days) with everything the real code did '
         '(refresh times, end of the helper with cause, answers); non-trivial = the helper refreshed the lock at least once or a '
         'fault happened; distinct = distinct scenario tuples',
    explanation='Coq theorems over the keep-alive state machine for all event sequences, instantiated on the constants extracted '
                'from the source + differential evaluation of the model against the real monitor loop / lock class on a simulated clock',
)

DEFAULTS = dict(period=5, rounds=60, expiry=1800, failed_atime=1, failed_mtime=1)   # as documented in the source
# admissible environments (drift, startup): Props/C19.v proves the theorems for startup + 60*drift < 1500
ENVS = [(0, 0), (2, 10), (20, 250), (24, 59), (10, 899), (0, 1499)]
PARENT = 4242
NAME = 'c19lock'

IMPORTS = 'From JugV Require Import Model.Keepalive Gen.KeepaliveParams.'
CASE_TYPE = 'Z * Z * Z * Z * list citem * list out'
CHK = ('fun c => match c with (t0, s, dr, st, items, obs) => '
       'let evs := expand (t0 + s) items in '
       'valid ka_params dr (init ka_params t0 st) evs && '
       'list_eqb out_eqb (outs ka_params (init ka_params t0 st) evs) obs end')


def source_constants():
    """(constants, error): the translator's view of /repo; documented defaults when it fails."""
    try:
        from . import translate_c19
        return translate_c19.extract(), None
    except Exception as e:   # TranslateError etc.: the proof side reports it; the search still needs numbers
        return dict(DEFAULTS), '%s: %s' % (type(e).__name__, e)


# ------------------------------------------------------------------------------------------------
# the simulated world around the real code
class _Killed(BaseException):
    """SIGKILL of the helper process (unwinds the real main())."""


class _Horizon(BaseException):
    """The scenario's schedule of rounds is exhausted (the helper is still running)."""


class FakePopen:
    def __init__(self, sim, args):
        self.sim = sim
        self.args = list(args)
        self.killed = False
        sim.popens.append(self)

    def kill(self):
        self.killed = True
        self.sim.on_kill(self)

    def poll(self):
        return -9 if self.killed else None

    def wait(self, timeout=None):
        return self.poll()


class Sim:
    """One scenario: the holder acquires the lock at t0, the helper's main() starts at t0 + s, faults
    happen at their simulated times *inside* the patched sleep()."""

    def __init__(self, scn, jugdir):
        self.scn = scn
        self.jugdir = jugdir
        self.lockpath = os.path.join(jugdir, 'locks', NAME + '.lock')
        self.now = scn['t0']
        self.alive = True
        self.actions = [(int(a[0]), a[1], bool(a[2])) for a in scn['actions']]
        self.ai = 0
        self.drift_it = (dr for n, dr in scn['rounds'] for _ in range(n))
        self.outs = []
        self.anomalies = []
        self.popens = []
        self.mon_running = False
        self.in_main = False
        self.kill_pending = False
        self.utime_failed_at = None
        self.last_wake = None
        self.nwakes = 0
        self.store = fs.file_keepalive_store(jugdir)

    # ---- what the monitor module sees
    def p_sleep(self, secs):
        try:
            dr = next(self.drift_it)
        except StopIteration:
            raise _Horizon()
        if type(secs) is not int:
            self.anomalies.append('sleep(%r): not an integer number of seconds' % (secs,))
            secs = int(secs)
        target = self.now + secs + dr
        acts = self.actions
        while self.ai < len(acts):
            t, kind, after = acts[self.ai]
            if t < target or (t == target and not after):
                self.ai += 1
                self.apply(t, kind)
            else:
                break
        self.now = target
        self.last_wake = target
        self.nwakes += 1

    def p_getppid(self):
        if self.alive:
            return PARENT
        mode = self.scn.get('death_mode', 'ppid1')
        return 1 if mode == 'ppid1' else (777 if mode == 'ppid_other' else PARENT)

    def p_kill(self, pid, sig):
        if sig != 0:
            self.anomalies.append('kill(%r, %r): the monitor sent a real signal' % (pid, sig))
        if pid == PARENT and not self.alive:
            mode = self.scn.get('death_mode', 'ppid1')
            if mode == 'kill_eperm':
                raise PermissionError(1, 'Operation not permitted')
            raise ProcessLookupError(3, 'No such process')
        return None

    def p_utime(self, path, times=None):
        if path != self.lockpath or times is not None:
            self.anomalies.append('utime(%r, %r): unexpected arguments' % (path, times))
        try:
            os.utime(self.lockpath, (self.now, self.now))
        except OSError:
            self.utime_failed_at = self.now
            raise
        self.outs.append(('refresh', self.now))

    def p_time(self):
        return float(self.now)

    def p_popen(self, args, *a, **kw):
        return FakePopen(self, args)

    def on_kill(self, p):
        if self.popens and p is self.popens[0] and self.mon_running:
            self.mon_running = False
            self.outs.append(('exit', self.now, 'killed'))
            self.kill_pending = True

    # ---- faults and other clients
    def apply(self, t, kind):
        self.now = t
        if kind == 'die':
            self.alive = False
        elif kind == 'release':
            if self.alive:
                self.wl.release()
        elif kind == 'fail':
            if self.alive:
                self.wl.fail()
        elif kind == 'unlink':
            mode = self.scn.get('unlink_mode', 'os')
            if mode == 'remove_locks':
                self.store.remove_locks()            # what `cleanup --locks-only` does
            elif mode == 'other_release':
                self.store.getlock(NAME).release()   # another client's release()
            elif os.path.exists(self.lockpath):
                os.unlink(self.lockpath)
        elif kind == 'query':
            other = self.store.getlock(NAME)
            self.outs.append(('locked', t, bool(other.is_locked())))
            self.outs.append(('failed', t, bool(other.is_failed())))
        elif kind == 'cleanup':
            said = []

            class Opt:
                cleanup_locks_only = False
                cleanup_failed_only = True
                cleanup_keep_locks = False
                print_out = staticmethod(lambda *a, **k: said.append(' '.join(str(x) for x in a)))
            cleanup_cmd.run(self.store, Opt())
            if said == ['Removed 1 failure locks']:
                self.outs.append(('cleaned', t, True))
            elif said == ['Removed 0 failure locks']:
                self.outs.append(('cleaned', t, False))
            else:
                self.anomalies.append('cleanup --failed-only said %r' % (said,))
                self.outs.append(('cleaned', t, False))
        elif kind == 'get':
            other = self.store.getlock(NAME)
            got = bool(other.get())
            if got:
                os.utime(self.lockpath, (t, t))       # creation time on the simulated clock
            self.outs.append(('get', t, got))
        else:
            raise ValueError('unknown action ' + kind)
        if self.kill_pending:
            self.kill_pending = False
            if self.in_main:
                raise _Killed()

    def run(self):
        patches = [(mon, 'sleep', self.p_sleep), (mon, 'getppid', self.p_getppid), (mon, 'kill', self.p_kill),
                   (mon, 'utime', self.p_utime), (mon, 'argv', ['file_keepalive_monitor', self.lockpath]),
                   (fs, 'time', self.p_time), (fs, 'Popen', self.p_popen)]
        saved = [(m, n, getattr(m, n)) for m, n, _ in patches]
        for m, n, v in patches:
            setattr(m, n, v)
        try:
            self._run()
        finally:
            for m, n, v in saved:
                setattr(m, n, v)
        return self

    def _run(self):
        scn = self.scn
        t0, s = scn['t0'], scn['s']
        self.wl = fs.file_keepalive_based_lock(self.jugdir, NAME)
        if self.wl.get() is not True:
            self.anomalies.append('the holder could not acquire a fresh lock')
            return
        os.utime(self.lockpath, (t0, t0))
        want = [sys.executable, '-m', 'jug.backends.file_keepalive_monitor', self.lockpath]
        if len(self.popens) != 1 or self.popens[0].args != want:
            self.anomalies.append('get() did not start exactly one helper with the expected command line: %r'
                                  % ([p.args for p in self.popens],))
            return
        self.mon_running = True
        start = t0 + s
        while self.ai < len(self.actions) and self.actions[self.ai][0] < start:
            t, kind, after = self.actions[self.ai]
            self.ai += 1
            self.apply(t, kind)
        self.now = start
        if self.mon_running:
            self.in_main = True
            ended = None
            try:
                mon.main()
                ended = 'returned'
            except _Killed:
                ended = 'killed'
            except _Horizon:
                ended = 'horizon'
            except Exception as e:
                ended = 'crashed'
                self.anomalies.append('the monitor loop raised %s: %s' % (type(e).__name__, e))
            finally:
                self.in_main = False
            if ended in ('returned', 'crashed'):
                cause = 'lockgone' if (self.utime_failed_at is not None and self.utime_failed_at == self.now) else 'parent'
                if ended == 'crashed':
                    cause = 'crashed'
                self.outs.append(('exit', self.now, cause))
                self.mon_running = False
        while self.ai < len(self.actions):
            t, kind, after = self.actions[self.ai]
            self.ai += 1
            self.apply(t, kind)


def run_scenario(scn, root, k=0):
    jugdir = os.path.join(root, 'jd%d' % k)
    os.makedirs(jugdir)
    try:
        return Sim(scn, jugdir).run()
    finally:
        import shutil
        shutil.rmtree(jugdir, ignore_errors=True)


# ------------------------------------------------------------------------------------------------
# the property's own oracle (no model, no Coq)
def oracle(scn, sim, C):
    P, R, E = C['period'], C['rounds'], C['expiry']
    dr_env, st_env = scn['env']
    D = P + dr_env
    bad = [('harness-anomaly', a) for a in sim.anomalies]
    obs = [o for o in sim.outs if o[0] in ('locked', 'failed', 'cleaned', 'get')]
    oi = 0
    alive, held, removed, foreign = True, True, False, False
    td = None           # death of the holder while it held the lock
    t_kill = None       # first release()/fail() by the live holder
    t_gone = None       # first removal of the lock file by somebody else
    fail_marked = False
    for a in scn['actions']:
        t, kind = a[0], a[1]
        live = alive and held and not removed and not foreign
        dead_held = (td is not None) and held and not removed and not foreign
        if kind == 'die':
            if alive:
                alive = False
                if held:
                    td = t
        elif kind == 'release':
            if alive:
                if t_kill is None and held:
                    t_kill = t
                held = False
                removed = True
                fail_marked = False
        elif kind == 'fail':
            if alive:
                if t_kill is None and held:
                    t_kill = t
                held = False
                fail_marked = not removed
        elif kind == 'unlink':
            if not removed and t_gone is None and held and not foreign:
                t_gone = t
            removed = True
            fail_marked = False
        elif kind == 'query':
            if oi + 1 >= len(obs) or obs[oi][0] != 'locked' or obs[oi + 1][0] != 'failed':
                bad.append(('harness-anomaly', 'query at %d has no observation' % t))
                break
            locked, failed = obs[oi][2], obs[oi + 1][2]
            oi += 2
            if live and failed:
                bad.append(('live holder reported failed', 'is_failed() = True at t0+%d while the holder is alive and holds the lock' % (t - scn['t0'])))
            if live and not locked:
                bad.append(('live holder lock not seen', 'is_locked() = False at t0+%d' % (t - scn['t0'])))
            if dead_held and t >= td + D + E and not failed:
                bad.append(('dead holder not reported failed', 'is_failed() = False at td+%d (holder died at t0+%d)' % (t - td, td - scn['t0'])))
            if removed and not foreign and (locked or failed):
                bad.append(('removed lock still seen', 'locked=%s failed=%s at t0+%d' % (locked, failed, t - scn['t0'])))
            if fail_marked and not removed and not foreign and t >= C['failed_mtime'] + E and not failed:
                bad.append(('failed mark not reported', 'is_failed() = False at t0+%d after fail()' % (t - scn['t0'])))
        elif kind == 'cleanup':
            if oi >= len(obs) or obs[oi][0] != 'cleaned':
                bad.append(('harness-anomaly', 'cleanup at %d has no observation' % t))
                break
            cleaned = obs[oi][2]
            oi += 1
            if live and cleaned:
                bad.append(('cleanup --failed-only removed a live lock', 'at t0+%d' % (t - scn['t0'])))
            if dead_held and t >= td + D + E and not cleaned:
                bad.append(('cleanup --failed-only left a dead lock', 'at td+%d' % (t - td)))
            if cleaned:
                removed = True
                fail_marked = False
        elif kind == 'get':
            if oi >= len(obs) or obs[oi][0] != 'get':
                bad.append(('harness-anomaly', 'get at %d has no observation' % t))
                break
            got = obs[oi][2]
            oi += 1
            if live and got:
                bad.append(('lock stolen from a live holder', 'get() = True at t0+%d' % (t - scn['t0'])))
            if removed and not foreign and not got:
                bad.append(('get() fails although the lock was removed', 'at t0+%d' % (t - scn['t0'])))
            if got:
                foreign = True
    # ---- the helper
    exits = [o for o in sim.outs if o[0] == 'exit']
    if len(exits) > 1:
        bad.append(('harness-anomaly', 'helper ended twice: %r' % (exits,)))
    ex = exits[0] if exits else None
    if ex is not None and ex[2] == 'crashed':
        bad.append(('helper crashed', 'at t0+%d' % (ex[1] - scn['t0'])))
    deadlines = []
    if t_kill is not None:
        deadlines.append(('release/fail', t_kill))
    if td is not None:
        deadlines.append(('holder death', td + D + st_env))
    if t_gone is not None and not foreign:
        deadlines.append(('lock file removal', t_gone + R * D + st_env))
    any_cause = (t_kill is not None) or (not alive) or (t_gone is not None) or removed
    if not any_cause and ex is not None:
        bad.append(('helper ended while the holder lives and holds the lock', 'at t0+%d cause %s' % (ex[1] - scn['t0'], ex[2])))
    if deadlines:
        why, dl = min(deadlines, key=lambda x: x[1])
        covered = (sim.last_wake is not None and sim.last_wake > dl) or not sim.mon_running
        if ex is None and covered and sim.mon_running:
            bad.append(('helper still running', 'after %s: expected to end by t0+%d, simulated until t0+%d'
                        % (why, dl - scn['t0'], sim.last_wake - scn['t0'])))
        if ex is not None and ex[1] > dl:
            bad.append(('helper ended late', 'after %s: ended t0+%d, expected by t0+%d' % (why, ex[1] - scn['t0'], dl - scn['t0'])))
    if td is not None:
        for o in sim.outs:
            if o[0] == 'refresh' and o[1] > td + D:
                bad.append(('dead holder lock refreshed', 'refresh at td+%d' % (o[1] - td)))
    return bad


# ------------------------------------------------------------------------------------------------
# rendering for Coq
EV = {'die': 'EDie', 'release': 'ERelease', 'fail': 'EFail', 'unlink': 'EUnlink', 'query': 'EQuery',
      'cleanup': 'ECleanup', 'get': 'EGet'}
CAUSE = {'parent': 'CParent', 'lockgone': 'CLockGone', 'killed': 'CKilled'}


def render_items(scn, period):
    """The scenario as Model.Keepalive.citem list, computed from the scenario alone (not from what the
    real code did): wake-ups every period + drift seconds, actions at their times; an action at the
    very second of a wake-up comes first unless flagged `after`."""
    items = []
    acts = scn['actions']
    ai = 0
    lw = scn['t0'] + scn['s']
    for n, dr in scn['rounds']:
        d = period + dr
        if d <= 0:
            raise ValueError('non-positive round length')
        remaining = n
        while remaining > 0:
            if ai < len(acts):
                t, kind, after = acts[ai][0], acts[ai][1], bool(acts[ai][2])
                k = (t - lw) // d if after else (t - lw - 1) // d
                k = max(0, min(k, remaining))
            else:
                k = remaining
            if k > 0:
                items.append('CWakes %s %s' % (zlit(k), zlit(d)))
                lw += k * d
                remaining -= k
            if remaining > 0 and ai < len(acts):
                items.append('CEv %s %s' % (zlit(acts[ai][0]), EV[acts[ai][1]]))
                ai += 1
    while ai < len(acts):
        items.append('CEv %s %s' % (zlit(acts[ai][0]), EV[acts[ai][1]]))
        ai += 1
    return items


def render_out(o):
    k = o[0]
    if k == 'refresh':
        return 'ORefresh %s' % zlit(o[1])
    if k == 'exit':
        return 'OExit %s %s' % (zlit(o[1]), CAUSE[o[2]])
    return {'locked': 'OLocked', 'failed': 'OFailed', 'cleaned': 'OCleaned', 'get': 'OGet'}[k] + ' %s %s' % (zlit(o[1]), boollit(o[2]))


def render_case(scn, sim, period):
    return '(%s, %s, %s, %s, %s, %s)' % (zlit(scn['t0']), zlit(scn['s']), zlit(scn['env'][0]), zlit(scn['env'][1]),
                                         listlit(render_items(scn, period)), listlit([render_out(o) for o in sim.outs]))


# ------------------------------------------------------------------------------------------------
# scenario generation
class Schedule:
    """Blocks (n rounds, drift) after the helper's start; wake-up j (1-based) happens at time_of(j)."""

    def __init__(self, start, period):
        self.start = start
        self.period = period
        self.blocks = []

    def end(self):
        return self.start + sum(n * (self.period + dr) for n, dr in self.blocks)

    def count(self):
        return sum(n for n, dr in self.blocks)

    def time_of(self, j):
        t = self.start
        for n, dr in self.blocks:
            if j <= n:
                return t + j * (self.period + dr)
            t += n * (self.period + dr)
            j -= n
        return t

    def extend_to(self, rng, t_end, dr_env, fine=False):
        """append blocks until the last wake-up is later than t_end"""
        while self.end() <= t_end:
            left = t_end - self.end()
            dr = rng.choice([0, dr_env, rng.randint(0, dr_env)])
            d = self.period + dr
            need = left // d + 1
            if fine:
                n = 1
            else:
                n = need if rng.random() < 0.4 else rng.randint(1, need)
            self.blocks.append([n, dr])


def gen_scenario(rng, C, max_days, tight=None):
    P, R, E = C['period'], C['rounds'], C['expiry']
    dr_env, st_env = rng.choice(ENVS) if tight is None else tight
    D = P + dr_env
    t0 = rng.choice([1000000, 1700000000]) + rng.randrange(0, 100000)
    s = rng.choice([0, st_env, rng.randint(0, st_env)])
    dur = int(10 ** rng.uniform(1, math.log10(max_days * 86400)))
    fate = rng.choices(['alive', 'die', 'release', 'fail', 'unlink', 'mixed'], weights=[4, 5, 1, 1, 2, 4])[0]
    sch = Schedule(t0 + s, P)
    fine = dur < 70 * P or rng.random() < 0.05 and dur < 3000 * P
    if rng.random() < 0.15:           # every round as slow as the environment allows: longest refresh gaps
        n = (dur + 2 * D) // D + 1
        sch.blocks.append([n, dr_env])
        s = st_env
        sch.start = t0 + s
    else:
        sch.extend_to(rng, t0 + dur + D, dr_env, fine=fine)
    acts = []       # [t, kind, after]

    def near_wake(t):
        """t, or (40%) the second of / next to a wake-up close to it"""
        if rng.random() < 0.4 and sch.count() > 0:
            j = max(1, min(sch.count(), (t - sch.start) // D + rng.randint(-1, 1)))
            if rng.random() < 0.5 and R > 0:
                j = max(1, min(sch.count(), (j // R) * R + rng.choice([0, 0, 1, -1])))   # around a refresh
            return max(t0, sch.time_of(j) + rng.choice([-1, 0, 0, 0, 1]))
        return t
    tf = near_wake(t0 + dur)
    end = tf
    scn = {'t0': t0, 's': s, 'env': [dr_env, st_env], 'fate': fate,
           'death_mode': rng.choice(['ppid1', 'ppid1', 'ppid_other', 'kill_esrch', 'kill_eperm']),
           'unlink_mode': rng.choice(['os', 'remove_locks', 'other_release'])}
    if fate == 'die':
        acts.append([tf, 'die'])
        tail = rng.choice([D + 2, E // 2, E + D + 50, 2 * E + 100])
        for q in (tf + D + E, tf + D + E + rng.randint(0, 500), tf + E - 1, tf + rng.randint(0, max(1, tail))):
            if q <= tf + tail:
                acts.append([q, 'query'])
        r = rng.random()
        if r < 0.5:
            tc = tf + D + E + rng.randint(0, 3000)
            acts.append([tc, 'cleanup'])
            acts.append([tc + rng.randint(0, 50), 'get'])
            if rng.random() < 0.5:
                acts.append([tc + 60, 'query'])
        elif r < 0.65:
            acts.append([tf + rng.randint(0, E), 'cleanup'])     # too early (most of the time)
            acts.append([tf + E + D + 5, 'query'])
        elif r < 0.8:
            tu = tf + rng.randint(0, tail + 1)
            acts.append([tu, 'unlink'])
            acts.append([tu + rng.randint(0, 100), 'get'])
    elif fate in ('release', 'fail'):
        acts.append([tf, fate])
        acts.append([tf + rng.randint(0, 5), 'query'])
        acts.append([tf + rng.randint(0, 2 * E), 'query'])
        if rng.random() < 0.6:
            tc = tf + rng.randint(0, 100)
            acts.append([tc, 'cleanup'])
            acts.append([tc + rng.randint(0, 20), 'get'])
        if rng.random() < 0.3:
            acts.append([tf + rng.randint(0, 200), 'die'])
    elif fate == 'unlink':
        acts.append([tf, 'unlink'])
        tail = rng.choice([D, R * D // 2, R * D + st_env + D + 1, R * D + st_env + 500])
        acts.append([tf + rng.randint(0, tail), 'query'])
        r = rng.random()
        if r < 0.3:
            acts.append([tf + rng.randint(0, tail), 'get'])
        elif r < 0.5:
            acts.append([tf + rng.randint(0, tail), rng.choice(['release', 'fail', 'die'])])
        acts.append([tf + tail, 'query'])
    elif fate == 'mixed':
        t = tf
        kinds = rng.sample(['unlink', 'fail', 'release', 'die', 'cleanup', 'get', 'unlink', 'fail', 'release'], rng.randint(2, 5))
        dead = False
        for kd in kinds:
            if dead and kd in ('release', 'fail'):
                continue
            acts.append([t, kd])
            dead = dead or kd == 'die'
            acts.append([t + rng.randint(0, 3), 'query'])
            t += rng.choice([0, 1, rng.randint(0, 2 * D), rng.randint(0, 2 * E + 200)])
        acts.append([t + rng.choice([0, E, E + D + R * D + st_env + 1]), 'query'])
    # queries (and harmless cleanup / get attempts by other clients) while the task runs
    for _ in range(rng.randint(1, 5)):
        acts.append([rng.randint(t0, max(t0, tf)), rng.choices(['query', 'cleanup', 'get'], weights=[6, 2, 1])[0]])
    nref = sch.count() // R if R > 0 else 0
    for _ in range(min(3, nref)):       # at the second of a refresh: longest gap (before) / fresh (after)
        j = R * rng.randint(1, nref)
        acts.append([sch.time_of(j), 'query', rng.random() < 0.3])
    acts = [a if len(a) == 3 else a + [rng.random() < 0.25] for a in acts]
    acts.sort(key=lambda a: a[0])
    end = max([end] + [a[0] for a in acts])
    sch.extend_to(rng, end + D, dr_env, fine=False)
    scn['rounds'] = sch.blocks
    scn['actions'] = acts
    # the start-up race outside the model: holder gone before the helper first reads getppid(), and
    # re-parented to a sub-reaper (pid != 1).  Generated with the classic re-parenting to pid 1 only.
    if any(a[1] == 'die' and a[0] <= t0 + s for a in acts) and scn['death_mode'] == 'ppid_other':
        scn['death_mode'] = 'ppid1'
    return scn


def tight_scenarios(C, hours, dense):
    """Deterministic adversarial timelines: the holder lives, every round takes as long as the
    environment allows, the helper starts as late as allowed; other clients look at the lock at
    the second of every wake-up (dense) or of every refresh (sparse), before and after it."""
    P, R = C['period'], max(1, C['rounds'])
    out = []
    for dr_env, st_env in ENVS:
        D = P + dr_env
        t0 = 1000000
        n = hours * 3600 // D + 1
        acts = []
        step = 1 if dense else R
        for j in range(step, n + 1, step):
            t = t0 + st_env + j * D
            acts.append([t, 'query', False])
            if not dense:
                acts.append([t, 'cleanup', False])
                acts.append([t, 'get', False])
                acts.append([t, 'query', True])
        out.append({'t0': t0, 's': st_env, 'env': [dr_env, st_env], 'fate': 'alive-tight', 'death_mode': 'ppid1',
                    'unlink_mode': 'os', 'rounds': [[n + 1, dr_env]], 'actions': acts})
    return out


def duration_bucket(scn):
    d = (scn['actions'][-1][0] - scn['t0']) if scn['actions'] else 0
    return '<1min' if d < 60 else '<1h' if d < 3600 else '<1day' if d < 86400 else '>=1day'


# ------------------------------------------------------------------------------------------------
def smoke_real_process(ck, root):
    """One real helper process: get() starts it, release() kills it (thorough tier only)."""
    jugdir = os.path.join(root, 'smoke')
    lock = fs.file_keepalive_based_lock(jugdir, 'smoke')
    problems = []
    if lock.get() is not True:
        problems.append('get() failed on a fresh directory')
    p = lock.monitor
    if p is None:
        problems.append('no helper process was started')
    else:
        _time.sleep(0.3)
        if p.poll() is not None:
            problems.append('helper process ended by itself within 0.3 s (returncode %r)' % p.returncode)
        try:
            cmd = open('/proc/%d/cmdline' % p.pid, 'rb').read().split(b'\0')
            if b'jug.backends.file_keepalive_monitor' not in cmd or lock.fullname.encode() not in cmd:
                problems.append('unexpected helper command line %r' % (cmd,))
        except OSError:
            pass
        lock.release()
        try:
            rc = p.wait(timeout=5)
            if rc != -9:
                problems.append('helper ended with returncode %r, expected -9 (SIGKILL)' % rc)
        except Exception as e:
            problems.append('helper still running 5 s after release(): %s' % e)
            p.kill()
        if lock.monitor is not None:
            problems.append('release() left lock.monitor set')
    if os.path.exists(lock.fullname):
        problems.append('lock file still there after release()')
    ck.count('smoke:real-process')
    ck.obligations.append({'name': 'real helper process: started by get(), killed by release()', 'kind': 'test',
                           'ok': not problems, 'msg': '; '.join(problems)})
    if problems:
        ck.violation({'kind': 'impl-violation', 'what': 'real helper process smoke test', 'problems': problems,
                      'how_to_run': 'bin/check C19 --tier thorough'})


def minimise(scn, what, root, C):
    """Keep only the actions needed to show a violation of kind `what` (greedy, bounded)."""
    best = scn
    tries = 0
    if what == 'live holder reported failed':      # usually the offending query alone is enough
        cur = first_failing_prefix(scn, what, root, C)
        if cur is not scn and any(w == what for w, _ in oracle(cur, run_scenario(cur, root, 999999), C)):
            return cur
    i = len(best['actions']) - 1
    while i >= 0 and tries < 60:
        cand = dict(best, actions=best['actions'][:i] + best['actions'][i + 1:])
        tries += 1
        if cand['actions'] and any(w == what for w, _ in oracle(cand, run_scenario(cand, root, 999999), C)):
            best = cand
        i -= 1
        i = min(i, len(best['actions']) - 1)
    return best


def first_failing_prefix(scn, what, root, C):
    """For a dense timeline: cut the scenario after the first observation that violates `what`."""
    sim = run_scenario(scn, root, 999998)
    qs = [o for o in sim.outs if o[0] == 'failed' and o[2]]
    if not qs:
        return scn
    t = qs[0][1]
    return dict(scn, actions=[a for a in scn['actions'] if a[0] == t][:1])


def run(ck):
    C, terr = source_constants()
    proved = ck.prove()
    ck.trusted_base = core.DEFAULT_TRUSTED_BASE + [
        'C19: harness/translate_c19.py (AST templates of the monitor loop, is_failed, fail, _FAILED_TIMESTAMP; fail-closed)',
        'C19: the simulated clock / process table around the real monitor loop (harness/c19.py: patched sleep, getppid, kill, utime, '
        'time, Popen); real lock files in a scratch directory carry the simulated mtimes',
    ]
    ck.assumptions = [
        'environment: every round of the helper (sleep + loop body) takes at most period + drift seconds, its first round at most '
        'startup more; proved for all drift, startup >= 0 with startup + 60*drift < 1500 (Props/C19.v)',
        'integer-second clock shared by all clients (no clock skew between NFS clients); one loop body of the helper is atomic',
        'the holder\'s death is visible to the helper through getppid()/kill(pid, 0) (no PID reuse; a stopped (SIGSTOP) holder counts '
        'as alive); the helper reads its parent pid before the holder can die',
        'nobody but the holder, its helper and the modelled clients touches the lock file',
    ]
    if terr:
        ck.notes.append('translator failed, direct search uses the documented constants: ' + terr)
    thorough = ck.tier == 'thorough'
    max_days = 7 if thorough else 3
    with jugrun.scratch_dir('jugv19') as root:
        scns = []
        scns += tight_scenarios(C, 6 if not thorough else 24, dense=False)
        nrand = ck.n(500, 20000)
        for _ in range(nrand):
            scns.append(gen_scenario(ck.rng, C, max_days))
        for env in ENVS:    # random faults on the slowest admissible schedule of each environment
            for _ in range(ck.n(5, 100)):
                scns.append(gen_scenario(ck.rng, C, max_days, tight=env))
        cases, meta = [], []
        t_sim = _time.time()
        for k, scn in enumerate(scns):
            sim = run_scenario(scn, root, k)
            bad = oracle(scn, sim, C)
            for what, detail in bad:
                if what == 'harness-anomaly' or ck.viol_by_what.get(what, 0) >= core.MAX_REPLAYS_PER_KIND:
                    small = scn         # (further ones of the same kind are only counted)
                else:
                    small = minimise(scn, what, root, C)
                ssim = run_scenario(small, root, 999997)
                ck.violation({'kind': 'impl-violation', 'what': what, 'detail': detail, 'scenario': small,
                              'observed': ssim.outs, 'constants_in_source': C,
                              'how_to_run': 'bin/check C19 --replay <this file>'})
            ck.count('fate:' + scn['fate'])
            ck.count('duration:' + duration_bucket(scn))
            ck.count('refreshes', sum(1 for o in sim.outs if o[0] == 'refresh'))
            ck.count('rounds', sim.nwakes)
            for o in sim.outs:
                if o[0] == 'exit':
                    ck.count('helper-end:' + o[2])
            if sim.mon_running:
                ck.count('helper-end:none(still running at the end of the scenario)')
            nontrivial = any(o[0] == 'refresh' for o in sim.outs) or any(a[1] in ('die', 'release', 'fail', 'unlink') for a in scn['actions'])
            ck.distinct((scn['t0'], scn['s'], scn['env'], scn['rounds'], scn['actions'], scn['death_mode'], scn['unlink_mode']), nontrivial)
            if any(o[0] == 'exit' and o[2] == 'crashed' for o in sim.outs):
                continue
            try:
                cases.append(render_case(scn, sim, C['period']))
                meta.append(scn)
            except ValueError as e:
                ck.broken.append('scenario could not be rendered for Coq: %s' % e)
            if k in (7, 40, 200):
                ck.sample({'scenario': dict(scn, rounds=scn['rounds'][:6], actions=scn['actions'][:8]), 'observed': sim.outs[:10]})
        ck.notes.append('simulation of %d scenarios: %.1fs' % (len(scns), _time.time() - t_sim))
        fails = ck.cases('keepalive', IMPORTS, CASE_TYPE, CHK, cases, shard=ck.n(60, 400))
        for i in (fails or []):
            sim = run_scenario(meta[i], root, 999996)
            ck.violation({'kind': 'correspondence', 'what': 'keep-alive run: model and real code disagree (or the run is outside the model\'s admissible runs)',
                          'scenario': meta[i], 'observed': sim.outs, 'coq_case': cases[i], 'constants_in_source': C,
                          'how_to_run': 'bin/check C19 --replay <this file>'})
        # ---- dense adversarial timelines, direct oracle only: any refresh cadence / expiry that lets a
        # live holder look dead shows up here with the exact second
        for scn in tight_scenarios(C, 3 if not thorough else 12, dense=True):
            sim = run_scenario(scn, root, 999995)
            ck.count('dense-timeline-queries', len(scn['actions']))
            seen = set()
            for what, detail in oracle(scn, sim, C):
                if what in seen:
                    continue
                seen.add(what)
                small = first_failing_prefix(scn, what, root, C) if what == 'live holder reported failed' else scn
                if small is scn:
                    small = dict(scn, actions=scn['actions'][:50])
                ssim = run_scenario(small, root, 999994)
                ck.violation({'kind': 'impl-violation', 'what': what, 'detail': detail, 'scenario': small,
                              'observed': ssim.outs[-6:], 'constants_in_source': C,
                              'how_to_run': 'bin/check C19 --replay <this file>'})
        if thorough:
            smoke_real_process(ck, root)


def replay(obj):
    """Re-execute one recorded scenario against /repo: prints what the real code does, what the
    property's oracle says, and (when Coq is available) whether the model agrees."""
    scn = obj.get('scenario')
    if not scn:
        print('replay: nothing to re-execute (%s)' % obj.get('kind'))
        for b in obj.get('no_longer_checks', []):
            print('  no longer checks:', b)
        return 2
    C, terr = source_constants()
    print('constants in the source now:', C, ('(translator: %s)' % terr) if terr else '')
    with jugrun.scratch_dir('jugv19r') as root:
        sim = run_scenario(scn, root, 0)
        bad = oracle(scn, sim, C)
        print('scenario: t0=%d helper starts at t0+%d, env (drift,startup)=%s, %d rounds, actions (relative to t0): %s'
              % (scn['t0'], scn['s'], scn['env'], sum(n for n, _ in scn['rounds']),
                 [(a[0] - scn['t0'], a[1]) for a in scn['actions'][:40]]))
        print('observed (relative to t0):', [(o[0], o[1] - scn['t0']) + tuple(o[2:]) for o in sim.outs[-40:]])
        if obj.get('observed') is not None:
            same = [list(o) for o in sim.outs][-len(obj['observed']):] == [list(o) for o in obj['observed']] if obj['observed'] else True
            print('same as recorded:', same)
        for what, detail in bad:
            print('VIOLATED: %s - %s' % (what, detail))
        print('expected: live holder never reported failed / dead holder reported failed from td+period+drift+expiry on / helper ends')
        rc = 1 if bad else 0
        if obj.get('kind') == 'correspondence':
            ck = core.Check('C19', 'quick', 0)
            try:
                case = render_case(scn, sim, C['period'])
                fails = ck.cases('replay', IMPORTS, CASE_TYPE, CHK, [case])
                print('model agrees with the real code on this run:', fails == [])
                if fails != []:
                    rc = 1
            except Exception as e:
                print('model could not be evaluated:', e)
                rc = 1
        return rc
