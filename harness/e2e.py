"""End-to-end differential section of C01 (also called by C02): a random JUGFILE TEXT is run

  (1) as plain sequential Python  - a subprocess in which `jug` is a stand-in package where Task(f, ...) = f(...),
      TaskGenerator = identity, indexing = indexing, barrier = no-op, bvalue/value/identity = identity, map = list(map) ...
  (2) by the REAL `jug execute`   - 1-4 real worker processes (concurrent, late joiners, --aggressive-unload, --target
      pre-runs), on the file store, the keep-alive file store, the in-memory store with a backing file and a redis
      server (a small RESP server of this module), optionally with `jug pack` between / after the executes,
      then `jug check`, a READER process (jug.init + jug.value of every top-level name) and one more `jug execute`.

Oracles: (a) the type-exact description of every top-level name is the one of the sequential run; (b) every execute and
the final `jug check` exit 0, no barrier is left pending; (c) every task-function call line of the sequential run's log is
in the distributed log exactly once (a line that occurs n > 1 times sequentially: 1..n times - jug legitimately runs
hash-equal tasks once); nothing else is in it; (d) the last execute is idle (no log line, exit 0).

API:  run_section(ck, n_quick, n_thorough)   gen_jugfile(rng) -> (text, info)   gen_config(rng, info) -> config
      run_case(text, config) -> list of problems   replay(obj) -> 0/1        python -m harness.e2e --seed N [--n 30]
"""
import collections
import fnmatch
import json
import os
import pickle
import random
import signal
import socketserver
import subprocess
import sys
import threading
import time
import types
from concurrent.futures import ThreadPoolExecutor

from . import core, jugrun
from . import e2e_texts as T

PY = sys.executable
JUG_MAIN = "import sys; from jug.jug import main; main(['jug'] + sys.argv[1:])"
MAX_PARALLEL_CASES = 12
PROC_TIMEOUT = float(os.environ.get('E2E_TIMEOUT', '90'))


# ------------------------------------------------------------------------------------------------ process slots
class _Slots:
    """at most `n` child processes at a time, whatever the number of case threads"""
    def __init__(self, n):
        self.n = n
        self.free = n
        self.cv = threading.Condition()

    def acquire(self, k):
        k = min(k, self.n)
        with self.cv:
            while self.free < k:
                self.cv.wait()
            self.free -= k
        return k

    def release(self, k):
        with self.cv:
            self.free += k
            self.cv.notify_all()


SLOTS = _Slots(max(8, min(24, (os.cpu_count() or 4) + 6)))


class Timeout(Exception):
    pass


def _base_env():
    env = dict(os.environ)
    for k in list(env):
        if k.startswith('JUG_') or k in ('E2E_LOG',):
            del env[k]
    env.update(PYTHONHASHSEED='0', OMP_NUM_THREADS='1', OPENBLAS_NUM_THREADS='1', MKL_NUM_THREADS='1',
               PYTHONWARNINGS='ignore')
    return env


def _spawn(args, cwd, env):
    return subprocess.Popen(args, cwd=cwd, env=env, stdout=subprocess.PIPE, stderr=subprocess.STDOUT,
                            stdin=subprocess.DEVNULL, start_new_session=True)


def _collect(p, timeout):
    try:
        out, _ = p.communicate(timeout=timeout)
    except subprocess.TimeoutExpired:
        try:
            os.killpg(p.pid, signal.SIGKILL)
        except OSError:
            pass
        try:
            p.communicate(timeout=10)
        except Exception:
            pass
        raise Timeout()
    return p.returncode, out.decode('utf-8', 'replace')


def _run_group(cmds, cwd, env, timeout):
    """cmds: list of (delay, argv).  All run concurrently (after their delay).  Returns [(rc, output)]."""
    k = SLOTS.acquire(len(cmds))
    procs = []
    try:
        t0 = time.time()
        for delay, argv in sorted(cmds, key=lambda c: c[0]):
            wait = t0 + delay - time.time()
            if wait > 0:
                time.sleep(wait)
            procs.append((argv, _spawn(argv, cwd, env)))
        res = {}
        timed_out = False
        for argv, p in procs:
            try:
                res[id(argv)] = _collect(p, timeout)
            except Timeout:
                timed_out = True
        if timed_out:
            raise Timeout()
        return [res[id(argv)] for _, argv in cmds]
    finally:
        for _, p in procs:
            if p.poll() is None:
                try:
                    os.killpg(p.pid, signal.SIGKILL)
                except OSError:
                    pass
                try:
                    p.wait(timeout=10)
                except Exception:
                    pass
        SLOTS.release(k)


# ------------------------------------------------------------------------------------------------ a small redis server
def _bulk(b, resp3):
    if b is None:
        return b'_\r\n' if resp3 else b'$-1\r\n'
    return b'$%d\r\n%s\r\n' % (len(b), b)


class _RespHandler(socketserver.StreamRequestHandler):
    def handle(self):
        srv = self.server
        rf = self.rfile
        resp3 = False
        try:
            while True:
                line = rf.readline()
                if not line:
                    return
                if not line.startswith(b'*'):
                    self.wfile.write(b'-ERR protocol\r\n')
                    return
                n = int(line[1:])
                args = []
                for _ in range(n):
                    ln = int(rf.readline()[1:])
                    args.append(rf.read(ln + 2)[:-2])
                cmd = args[0].upper()
                a = args[1:]
                d = srv.data
                with srv.lock:
                    if cmd == b'HELLO':
                        resp3 = True
                        out = b'%1\r\n$5\r\nproto\r\n:3\r\n'
                    elif cmd == b'SET':
                        d[a[0]] = a[1]
                        out = b'+OK\r\n'
                    elif cmd == b'SETNX':
                        if a[0] in d:
                            out = b':0\r\n'
                        else:
                            d[a[0]] = a[1]
                            out = b':1\r\n'
                    elif cmd == b'GET':
                        out = _bulk(d.get(a[0]), resp3)
                    elif cmd == b'EXISTS':
                        out = b':%d\r\n' % sum(1 for k in a if k in d)
                    elif cmd == b'DEL':
                        out = b':%d\r\n' % sum(1 for k in a if d.pop(k, None) is not None)
                    elif cmd == b'KEYS':
                        ks = [k for k in d if fnmatch.fnmatchcase(k.decode('latin1'), a[0].decode('latin1'))]
                        out = b'*%d\r\n' % len(ks) + b''.join(_bulk(k, resp3) for k in ks)
                    elif cmd == b'PING':
                        out = b'+PONG\r\n'
                    elif cmd in (b'CLIENT', b'SELECT'):
                        out = b'+OK\r\n'
                    else:
                        out = b'-ERR unknown command\r\n'
                self.wfile.write(out)
                self.wfile.flush()
        except (OSError, ValueError):
            return


class RespServer(socketserver.ThreadingTCPServer):
    """the part of the redis protocol that jug's redis_store uses (RESP2 and RESP3 handshake), one command = one atomic step"""
    allow_reuse_address = True
    daemon_threads = True

    def __init__(self):
        super().__init__(('127.0.0.1', 0), _RespHandler)
        self.data = {}
        self.lock = threading.Lock()
        self.thread = threading.Thread(target=self.serve_forever, kwargs={'poll_interval': 0.05}, daemon=True)
        self.thread.start()

    @property
    def port(self):
        return self.server_address[1]

    def stop(self):
        self.shutdown()
        self.server_close()


# ------------------------------------------------------------------------------------------------ one case
def _write(path, text):
    os.makedirs(os.path.dirname(path), exist_ok=True)
    with open(path, 'w') as f:
        f.write(text)


def prepare_root(root):
    """shared files of a run: the stand-in jug package and the two driver scripts"""
    for rel, text in T.STUB_FILES.items():
        _write(os.path.join(root, 'stub', rel), text)
    _write(os.path.join(root, 'ref_runner.py'), T.REF_RUNNER)
    _write(os.path.join(root, 'reader.py'), T.READER)


def _parse_marked(out):
    for line in out.splitlines():
        if line.startswith('@@'):
            try:
                return json.loads(line[2:])
            except ValueError:
                return None
    return None


def _read_log(path):
    if not os.path.exists(path):
        return []
    with open(path) as f:
        return [ln.rstrip('\n') for ln in f if ln.strip()]


def _spec(config, port):
    be = config['backend']
    if be == 'file':
        return 'jf.jugdata'
    if be == 'keepalive':
        return 'file_keepalive:jf.keepalive'
    if be == 'dict':
        return 'dict_store:jf.dict.pkl'
    if be == 'redis':
        return 'redis://127.0.0.1:%d/' % port
    raise ValueError(be)


def _tail(s, n=600):
    return s[-n:]


def run_case_in(d, root, text, config, timeout=PROC_TIMEOUT):
    """Runs reference + distributed run of one (text, config) in directory d.  Returns a list of problems
    [{'what':..., ...}]; raises Timeout when a process did not terminate."""
    _write(os.path.join(d, 'jf.py'), text)
    _write(os.path.join(d, 'e2e_support.py'), T.SUPPORT)
    env0 = _base_env()
    ref_env = dict(env0, PYTHONPATH=os.path.join(root, 'stub') + os.pathsep + d, E2E_LOG=os.path.join(d, 'ref.log'))
    run_log = os.path.join(d, 'run.log')
    jug_env = dict(env0, PYTHONPATH=core.REPO, E2E_LOG=run_log)
    server = RespServer() if config['backend'] == 'redis' else None
    problems = []
    try:
        spec = _spec(config, server.port if server else 0)
        # the sequential reference runs concurrently with the first step
        ref_holder = {}

        def run_ref():
            try:
                ref_holder['res'] = _run_group([(0, [PY, os.path.join(root, 'ref_runner.py'), 'jf.py'])], d, ref_env, timeout)[0]
            except Timeout:
                ref_holder['timeout'] = True
        rt = threading.Thread(target=run_ref)
        rt.start()
        try:
            base = ['--jugdir', spec]
            exe = ['--will-cite', '--nr-wait-cycles', str(config['K']), '--wait-cycle-time', str(config.get('wait', 0))]
            for si, step in enumerate(config['steps']):
                if step['op'] == 'pack':
                    rc, out = _run_group([(0, [PY, '-c', JUG_MAIN, 'pack', 'jf.py'] + base)], d, jug_env, timeout)[0]
                    if rc != 0:
                        problems.append({'what': 'end-to-end: `jug pack` exits with a non-zero status', 'step': si, 'exit': rc,
                                         'output_tail': _tail(out)})
                    continue
                cmds = []
                for w in step['workers']:
                    argv = [PY, '-c', JUG_MAIN, 'execute', 'jf.py'] + base + exe
                    if w.get('unload'):
                        argv.append('--aggressive-unload')
                    if w.get('target'):
                        argv += ['--target', w['target']]
                    cmds.append((w.get('delay', 0), argv))
                for wi, (rc, out) in enumerate(_run_group(cmds, d, jug_env, timeout)):
                    if rc != 0:
                        problems.append({'what': 'end-to-end: a `jug execute` worker of a failure-free program exits with a non-zero status',
                                         'step': si, 'worker': wi, 'exit': rc, 'output_tail': _tail(out)})
        finally:
            rt.join()
        if ref_holder.get('timeout'):
            raise Timeout()
        rrc, rout = ref_holder['res']
        ref = _parse_marked(rout)
        if rrc != 0 or ref is None:
            # the generated text is not a valid plain-Python program: a mistake of the generator, not of jug
            return [{'what': 'HARNESS: the sequential reference run failed', 'exit': rrc, 'output_tail': _tail(rout, 1500)}]
        ref_log = collections.Counter(_read_log(os.path.join(d, 'ref.log')))
        # ---- after all workers have exited: check, read
        renv = dict(jug_env, E2E_LOG=os.path.join(d, 'reader.log'))
        post = [(0, [PY, '-c', JUG_MAIN, 'check', 'jf.py'] + base), (0, [PY, os.path.join(root, 'reader.py'), 'jf.py', spec])]
        if config['backend'] == 'dict':
            # every process that opens dict_store:FILE rewrites FILE when it closes the store: one process at a time
            (crc, cout), (drc, dout) = [_run_group([c], d, renv, timeout)[0] for c in post]
        else:
            (crc, cout), (drc, dout) = _run_group(post, d, renv, timeout)
        if crc != 0:
            problems.append({'what': 'end-to-end: `jug check` says not finished after every execute exited', 'exit': crc,
                             'output_tail': _tail(cout)})
        got = _parse_marked(dout)
        if got is None:
            problems.append({'what': 'end-to-end: the reader process failed', 'exit': drc, 'output_tail': _tail(dout, 1200)})
        else:
            if not os.path.abspath(got['jug_file']).startswith(os.path.abspath(core.REPO) + os.sep):
                return [{'what': 'HARNESS: jug imported from %s, not from %s' % (got['jug_file'], core.REPO)}]
            if got['barrier']:
                problems.append({'what': 'end-to-end: the jugfile still stops at a barrier after every execute exited with status 0'})
            want = ref['values']
            have = got['values']
            for name in sorted(set(want) | set(have)):
                if name not in have:
                    problems.append({'what': 'end-to-end: a top-level name of the program is not defined after the run', 'name': name,
                                     'got': None, 'expected': want[name]})
                elif name not in want:
                    problems.append({'what': 'end-to-end: an extra top-level name', 'name': name, 'got': have[name], 'expected': None})
                elif have[name] != want[name]:
                    err = isinstance(have[name], list) and have[name][:1] == ['ERROR']
                    problems.append({'what': 'end-to-end: value() of a name %s' % ('cannot be loaded after the run' if err else
                                                                                  'differs from plain sequential Python'),
                                     'name': name, 'got': have[name], 'expected': want[name]})
        if _read_log(os.path.join(d, 'reader.log')):
            problems.append({'what': 'end-to-end: reading values / jug check executed a task function',
                             'lines': _read_log(os.path.join(d, 'reader.log'))[:5]})
        # ---- the execution log: exactly once
        log = collections.Counter(_read_log(run_log))
        for line in sorted(set(log) | set(ref_log)):
            n, r = log.get(line, 0), ref_log.get(line, 0)
            ok = (n == 1) if r == 1 else (1 <= n <= r)
            if not ok:
                problems.append({'what': 'end-to-end: a task function call is %s' % (
                    'missing from the distributed run' if n == 0 else 'not part of the sequential run' if r == 0 else
                    'executed more often than in the sequential run'), 'call': line, 'times': n, 'sequential_times': r})
        # ---- one more execute: idle
        if config.get('again', True):
            before = _read_log(run_log)
            rc, out = _run_group([(0, [PY, '-c', JUG_MAIN, 'execute', 'jf.py'] + base + exe)], d, jug_env, timeout)[0]
            after = _read_log(run_log)
            if rc != 0 or after != before:
                problems.append({'what': 'end-to-end: a later execute is not idle', 'exit': rc, 'executed': after[len(before):][:8],
                                 'output_tail': _tail(out)})
    finally:
        if server is not None:
            server.stop()
    return problems


def _dedup(problems, limit=6):
    out, seen = [], collections.Counter()
    for p in problems:
        seen[p['what']] += 1
        if seen[p['what']] <= 2 and len(out) < limit:
            out.append(p)
    return out


def run_case(text, config, root=None, timeout=PROC_TIMEOUT):
    """-> ('ok'|'fail'|'timeout', problems).  A timeout is re-run once: reproducible = problem, otherwise 'flaky'."""
    with jugrun.scratch_dir('jugv_e2e_case_') as top:
        if root is None:
            root = os.path.join(top, 'root')
            prepare_root(root)
        flaky = False
        for attempt in (0, 1):
            d = os.path.join(top, 'case%d' % attempt)
            os.makedirs(d)
            try:
                problems = run_case_in(d, root, text, config, timeout if attempt == 0 else 2 * timeout)
                return ('flaky-timeout' if flaky else 'done'), _dedup(problems)
            except Timeout:
                flaky = True
        return 'done', [{'what': 'end-to-end: a worker did not terminate (twice, %d s and %d s)' % (timeout, 2 * timeout)}]


# ------------------------------------------------------------------------------------------------ the generator
def _stub_namespace():
    """the plain-Python meaning of the API, in-process: the generator executes every statement it emits here, so it
    knows every value (valid indices, bvalue-dependent structure, int-valued names ...)"""
    sup = sys.modules.get('e2e_support')
    if sup is None or not getattr(sup, '_e2e_generated', False):
        sup = types.ModuleType('e2e_support')
        exec(compile(T.SUPPORT, '<e2e_support>', 'exec'), sup.__dict__)
        sup._e2e_generated = True
        sys.modules['e2e_support'] = sup
    core_ns = {}
    exec(compile(T.STUB_CORE, '<jug stub>', 'exec'), core_ns)
    import hashlib
    import numpy as np
    mr = types.SimpleNamespace(map=core_ns['mr_map'], currymap=core_ns['mr_currymap'], mapreduce=core_ns['mr_mapreduce'],
                               reduce=core_ns['mr_reduce'])
    ns = {k: core_ns[k] for k in ('TaskGenerator', 'Task', 'Tasklet', 'barrier', 'bvalue', 'value', 'iteratetask', 'CompoundTask',
                                  'CompoundTaskGenerator', 'return_tuple', 'identity', 'CustomHash', 'NoHash', 'hash_one')}
    ns.update(_os=os, _hashlib=hashlib, _collections=collections, np=np, jug=types.SimpleNamespace(mapreduce=mr, set_jugdir=core_ns['set_jugdir']),
              currymap=mr.currymap, Tagged=sup.Tagged, Pt=sup.Pt, _desc=sup.desc, __name__='jf')
    exec(compile(T.FUNCS, '<jugfile functions>', 'exec'), ns)
    return ns


CONSUMERS = ['show', 'wrap', 'pair', 'box', 'sq', 'cat', 'first', 'count', 'p_add']


class Gen:
    def __init__(self, rng):
        self.rng = rng
        self.ns = _stub_namespace()
        self.hook = []
        self.ns['_LOGHOOK'] = self.hook
        self.body = []
        self.tasks = []          # names whose jug object is a Task / Tasklet
        self.mapped = []         # names bound to the result of jug.mapreduce.map
        self.plain = []          # names bound to plain values (bvalue results, constants)
        self.seqs = []           # names bound to top-level containers of tasks
        self.seen = set()
        self.feats = collections.Counter()
        self.n = 0
        self.phases = 0
        self.funcs = set()
        self.pre = ''

    # -- helpers
    def fresh(self, p='x'):
        self.n += 1
        return '%s%d' % (p, self.n)

    def val(self, expr):
        return eval(expr, self.ns)

    def emit(self, stmt, names, feats, kinds=None, allow_dup=False):
        """execute stmt in the stub namespace; keep it if it runs and logs no call line that was seen before"""
        del self.hook[:]
        try:
            exec(compile(stmt, '<stmt>', 'exec'), self.ns)
            lines = [ln for ln in self.hook if not ln.startswith('r_')]
            ok = allow_dup or (len(set(lines)) == len(lines) and not (set(lines) & self.seen))
            if ok:
                for nm in names:
                    # results have to survive pickling type-exactly (documented limitation of jug; e.g. this numpy pickles a
                    # non-contiguous big-endian array as a native-endian one): such statements are not generated
                    d0 = json.dumps(self.ns['_desc'](self.ns[nm]))
                    if json.dumps(self.ns['_desc'](pickle.loads(pickle.dumps(self.ns[nm], pickle.HIGHEST_PROTOCOL)))) != d0:
                        ok = False
        except Exception:
            ok = False
        if not ok:
            for nm in names:
                self.ns.pop(nm, None)
            return False
        self.seen.update(self.hook)
        self.body.append(stmt)
        for f in feats:
            self.feats[f] += 1
        for ln in self.hook:
            self.funcs.add(ln.split(' ')[0])
        for nm, kind in zip(names, kinds or ['task'] * len(names)):
            getattr(self, {'task': 'tasks', 'mapped': 'mapped', 'plain': 'plain', 'seq': 'seqs'}[kind]).append(nm)
        return True

    # -- expressions
    def literal(self, depth=0):
        r = self.rng
        c = r.random()
        if c < 0.25:
            return repr(r.choice([0, 1, -1, 2, 3, 5, 17, 255, -40, 10 ** 12, 2 ** 70]))
        if c < 0.35:
            return repr(r.choice([0.5, -1.25, 1e-3, 3.0, 1e300, -0.0, 0.1]))
        if c < 0.45:
            return repr(r.choice(['', 'a', 'key', 'hello world', 'é中', 'x' * 40]))
        if c < 0.5:
            return repr(r.choice([b'', b'\x00\xff', b'bytes']))
        if c < 0.56:
            return r.choice(['None', 'True', 'False'])
        if c < 0.64:
            return r.choice(["OrderedDict([('b', 1), ('a', [2, 3])])", 'Pt(1, 2)', "Pt('u', (0.5, None))", 'frozenset([1, 2, 3])',
                             '{4, 5}', "_collections.defaultdict(list, {'k': [1]})"])
        if c < 0.72:
            return r.choice(["np.arange(3, dtype='>i2')", 'np.array([[1.5, 2.5]])', 'np.float32(2.5)', 'np.int64(-3)',
                             "np.array([(1, 2.0)], dtype=[('a', '<i4'), ('b', '>f8')])", 'np.matrix([[1, 2], [3, 4]])',
                             "Tagged([1, 2, 3], tag='lit')", 'np.array(7)', 'np.zeros((2, 0))'])
        if depth >= 2:
            return repr(r.randint(0, 9))
        k = r.randint(0, 3)
        items = [self.literal(depth + 1) for _ in range(k)]
        c = r.random()
        if c < 0.4:
            return '[' + ', '.join(items) + ']'
        if c < 0.7:
            return '(' + ''.join(i + ', ' for i in items) + ')'
        return '{' + ', '.join('%r: %s' % (r.choice(['a', 'b', 'c', 1, 2]) if j == 0 else 'k%d' % j, it) for j, it in enumerate(items)) + '}'

    def index_suffix(self, v, allow_task_index=True):
        """an index expression valid for the value v (None if v cannot be indexed)"""
        import numpy as np
        r = self.rng
        if isinstance(v, (list, tuple, str, bytes)) and len(v) > 0 and not hasattr(v, '_fields'):
            n = len(v)
            c = r.random()
            if c < 0.6:
                return '[%d]' % r.randint(-n, n - 1)
            if c < 0.75 and allow_task_index:
                cands = [t for t in self.tasks if type(self.ns.get(t)) is int and -n <= self.ns[t] < n]
                if cands:
                    self.feats['index-by-task'] += 1
                    return '[%s]' % r.choice(cands)
            a = r.choice(['', str(r.randint(0, n)), str(-r.randint(1, n))])
            b = r.choice(['', str(r.randint(0, n + 1)), str(-r.randint(1, n))])
            s = r.choice(['', '', ':2', ':-1', ':3'])
            self.feats['slice-tasklet'] += 1
            return '[%s:%s%s]' % (a, b, s)
        if isinstance(v, dict) and v:
            return '[%r]' % r.choice([k for k in v if isinstance(k, (str, int))] or [None]) if any(isinstance(k, (str, int)) for k in v) else None
        if isinstance(v, np.ndarray) and v.ndim >= 1 and v.shape[0] > 0:
            c = r.random()
            if v.ndim >= 2 and v.shape[1] > 0 and c < 0.35:
                return '[%d, %d]' % (r.randint(0, v.shape[0] - 1), r.randint(-v.shape[1], v.shape[1] - 1))
            if c < 0.7:
                return '[%d]' % r.randint(-v.shape[0], v.shape[0] - 1)
            return r.choice(['[::2]', '[1:]', '[:-1]', '[::-1]'])
        return None

    def tasklet_expr(self, base, maxdepth=3):
        """base[...][...]: None if base's value cannot be indexed"""
        expr = base
        v = self.ns[base]
        depth = 0
        while depth < maxdepth:
            suf = self.index_suffix(v)
            if suf is None:
                break
            try:
                v = eval('_v' + suf, dict(self.ns, _v=v))
            except Exception:
                break
            expr += suf
            depth += 1
            if self.rng.random() < 0.55:
                break
        if depth == 0:
            return None
        self.feats['tasklet-depth-%d' % depth] += 1
        return expr

    def mapped_expr(self, w):
        n = len(self.ns[w])
        r = self.rng
        if n == 0:
            return w
        c = r.random()
        if c < 0.45:
            self.feats['mapped-index'] += 1
            e = '%s[%d]' % (w, r.randint(-n, n - 1))
            v = self.val(e)
            if r.random() < 0.4:
                suf = self.index_suffix(v, allow_task_index=False)
                if suf:
                    self.feats['mapped-index-index'] += 1
                    e += suf
            return e
        if c < 0.8:
            self.feats['mapped-slice'] += 1
            a = r.choice(['', str(r.randint(0, n)), str(-r.randint(1, n))])
            b = r.choice(['', str(r.randint(0, n + 1)), str(-r.randint(1, n))])
            s = r.choice(['', '', ':2', ':3', ':-1'])
            e = '%s[%s:%s%s]' % (w, a, b, s)
            if r.random() < 0.3 and len(self.val(e)) > 0:
                m = len(self.val(e))
                e += r.choice(['[%d]' % r.randint(-m, m - 1), '[::2]', '[1:]'])
                self.feats['mapped-slice-of-slice'] += 1
            return e
        return w

    def arg(self, depth=0):
        r = self.rng
        c = r.random()
        if c < 0.36 and self.tasks:
            return r.choice(self.tasks)
        if c < 0.52 and self.tasks:
            e = self.tasklet_expr(r.choice(self.tasks))
            if e:
                return e
        if c < 0.6 and self.mapped:
            return self.mapped_expr(r.choice(self.mapped))
        if c < 0.65 and self.plain:
            return r.choice(self.plain)
        if c < 0.69 and self.seqs:
            return r.choice(self.seqs)
        if c < 0.8 and depth < 2 and (self.tasks or self.mapped):
            k = r.randint(1, 3)
            items = [self.arg(depth + 1) for _ in range(k)]
            self.feats['container-of-tasks-arg'] += 1
            c2 = r.random()
            if c2 < 0.4:
                return '[' + ', '.join(items) + ']'
            if c2 < 0.7:
                return '(' + ''.join(i + ', ' for i in items) + ')'
            return '{' + ', '.join('%r: %s' % ('k%d' % j, it) for j, it in enumerate(items)) + '}'
        if c < 0.84 and depth < 2:
            self.feats['identity'] += 1
            return 'identity(%s)' % (self.arg(depth + 1) if r.random() < 0.5 else self.literal())
        if c < 0.87:
            self.feats['CustomHash'] += 1
            if self.tasks and r.random() < 0.4:
                return 'CustomHash(%s, hash_one)' % r.choice(self.tasks)
            return 'CustomHash(%s, _chash)' % self.literal()
        if c < 0.9 and self.tasks:
            t = r.choice(self.tasks)
            self.feats['Tasklet(t, f)'] += 1
            return 'Tasklet(%s, %s)' % (t, r.choice(['_tl_len', '_tl_type', '_tl_type', 'lambda v: [v, 1]', 'lambda v, k=2: (k, v)']))
        return self.literal()

    def int_arg(self):
        r = self.rng
        cands = [t for t in self.tasks + self.plain if type(self.ns.get(t)) is int and abs(self.ns[t]) < 10 ** 9]
        if cands and r.random() < 0.7:
            return r.choice(cands)
        return str(r.randint(-50, 500))

    # -- productions
    def p_producer(self):
        # values that stores / packs / caches treat specially are drawn more often
        kind = self.rng.choice(T.PRODUCER_KINDS + ['none', 'none', 'matrix', 'tagged', 'be', 'struct', 'empty', 'zero_d', 'int', 'list', 'table'])
        x = self.fresh()
        return self.emit('%s = const(%r, %d)' % (x, kind, self.rng.randint(0, 40)), [x], ['const:' + kind])

    def p_consumer(self):
        r = self.rng
        f = r.choice(CONSUMERS)
        x = self.fresh()
        if f == 'show':
            args = [self.arg() for _ in range(r.randint(1, 3))]
            kws = ['%s=%s' % (k, self.arg()) for k in r.sample(['alpha', 'beta', 'gamma'], r.randint(0, 2))]
            call = 'show(%s)' % ', '.join(args + kws)
            feats = ['kwargs'] if kws else []
        elif f == 'wrap':
            if r.random() < 0.15:
                call = 'wrap(NoHash(%s), tag=%d)' % (self.literal(), 1000 + self.n)
                feats = ['NoHash']
            else:
                call = 'wrap(%s%s)' % (self.arg(), r.choice(['', ', tag=%s' % self.arg(1), ', %d' % r.randint(1, 9)]))
                feats = []
        elif f == 'pair':
            call = 'pair(%s%s)' % (self.arg(), r.choice(['', ', b=%s' % self.arg(), ', %s' % self.arg()]))
            feats = ['kwargs']
        elif f == 'box':
            call = 'box(%s)' % ', '.join('%s=%s' % (k, self.arg()) for k in r.sample(['u', 'v', 'w'], r.randint(1, 3)))
            feats = ['kwargs']
        elif f == 'cat':
            call = 'cat(%s, %s)' % (self.arg(), self.arg())
            feats = []
        elif f == 'p_add':
            call = 'Task(p_add, %s%s)' % (self.arg(), r.choice(['', ', b=%s' % self.arg(), ', %s' % self.int_arg()]))
            feats = ['Task(f, ...)']
        else:
            call = '%s(%s)' % (f, self.arg())
            feats = []
        return self.emit('%s = %s' % (x, call), [x], ['call:' + f] + feats)

    def p_inc(self):
        x = self.fresh()
        return self.emit('%s = inc(%s)' % (x, self.int_arg()), [x], ['call:inc'])

    def p_pick(self):
        x = self.fresh()
        return self.emit('%s = pick(%d)' % (x, self.rng.randint(-2, 2)), [x], ['call:pick'])

    def p_tasklet_name(self):
        if not self.tasks:
            return False
        e = self.tasklet_expr(self.rng.choice(self.tasks))
        if not e:
            return False
        x = self.fresh('tl')
        return self.emit('%s = %s' % (x, e), [x], ['tasklet-bound-to-name'])

    def p_container_name(self):
        if not self.tasks:
            return False
        x = self.fresh('c')
        items = [self.arg(1) for _ in range(self.rng.randint(1, 3))]
        e = self.rng.choice(['[%s]', '(%s,)', "{'p': [%s]}"]) % ', '.join(items)
        return self.emit('%s = %s' % (x, e), [x], ['container-bound-to-name'], ['seq'])

    def int_seq(self):
        """a sequence of ints for a map: literal list, list of int-valued tasks, a mapped result or a slice of one"""
        r = self.rng
        c = r.random()
        ints = [t for t in self.tasks if type(self.ns.get(t)) is int and abs(self.ns[t]) < 10 ** 6]
        intmaps = [w for w in self.mapped if len(self.ns[w]) and all(type(v) is int and abs(v) < 10 ** 9 for v in self.ns[w])]
        if c < 0.3 and intmaps:
            w = r.choice(intmaps)
            self.feats['map-over-mapped'] += 1
            if r.random() < 0.35:
                n = len(self.ns[w])
                self.feats['map-over-slice-of-mapped'] += 1
                return '%s[%s:%s%s]' % (w, r.choice(['', '1']), r.choice(['', str(n), '-1'] if n > 2 else ['']), r.choice(['', '', ':2']))
            return w
        if c < 0.5 and len(ints) >= 2:
            self.feats['map-over-tasks'] += 1
            return '[' + ', '.join(r.sample(ints, min(len(ints), r.randint(2, 5)))) + ']'
        base = r.randint(2, 400)
        n = r.randint(1, 11)
        return repr([base + 3 * i for i in range(n)])

    def p_map(self):
        r = self.rng
        w = self.fresh('w')
        step = r.choice([1, 2, 2, 3, 4, 5, None])
        f = r.choice(['m_sq', 'm_sq', 'm_neg', 'm_row', 'm_show'])
        seq = self.int_seq()
        if step == 1 and (f == 'm_neg' or not seq.startswith('[')):
            # jug limitations (not generated): map_step=1 needs a named function (not a TaskGenerator object) and ITERATES the
            # sequence, which the result of another map (or a slice of it) refuses (TaskletMixin.__iter__ raises)
            step = 2
        return self.emit('%s = jug.mapreduce.map(%s, %s%s)' % (w, f, seq, '' if step is None else ', map_step=%d' % step),
                         [w], ['mapreduce.map', 'map_step:%s' % step, 'mapper:' + f], ['mapped'])

    def p_map_chain(self):
        """a map over a mapped result (other step), then element / slice access on the outer result"""
        r = self.rng
        v, w = self.fresh('w'), self.fresh('w')
        base = r.randint(2, 400)
        n = r.randint(3, 11)
        s1 = r.choice([2, 2, 3, 4, 5])
        if not self.emit('%s = jug.mapreduce.map(%s, %r, map_step=%d)' % (v, r.choice(['m_sq', 'm_neg']), [base + 2 * i for i in range(n)], s1),
                         [v], ['mapreduce.map', 'map_step:%d' % s1], ['mapped']):
            return False
        s2 = r.choice([None, 2, 3, 4, 6, 8])
        src = v if r.random() < 0.7 else '%s[%s:]' % (v, r.choice(['', '1', '2']))
        if not self.emit('%s = jug.mapreduce.map(%s, %s%s)' % (w, r.choice(['m_sq', 'm_neg', 'm_row']), src, '' if s2 is None else ', map_step=%d' % s2),
                         [w], ['mapreduce.map', 'map-over-mapped', 'map_step:%s' % s2], ['mapped']):
            return False
        for _ in range(r.randint(1, 3)):
            x = self.fresh()
            c = r.random()
            e = self.mapped_expr(w)
            if c < 0.5:
                self.emit('%s = %s' % (x, r.choice(['wrap(%s)', 'show(%s)', 'pair(%s)']) % e), [x], ['access-to-map-of-map'])
            else:
                self.emit('%s = %s' % (x, e), [x], ['access-to-map-of-map'], ['seq'])
        return True

    def p_reduce(self):
        r = self.rng
        x = self.fresh()
        red = r.choice(['r_add', 'r_max'])
        seq = self.int_seq()
        try:
            if len(self.val(seq)) == 0:
                return False
        except Exception:
            return False
        c = r.random()
        ms = r.choice(['', ', map_step=2', ', map_step=3'])
        rs = r.choice(['', ', reduce_step=2', ', reduce_step=3'])
        if c < 0.4:
            return self.emit('%s = jug.mapreduce.reduce(%s, %s%s)' % (x, red, seq, rs), [x], ['mapreduce.reduce', 'reducer:' + red])
        mp = r.choice(['m_sq', 'm_neg'])
        return self.emit('%s = jug.mapreduce.mapreduce(%s, %s, %s%s%s)' % (x, red, mp, seq, ms, rs), [x],
                         ['mapreduce.mapreduce', 'reducer:' + red])

    def p_currymap(self):
        r = self.rng
        x = self.fresh('cm')
        base = r.randint(2, 300)
        ints = [t for t in self.tasks if type(self.ns.get(t)) is int and abs(self.ns[t]) < 10 ** 6]
        pairs = []
        for i in range(r.randint(1, 6)):
            a = r.choice(ints) if ints and r.random() < 0.3 else str(base + i)
            pairs.append('(%s, %d)' % (a, r.randint(0, 9)))
        step = r.choice([1, 2, 3, None])
        ok = self.emit('%s = currymap(m_add, [%s]%s)' % (x, ', '.join(pairs), '' if step is None else ', map_step=%d' % step),
                       [x], ['mapreduce.currymap'], ['seq'])
        return ok

    def p_compound(self):
        r = self.rng
        x = self.fresh('cp')
        c = r.random()
        if c < 0.4:
            kws = r.sample(['tag=%d' % r.randint(1, 99), 'depth=%d' % r.randint(0, 3)], r.randint(0, 2))
            call = 'CompoundTask(cb_wrap, %s)' % ', '.join([self.arg(1)] + kws)
        elif c < 0.6:
            base = r.randint(2, 300)
            call = 'CompoundTask(cb_mr, %r%s)' % ([base + 2 * i for i in range(r.randint(1, 6))], r.choice(['', ', scale=2', ', scale=3']))
        else:
            kws = r.sample(['b=%s' % self.arg(1), 'tag=%d' % r.randint(1, 99)], r.randint(0, 2))
            call = 'cg_pair(%s)' % ', '.join([self.arg(1)] + kws)
        ok = self.emit('%s = %s' % (x, call), [x], ['CompoundTask' if c < 0.6 else 'CompoundTaskGenerator'])
        if ok and r.random() < 0.5:
            # the same builder and positional arguments with another keyword argument
            y = self.fresh('cp')
            if c < 0.4 or c >= 0.6:
                head = call.split(', tag=')[0].split(', depth=')[0].split(', b=')[0].rstrip(')')
                call2 = '%s, tag=%d)' % (head, r.randint(100, 199))
            else:
                call2 = call.split(', scale=')[0].rstrip(')') + ', scale=%d)' % r.choice([5, 7])
            if self.emit('%s = %s' % (y, call2), [y], ['compound-kwarg-twin']):
                pass
        return ok

    def p_iterate(self):
        r = self.rng
        cands = [t for t in self.tasks if isinstance(self.ns.get(t), (list, tuple)) and len(self.ns[t]) >= 2]
        a, b = self.fresh('it'), self.fresh('it')
        if cands and r.random() < 0.6:
            t = r.choice(cands)
            n = r.choice([2, 2, len(self.ns[t])]) if len(self.ns[t]) <= 4 else 2
            names = [a, b] + [self.fresh('it') for _ in range(n - 2)]
            return self.emit('%s = iteratetask(%s, %d)' % (', '.join(names), t, n), names, ['iteratetask'])
        return self.emit('%s, %s = split2(%s)' % (a, b, self.arg(1)), [a, b], ['return_tuple'])

    def p_barrier(self):
        if not self.tasks:
            return False
        self.phases += 1
        return self.emit('barrier()', [], ['barrier()'])

    def p_bvalue(self):
        r = self.rng
        n = self.fresh('n')
        if not self.emit('%s = bvalue(count(%s))' % (n, self.arg()), [n], ['bvalue'], ['plain']):
            return False
        self.phases += 1
        v = self.ns[n]
        c = r.random()
        if c < 0.5:
            L = self.fresh('L')
            f = r.choice(['wrap(_j, tag=%d)' % (2000 + self.n), 'pair(%s, b=_j)' % self.arg(1), 'inc(%d + _j)' % r.randint(1000, 9000)])
            self.emit('%s = [%s for _j in range(%s + %d)]' % (L, f, n, r.randint(0, 2)), [L], ['bvalue-dependent-task-count'], ['seq'])
        elif c < 0.8:
            x = self.fresh()
            self.emit('if %s %% 2 == 0:\n    %s = show(%s, %s)\nelse:\n    %s = pair(%s, b=%s)' % (n, x, self.arg(), n, x, self.arg(), n),
                      [x], ['bvalue-dependent-branch'])
        else:
            b = self.fresh('bv')
            if self.tasks:
                self.emit('%s = bvalue(%s)' % (b, r.choice(self.tasks)), [b], ['bvalue-of-any-value'], ['plain'])
        return True

    def p_phases(self):
        """many phases that all run ONE function name"""
        r = self.rng
        R = r.randint(4, 9)
        start = r.randint(10000, 90000)
        p = self.fresh('ph')
        if r.random() < 0.5:
            stmt = '%s = %d\nfor _r in range(%d):\n    %s = bvalue(inc(%s))' % (p, start, R, p, p)
            ok = self.emit(stmt, [p], ['many-phases:bvalue-loop'], ['plain'])
        else:
            stmt = '%s = inc(%d)\nfor _r in range(%d):\n    barrier()\n    %s = inc(value(%s))' % (p, start, R, p, p)
            ok = self.emit(stmt, [p], ['many-phases:barrier-loop'])
        if ok:
            self.phases += R
        return ok

    def p_twins(self):
        """f(t[i][k]) and f(t[j][k]): the same function and last index, another path above it"""
        r = self.rng
        c = r.random()
        f = r.choice(['show(%s)', 'wrap(%s)', 'wrap(%s, tag=4)', 'pair(%s)', 'sq(%s)', 'show([%s, 1])', "box(u={'d': %s})"])
        a, b = self.fresh('tw'), self.fresh('tw')
        if c < 0.4:
            t = self.fresh()
            if not self.emit('%s = const(%r, %d)' % (t, 'table', r.randint(0, 40)), [t], ['const:table']):
                return False
            i, j = r.sample([0, 1, 2], 2)
            k = r.randint(0, 2)
            ea, eb = '%s[%d][%d]' % (t, i, k), '%s[%d][%d]' % (t, j, k)
        elif c < 0.55:
            t = self.fresh()
            if not self.emit('%s = const(%r, %d)' % (t, 'rows', r.randint(0, 40)), [t], ['const:rows']):
                return False
            k = r.randint(0, 1)
            ea, eb = "%s['pos'][%d]" % (t, k), "%s['neg'][%d]" % (t, k)
        elif c < 0.75:
            t = self.fresh()
            p, q = self.fresh('it'), self.fresh('it')
            if not self.emit('%s = const(%r, %d)' % (t, 'pairs', r.randint(0, 40)), [t], ['const:pairs']):
                return False
            if not self.emit('%s, %s = iteratetask(%s, 2)' % (p, q, t), [p, q], ['iteratetask']):
                return False
            k = r.randint(0, 1)
            ea, eb = '%s[%d]' % (p, k), '%s[%d]' % (q, k)
        elif c < 0.88:
            p, q = self.fresh('it'), self.fresh('it')
            if not self.emit('%s, %s = split2(%s)' % (p, q, self.arg(1)), [p, q], ['return_tuple']):
                return False
            ea, eb = '%s[1]' % p, '%s[1]' % q
        else:
            w = self.fresh('w')
            base = r.randint(2, 400)
            if not self.emit('%s = jug.mapreduce.map(m_row, %r, map_step=%d)' % (w, [base + i for i in range(r.randint(2, 5))], r.choice([2, 3])),
                             [w], ['mapreduce.map', 'mapper:m_row'], ['mapped']):
                return False
            k = r.randint(0, 2)
            ea, eb = '%s[0][%d]' % (w, k), '%s[1][%d]' % (w, k)
        ok = self.emit('%s = %s' % (a, f % ea), [a], ['tasklet-twins']) and self.emit('%s = %s' % (b, f % eb), [b], [])
        return ok

    def p_plain(self):
        x = self.fresh('k')
        return self.emit('%s = %s' % (x, self.literal()), [x], ['plain-constant-name'], ['plain'])

    def p_set_jugdir(self):
        return False

    def generate(self, size):
        r = self.rng
        prods = [(self.p_producer, 22), (self.p_consumer, 30), (self.p_inc, 5), (self.p_pick, 3), (self.p_tasklet_name, 5),
                 (self.p_container_name, 3), (self.p_map, 7), (self.p_map_chain, 3), (self.p_reduce, 4), (self.p_currymap, 2), (self.p_compound, 5),
                 (self.p_iterate, 4), (self.p_barrier, 3), (self.p_bvalue, 4), (self.p_phases, 1.5), (self.p_twins, 5), (self.p_plain, 1.5)]
        # a few jugfiles are dominated by one mechanism
        focus = r.random()
        if focus < 0.1:
            prods += [(self.p_phases, 12)]
        elif focus < 0.2:
            prods += [(self.p_map, 20), (self.p_map_chain, 12), (self.p_reduce, 10)]
        elif focus < 0.3:
            prods += [(self.p_twins, 20), (self.p_iterate, 8)]
        elif focus < 0.38:
            prods += [(self.p_compound, 25)]
        elif focus < 0.46:
            prods += [(self.p_barrier, 10), (self.p_bvalue, 14)]
        fs = [p for p, _ in prods]
        ws = [w for _, w in prods]
        for _ in range(2):
            self.p_producer()
        tries = 0
        while len(self.body) < size and tries < size * 6:
            tries += 1
            if self.phases > 14:
                fs2 = [(p, w) for p, w in prods if p not in (self.p_phases, self.p_barrier, self.p_bvalue)]
                r.choices([p for p, _ in fs2], [w for _, w in fs2])[0]()
            else:
                r.choices(fs, ws)[0]()
        return self


def jugfile_text(body, set_jugdir=None):
    head = T.HEADER
    if set_jugdir:
        head += 'jug.set_jugdir(%r)\n' % set_jugdir
    return head + T.FUNCS + '\n# ---------------- the program\n' + body + '\n'


def gen_jugfile(rng, size=None):
    """-> (text, info): info = {'features': Counter, 'phases': n, 'funcs': [names of executed task functions], 'set_jugdir': dir|None}"""
    if size is None:
        size = rng.choice([4, 6, 8, 10, 12, 14, 18, 24])
    g = Gen(rng).generate(size)
    sj = 'own.jugdata' if rng.random() < 0.08 else None
    info = {'features': dict(g.feats), 'phases': g.phases, 'funcs': sorted(g.funcs), 'set_jugdir': sj, 'statements': len(g.body)}
    if sj:
        info['features']['set_jugdir-in-jugfile'] = 1
    return jugfile_text('\n'.join(g.body), sj), info


# ------------------------------------------------------------------------------------------------ configurations
def _workers(rng, n, unload_p=0.3, late_p=0.35):
    ws = []
    for i in range(n):
        w = {}
        if rng.random() < unload_p:
            w['unload'] = True
        if i > 0 and rng.random() < late_p:
            w['delay'] = rng.choice([0.1, 0.25, 0.5])
        ws.append(w)
    return ws


def gen_config(rng, info):
    """a random way of running `jug execute` to completion: backend, workers per step, pack steps, wait cycles"""
    if info.get('set_jugdir'):
        backend = 'file'            # the jugfile chooses its own (file) store; --jugdir names another one
    else:
        # bvalue / barrier ask the store about unfinished results: more often on the store whose protocol differs most
        backend = rng.choices(['file', 'keepalive', 'dict', 'redis'], [45, 10, 15, 40] if info.get('phases') else [55, 10, 15, 20])[0]
    if backend == 'keepalive' and info.get('statements', 0) > 14:
        backend = 'file'            # one monitor process per executed task: keep those runs small
    K = rng.choice([1, 2, 2, 3, 5])
    multi = backend != 'dict'

    def nworkers():
        if not multi:
            return 1
        return rng.choice([1, 2, 2, 3, 3, 4])
    can_pack = backend in ('file', 'keepalive')
    steps = []
    shape = rng.random()
    funcs = info.get('funcs') or ['const']
    if shape < 0.45:
        steps.append({'op': 'execute', 'workers': _workers(rng, nworkers())})
    elif shape < 0.8:
        # a first execute restricted to one function name, then the rest (which has to LOAD what the first one computed)
        pre = _workers(rng, 1)
        pre[0]['target'] = rng.choice(funcs)
        steps.append({'op': 'execute', 'workers': pre})
        if can_pack and rng.random() < 0.6:
            steps.append({'op': 'pack'})
        steps.append({'op': 'execute', 'workers': _workers(rng, nworkers())})
    else:
        steps.append({'op': 'execute', 'workers': _workers(rng, 1)})
        steps.append({'op': 'execute', 'workers': _workers(rng, nworkers())})
    if can_pack and rng.random() < 0.5:
        steps.append({'op': 'pack'})
    return {'backend': backend, 'K': K, 'wait': 0, 'steps': steps, 'again': rng.random() < 0.8}


def config_features(config):
    out = ['backend:' + config['backend'], 'nr-wait-cycles:%d' % config['K']]
    ex = [s for s in config['steps'] if s['op'] == 'execute']
    out.append('execute-steps:%d' % len(ex))
    out.append('max-concurrent-workers:%d' % max(len(s['workers']) for s in ex))
    if any(w.get('unload') for s in ex for w in s['workers']):
        out.append('aggressive-unload')
    if any(w.get('delay') for s in ex for w in s['workers']):
        out.append('late-worker')
    if any(w.get('target') for s in ex for w in s['workers']):
        out.append('target-pre-run')
    npack = sum(1 for s in config['steps'] if s['op'] == 'pack')
    if npack:
        out.append('pack:%d' % npack)
        if config['steps'][-1]['op'] == 'pack':
            out.append('pack-then-read')
        if any(s['op'] == 'pack' and any(t['op'] == 'execute' for t in config['steps'][i + 1:]) for i, s in enumerate(config['steps'])):
            out.append('pack-between-executes')
    if config.get('again'):
        out.append('final-idle-execute')
    return out


# ------------------------------------------------------------------------------------------------ corpus (runs first)
def _ex(*workers):
    return {'op': 'execute', 'workers': [dict(w) for w in workers]}


PACK = {'op': 'pack'}


def _cfg(backend, K, *steps, **kw):
    return dict({'backend': backend, 'K': K, 'wait': 0, 'steps': list(steps), 'again': True}, **kw)


CORPUS = [
    # an ndarray-subclass result (np.matrix, Tagged) computed by one worker, consumed by another / after an unload
    ('matrix-read-by-second-worker',
     "m = const('matrix', 1)\ns = sq(m)\nu = inc(41)\ntr = show(m)\ng = const('tagged', 2)\ngs = sq(g)\nmx = const('mixed', 3)\nw = wrap(mx[1])",
     _cfg('file', 2, _ex({'target': 'const'}), _ex({}))),
    ('matrix-aggressive-unload',
     "m = const('matrix', 4)\ns = sq(m)\nu = inc(41)\ntr = show(m)\ng = const('tagged', 5)\ngs = sq(g)\nv = inc(u)\ngw = wrap(g, tag=m)",
     _cfg('file', 2, _ex({'unload': True}))),
    # many phases of ONE function name, more than --nr-wait-cycles
    ('eight-bvalue-phases-of-one-function',
     "x = 1\ntraj = [x]\nfor _r in range(8):\n    x = bvalue(inc(x))\n    traj.append(x)\nsummary = show(x, traj)",
     _cfg('file', 2, _ex({}))),
    ('seven-barrier-phases-two-workers',
     "acc = inc(100)\nfor _r in range(7):\n    barrier()\n    acc = inc(value(acc))\nlast = wrap(acc)",
     _cfg('file', 2, _ex({}, {}))),
    ('six-bvalue-phases-redis',
     "x = 500\nfor _r in range(6):\n    x = bvalue(inc(x))\nend = pair(x)",
     _cfg('redis', 3, _ex({}))),
    # tasklets of tasklets that end in the same step over another path
    ('tasklet-twins',
     "t = const('table', 3)\na = show(t[0][1])\nb = show(t[1][1])\nsrc = const('rows', 2)\nc = wrap(src['pos'][0])\nd = wrap(src['neg'][0])\n"
     "pr = const('pairs', 1)\np, q = iteratetask(pr, 2)\ne = sq(p[0])\nf = sq(q[0])\nl, r = split2(7)\ng = pair(l[1])\nh = pair(r[1])\n"
     "w = jug.mapreduce.map(m_row, [3, 4, 5], map_step=2)\ni = show(w[0][1])\nj = show(w[1][1])\nk = show([t[2][0], 1])\nk2 = show([t[0][0], 1])",
     _cfg('file', 2, _ex({}))),
    # results packed, then read; a None result in the pack
    ('pack-then-read',
     "n = const('none', 0)\nd = show(n)\nxs = const('list', 3)\nm = const('matrix', 2)\nb = const('bigarr', 1)\ne = const('empty', 0)\nboth = wrap([n, xs[0]])",
     _cfg('file', 2, _ex({}), PACK)),
    ('pack-twice',
     "base = const('list', 5)\ndbl = cat(base, base)\nup = first(dbl)\ntot = pair(dbl, b=up)\nnn = const('none', 1)\nz = show(nn, tot)",
     _cfg('file', 2, _ex({'target': 'const'}), PACK, _ex({}), PACK)),
    ('pack-between-workers-keepalive',
     "a = const('int', 1)\nb = inc(a)\nc = inc(b)\nd = wrap(c, tag=a)",
     _cfg('keepalive', 2, _ex({'target': 'const'}), PACK, _ex({}, {}), PACK)),
    # keyword arguments of a compound task
    ('compound-kwargs',
     "c1 = CompoundTask(cb_wrap, 5, tag=1)\nc2 = CompoundTask(cb_wrap, 5, tag=10)\nc3 = CompoundTask(cb_mr, [1, 2, 3], scale=1)\n"
     "c4 = CompoundTask(cb_mr, [1, 2, 3], scale=10)\ns = const('str', 1)\nc5 = cg_pair(s, b=1)\nc6 = cg_pair(s, b=2)\nc7 = cg_pair(s, tag=3)\nallc = show([c1, c2], c3, k=c4)",
     _cfg('file', 2, _ex({}), _ex({}, {}))),
    ('compound-with-barrier-dict',
     "c1 = CompoundTask(cb_wrap, 6, tag=2, depth=2)\nbarrier()\nc2 = cg_pair(c1, b=value(c1), tag=1)\nn = bvalue(count(c2))\nL = [inc(n + _j) for _j in range(n + 1)]",
     _cfg('dict', 2, _ex({}), _ex({}))),
    # map over a mapped result with another step, then element and slice access
    ('map-over-mapped',
     "v = jug.mapreduce.map(m_sq, [1, 2, 3, 4, 5, 6, 7], map_step=2)\nw = jug.mapreduce.map(m_neg, v)\ne = wrap(w[3])\ns = w[1:6:2]\nl = show(w[-1], w[5])\n"
     "u = jug.mapreduce.map(m_row, w[1:], map_step=3)\nr = jug.mapreduce.reduce(r_add, w, reduce_step=2)\nmr = jug.mapreduce.mapreduce(r_max, m_sq, v[::2], map_step=2)\n"
     "cm = currymap(m_add, [(1, 2), (e[1], 4), (5, 6)], map_step=2)",
     _cfg('file', 3, _ex({}, {}, {'delay': 0.25}))),
    # subclasses of list / tuple / dict as arguments
    ('container-subclass-arguments',
     "o = show(OrderedDict([('b', 1), ('a', 2)]))\ni = identity(Pt(1, 2))\ns = show(i)\nd = pair(_collections.defaultdict(list, {'k': [1]}), b=Pt(3, 4))\n"
     "n = const('nt', 1)\nod = const('odict', 2)\nz = wrap([n, od])",
     _cfg('file', 2, _ex({}))),
    # bvalue on the redis backend
    ('bvalue-redis',
     "n = bvalue(count(const('list', 3)))\ntagged = wrap(n)\nsquares = [inc(40 + _i) for _i in range(3)]\ntotal = show(squares, n)",
     _cfg('redis', 2, _ex({}))),
    ('bvalue-redis-concurrent',
     "a = const('list', 2)\nn = bvalue(a)\nb = [wrap(v, tag=1) for v in n]\nc = show(b, n)",
     _cfg('redis', 2, _ex({}, {}, {}))),
    # the in-memory store with a backing file: one worker after the other
    ('dict-store-two-executes',
     "t1 = const('list', 1)\nt2 = pair(t1[1], b=t1)\nt3 = wrap([t2, t1[0]])\nm = const('matrix', 1)\ns = sq(m)",
     _cfg('dict', 1, _ex({'target': 'const'}), _ex({}))),
    # CustomHash / NoHash / Tasklet(t, f) / an index that is a task
    ('hash-wrappers-and-indices',
     "t = const('list', 7)\nu = pick(1)\na = wrap(t[u])\nb = show(CustomHash('path', _chash), CustomHash(t, hash_one), NoHash(4))\nc = pair(Tasklet(t, _tl_len), b=Tasklet(t, lambda v: v[::-1]))\n"
     "d = Task(p_add, t, b=[u])\ne = identity([t, u])\nf = show(e, identity(5))",
     _cfg('keepalive', 2, _ex({}, {}, {}))),
    # the jugfile selects its own store
    ('set-jugdir-in-jugfile',
     "a = const('int', 2)\nb = inc(a)\nbarrier()\nc = inc(value(b))",
     _cfg('file', 2, _ex({}), set_jugdir='own.jugdata')),
    # every kind of array through every step
    ('array-kinds',
     '\n'.join("a%d = const(%r, %d)\nb%d = show(a%d)" % (i, k, i, i, i) for i, k in enumerate(
         ['be', 'struct', 'zero_d', 'empty', 'noncontig', 'fortran', 'objarr', 'boolarr', 'strarr', 'npint', 'npfloat', 'farr', 'biglist'])),
     _cfg('file', 2, _ex({'target': 'const'}), PACK, _ex({'unload': True}, {}), PACK)),
]


def corpus_cases():
    out = []
    for name, body, cfg in CORPUS:
        cfg = dict(cfg)
        sj = cfg.pop('set_jugdir', None)
        out.append((name, jugfile_text(body, sj), cfg))
    return out


# ------------------------------------------------------------------------------------------------ the section
def _report(ck, text, config, label, problems):
    for p in problems:
        obj = {'kind': 'impl-violation' if not p['what'].startswith('HARNESS') else 'harness-error', 'section': 'e2e',
               'what': p['what'], 'case': label, 'jugfile': text, 'config': config}
        obj.update({k: v for k, v in p.items() if k != 'what'})
        ck.violation(obj)


def run_section(ck, n_quick=28, n_thorough=400, corpus=True):
    """Runs the corpus and n generated (jugfile, configuration) pairs; reports every mismatch with ck.violation."""
    rng = ck.rng
    cases = []
    if corpus:
        for name, text, cfg in corpus_cases():
            cases.append(('corpus:' + name, text, cfg, {'features': {'corpus': 1}}))
    n = ck.n(n_quick, n_thorough)
    for i in range(n):
        text, info = gen_jugfile(rng)
        cases.append(('generated:%d' % i, text, gen_config(rng, info), info))
    t0 = time.time()
    with jugrun.scratch_dir('jugv_e2e_') as root:
        prepare_root(root)
        with ThreadPoolExecutor(max_workers=MAX_PARALLEL_CASES) as pool:
            futs = [pool.submit(run_case, text, cfg, root) for (_, text, cfg, _) in cases]
            results = [f.result() for f in futs]
    for (label, text, cfg, info), (status, problems) in zip(cases, results):
        ck.case_total += 1
        ck.distinct((text, json.dumps(cfg, sort_keys=True)), True)
        for f, k in info['features'].items():
            ck.count('e2e:' + f, 1)
        for f in config_features(cfg):
            ck.count('e2e:' + f)
        if info.get('phases'):
            ck.count('e2e:phases:%s' % ('1-3' if info['phases'] <= 3 else '4-8' if info['phases'] <= 8 else '9+'))
        if status == 'flaky-timeout':
            ck.count('e2e:flaky-timeout')
            ck.notes.append('e2e: a process of case %s did not finish within %d s once; the re-run finished' % (label, PROC_TIMEOUT))
        _report(ck, text, cfg, label, problems)
    ck.count('e2e:wall_s', round(time.time() - t0, 1))
    if len(ck.samples) < 6 and cases:
        label, text, cfg, info = cases[-1]
        ck.sample({'e2e_case': label, 'program': text.split('# ---------------- the program')[-1].strip().splitlines()[:12], 'config': cfg})


def replay(obj):
    text, config = obj['jugfile'], obj['config']
    status, problems = run_case(text, config)
    print('e2e replay of case %s: %s' % (obj.get('case'), status))
    print('program:\n' + text.split('# ---------------- the program')[-1])
    print('config: %s' % json.dumps(config))
    for p in problems:
        print('  PROBLEM: ' + json.dumps(p, default=repr)[:1500])
    if not problems:
        print('  no problem: all values equal plain sequential Python, exactly-once, idle second execute')
    return 1 if problems else 0


class _MemCheck(core.Check):
    """a Check that keeps its replays in memory (the driver below must not touch evidence/ or replays/)"""
    def __init__(self, prop, tier, seed):
        os.environ['VERIF_REPLAY'] = '1'
        super().__init__(prop, tier, seed)
        self.mem = []

    def write_replay(self, obj):
        self.mem.append(dict(obj))
        return '<memory:%d>' % len(self.mem)


def main(argv=None):
    import argparse
    ap = argparse.ArgumentParser()
    ap.add_argument('--seed', type=int, default=1)
    ap.add_argument('--n', type=int, default=28)
    ap.add_argument('--no-corpus', action='store_true')
    ap.add_argument('--show', action='store_true', help='print the programs of failing cases')
    ap.add_argument('--dist', action='store_true')
    a = ap.parse_args(argv)
    ck = _MemCheck('C01', 'quick', a.seed)
    t0 = time.time()
    run_section(ck, a.n, a.n, corpus=not a.no_corpus)
    print('[e2e seed %d] repo %s: %d cases, %d violation replays (+%d suppressed), %.1f s' % (
        a.seed, core.REPO, ck.case_total, len(ck.mem), ck.suppressed, time.time() - t0))
    for k, v in sorted(ck.viol_by_what.items()):
        print('  VIOLATION x%d: %s' % (v, k))
    for o in ck.mem:
        d = {k: v for k, v in o.items() if k not in ('jugfile',)}
        print('  ' + json.dumps(d, default=repr)[:1200])
        if a.show:
            print(o['jugfile'].split('# ---------------- the program')[-1])
    for nt in ck.notes:
        print('  NOTE ' + nt)
    if a.dist:
        for k, v in sorted(ck.dist.items()):
            print('    %-50s %s' % (k, v))
    return 1 if ck.mem else 0


if __name__ == '__main__':
    sys.exit(main())
