"""Generators of value specs (see hashworker.py for the spec language) and the driver that runs
hashworker in several interpreter processes with different PYTHONHASHSEED."""
import json
import os
import subprocess
import sys

from . import core
from . import jugrun

LEAVES = ["None", "True", "False", "0", "1", "2", "-1", "2**70", "1.5", "-0.0", "0.0", "1.0", "2.0", "float('inf')", "''", "'a'", "'b'", "'ab'",
          "b''", "b'a'", "b'\\x00\\xff'", "np.float64(1.5)", "np.int32(7)", "np.bool_(True)", "1+2j", "'hash1'", "'args'",
          "slice(1, 5, 2)", "range(3)", "np.dtype('int32')"]
HASHABLE_LEAVES = [x for x in LEAVES if x not in ("slice(1, 5, 2)",)]
KEYS = ["'a'", "'b'", "'c'", "1", "2", "(1, 2)", "b'k'", "None", "1.5"]
KWNAMES = ['a', 'b', 'c', 'key', 'x']
DTYPES = ['int8', 'int32', 'int64', 'uint16', 'float32', 'float64', 'bool', 'complex128', 'S3', 'U2']


def leaf(rng, pool=LEAVES):
    return ['leaf', rng.choice(pool)]


def gen_hashable(rng, depth):
    r = rng.random()
    if depth <= 0 or r < 0.6:
        return leaf(rng, HASHABLE_LEAVES)
    if r < 0.85:
        return ['tuple', [gen_hashable(rng, depth - 1) for _ in range(rng.randint(0, 3))]]
    return ['frozenset', distinct([gen_hashable(rng, depth - 1) for _ in range(rng.randint(0, 3))])]


def distinct(specs):
    """drop specs that would be equal Python values (1 == True == 1.0 etc.): keep first by evaluated equality"""
    out, seen = [], []
    for s in specs:
        v = pyval(s)
        dup = False
        for w in seen:
            try:                      # (a comparison may raise, e.g. np.bool_(True) == 2**70: then compare by Python's hash)
                same = bool(v == w)
            except Exception:
                same = False
            try:
                same = same or (hash(v) == hash(w) and bool(w == v))
            except Exception:
                pass
            if same:
                dup = True
                break
        if not dup:
            seen.append(v)
            out.append(s)
    return out


def pyval(spec):
    """plain-Python value of a hashable spec (used only to avoid duplicate set elements / dict keys)"""
    import numpy as np
    k = spec[0]
    if k == 'leaf':
        return eval(spec[1], {'np': np})
    if k == 'tuple':
        return tuple(pyval(s) for s in spec[1])
    if k == 'frozenset':
        return frozenset(pyval(s) for s in spec[1])
    raise ValueError(k)


def gen_array(rng):
    dt = rng.choice(DTYPES)
    shape = rng.choice([[], [0], [1], [3], [2, 3], [3, 2], [2, 2, 2], [4, 1], [0, 3]])
    n = 1
    for s in shape:
        n *= s
    if dt.startswith('S') or dt.startswith('U'):
        data = [rng.choice(['a', 'bc', '', 'xyz']) for _ in range(n)]
    elif dt == 'bool':
        data = [rng.random() < 0.5 for _ in range(n)]
    elif dt == 'complex128':
        data = [rng.randint(-3, 3) for _ in range(n)]
    elif dt.startswith('uint'):
        data = [rng.randint(0, 100) for _ in range(n)]
    else:
        data = [rng.randint(-100, 100) for _ in range(n)]
    return ['array', dt, shape, data]


SUB_DICT = ['OrderedDict', 'Counter', 'defaultdict_int', 'defaultdict_list', 'MyDict', 'MyDictAttr:1', 'MyDictAttr:2']
SUB_LIST = ['MyList', 'MyListAttr:1', 'deque']
SUB_TUPLE = ['MyTuple', 'Point', 'Pair']
SUB_SCALAR = [("'ab'", 'MyStr'), ("'ab'", 'np.str_'), ("b'ab'", 'MyBytes'), ('1', 'MyInt'), ('0', 'MyInt'), ('1', 'Colour'), ('1', 'np.int64'),
              ('1.5', 'MyFloat'), ('1.0', 'MyFloat')]
SUB_PLAIN = ["None", "True", "0", "1", "2", "1.0", "1.5", "'a'", "'b'", "b'a'", "2**70"]


SUB_BASE = {'OrderedDict': 'dict', 'Counter': 'dict', 'defaultdict_int': 'dict', 'defaultdict_list': 'dict', 'defaultdict_none': 'dict',
            'MyDict': 'dict', 'MyDictAttr': 'dict', 'MySet': 'set', 'MyFrozenset': 'frozenset', 'MyArr': 'array', 'recarray': 'array',
            'masked': 'array', 'masked1': 'array'}


def sub_base(cls):
    """the dispatched base type (dict / set / frozenset / array) of a subclass name of hashworker.SUBCLASSES, or None"""
    return SUB_BASE.get(cls.partition(':')[0])


def gen_sub(rng):
    """an instance of a subclass of dict / list / tuple / set / frozenset / str / bytes / int / float / ndarray (see hashworker.SUBCLASSES).
    Such objects are pickled whole (known finding D24: their identifier depends on the hash seed / insertion order / layout; the
    worker realises them in different orders and layouts).  They hold only atoms and lists/tuples of atoms."""
    def atom():
        return ['leaf', rng.choice(SUB_PLAIN)]

    def child():
        r = rng.random()
        if r < 0.7:
            return atom()
        return [rng.choice(['list', 'tuple']), [atom() for _ in range(rng.randint(0, 2))]]
    r = rng.random()
    if r < 0.35:
        keys = distinct([['leaf', k] for k in rng.sample(["'a'", "'b'", "'c'", "1", "2", "1.5", "None"], rng.randint(0, 3))])
        cls = rng.choice(SUB_DICT)
        vals = [['leaf', str(rng.randint(0, 3))] if cls == 'Counter' else child() for _ in keys]
        return ['sub', cls, ['dict', [[k, v] for k, v in zip(keys, vals)]]]
    if r < 0.5:
        return ['sub', rng.choice(SUB_LIST), ['list', [child() for _ in range(rng.randint(0, 3))]]]
    if r < 0.65:
        cls = rng.choice(SUB_TUPLE)
        return ['sub', cls, ['tuple', [child() for _ in range(2 if cls != 'MyTuple' else rng.randint(0, 3))]]]
    if r < 0.75:
        k = rng.choice(['set', 'frozenset'])
        return ['sub', 'MySet' if k == 'set' else 'MyFrozenset',
                [k, [['leaf', e] for e in rng.sample(['0', '1', '2', '-1', '7', '2**70', "'p'", "'q'", "'r'", "'ab'", "b'k'"], rng.randint(0, 4))]]]
    if r < 0.88:
        e, cls = rng.choice(SUB_SCALAR)
        return ['sub', cls, ['leaf', e]]
    return ['sub', rng.choice(['MyArr', 'recarray', 'masked', 'masked1']), gen_array(rng)]


def gen_value(rng, depth, tasks=True):
    r = rng.random()
    if depth > 0 and r < 0.04:
        return gen_sub(rng)
    if depth <= 0 or r < 0.30:
        return leaf(rng)
    if r < 0.42:
        return ['list', [gen_value(rng, depth - 1, tasks) for _ in range(rng.randint(0, 3))]]
    if r < 0.52:
        return ['tuple', [gen_value(rng, depth - 1, tasks) for _ in range(rng.randint(0, 3))]]
    if r < 0.60:
        return ['set', distinct([gen_hashable(rng, depth - 1) for _ in range(rng.randint(0, 5))])]
    if r < 0.67:
        return ['frozenset', distinct([gen_hashable(rng, depth - 1) for _ in range(rng.randint(0, 5))])]
    if r < 0.77:
        keys = distinct([gen_hashable(rng, 1) for _ in range(rng.randint(0, 4))])
        return ['dict', [[k, gen_value(rng, depth - 1, tasks)] for k in keys]]
    if r < 0.84:
        return gen_array(rng)
    if r < 0.88:
        n = rng.choice([1, 2, 4])
        return ['objarray', [n] if n < 4 else [2, 2], [gen_value(rng, depth - 2, False) for _ in range(n)]]
    if not tasks:
        return leaf(rng)
    return gen_tasky(rng, depth - 1)


def gen_task(rng, depth):
    args = [gen_value(rng, depth - 1) for _ in range(rng.randint(0, 3))]
    kws = rng.sample(KWNAMES, rng.randint(0, 2))
    return ['task', rng.choice(['f', 'g', 'h']), args, [[k, gen_value(rng, depth - 1)] for k in kws]]


def gen_tasky(rng, depth):
    r = rng.random()
    if depth <= 0 or r < 0.45:
        return gen_task(rng, depth)
    if r < 0.60:
        idx = rng.choice([['leaf', '0'], ['leaf', "'a'"], ['leaf', '-1'], ['leaf', 'slice(1, 5, 2)'], gen_task(rng, 0)])
        return ['getitem', gen_tasky(rng, depth - 1), idx]
    if r < 0.66:
        return ['funtasklet', gen_task(rng, depth - 1), rng.choice(['f', 'm1'])]
    if r < 0.74:
        return ['lambda', gen_task(rng, depth - 1), rng.choice(['la', 'lb', 'lreal', 'limag', 'l1', 'l2', 'ld0', 'ld1', 'lkw0', 'lkw1', 'lc0', 'lc2', 'lin', 'ltup'])]
    if r < 0.82:
        n = rng.randint(0, 7)
        ms = ['mapseq', 'm1', [str(i) for i in range(n)], rng.choice([2, 3, 4])]
        if rng.random() < 0.5:
            return ms
        return ['mapslice', ms, rng.randint(0, 3), rng.randint(2, 7), rng.choice([1, 2, -1])]
    if r < 0.88:
        return ['custom', rng.choice(["b'abc'", "b'0123456789abcdef0123456789abcdef01234567'"]), gen_value(rng, depth - 1)]
    if r < 0.93:
        return ['nohash', gen_value(rng, depth - 1, False)]
    if r < 0.97:
        return ['identity', gen_value(rng, depth - 1, False)]
    return ['taskgen', 'm1']


def gen_invocation(rng, depth=3):
    """a task invocation (the unit the identifiers are about)"""
    r = rng.random()
    if r < 0.7:
        return gen_task(rng, depth)
    if r < 0.9:
        return gen_tasky(rng, depth)
    return gen_value(rng, depth)


def run_workers(specs, seeds, tag, mode='seq'):
    """Runs hashworker once per seed (separate interpreter, PYTHONHASHSEED=seed, variant=seed).
    mode 'seq': all specs one after the other in that interpreter; mode 'iso': every spec in its own forked child of an
    interpreter that hashes nothing itself (identifier only).  Returns list (per seed) of result lists."""
    with jugrun.scratch_dir('hashw') as d:
        sp = os.path.join(d, 'specs.json')
        json.dump(specs, open(sp, 'w'))
        procs = []
        for s in seeds:
            env = dict(os.environ)
            env['PYTHONHASHSEED'] = str(s)
            env['PYTHONPATH'] = core.VERIF + os.pathsep + core.REPO
            env['PYTHONDONTWRITEBYTECODE'] = '1'
            out = os.path.join(d, 'out%d.json' % s)
            p = subprocess.Popen([sys.executable, '-m', 'harness.hashworker', sp, out, str(s)] + ([mode] if mode in ('iso', 'trace') else []),
                                 env=env, cwd=core.VERIF,
                                 stdout=subprocess.PIPE, stderr=subprocess.PIPE, text=True)
            procs.append((s, out, p))
        results = []
        for s, out, p in procs:
            so, se = p.communicate(timeout=1800)
            if p.returncode != 0 or not os.path.exists(out):
                raise RuntimeError('hashworker seed %s failed: %s' % (s, se[-800:]))
            results.append(json.load(open(out)))
        return results
