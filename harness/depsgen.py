"""Generators for argument structures (Model/Deps.v `arg`), their realisation as real jug objects,
an independent plain-Python reference evaluation, the syntactic "tasks underneath" set, and encoders
from Python values to Gallina `val` literals.  Used by C16 (and available to C03, C09, C15).

An argument is first generated as a SPEC (nested tuples, printable with repr() and readable back with
`read_spec`), then
    World.realise(spec)   -> the real jug object (Tasklet, block_access_slice, CustomHash, ...)
    World.lit(spec)       -> the Gallina `arg` literal
    World.reference(spec) -> what value() must give, computed in plain Python over the chosen results,
                             with the set of results read and an "outside the model" flag
    World.occ(spec)       -> hashes of the tasks occurring underneath (outside NoHash / opaque objects)

Spec forms:
    ('val', v)  ('task', i)  ('list', [s..])  ('tuple', [s..])  ('dict', [(k, s)..])
    ('getitem', base, idx)                    base[idx]                      -> AGetitem
    ('iteratetask', base, n, i)               iteratetask(base, n)[i]        -> AGetitem base (AVal i)
    ('fun', base, 'wrap')                     Tasklet(base, wrap)            -> AFun base FWrap
    ('fun', base, ('getcheck', i, n))         Tasklet(base, partial(_get_check, i=i, n=n))
    ('return_tuple', base, n, i)              return_tuple(n)(f)()[i], f() = base   -> AFun base (FGetCheck i n)
    ('mapseq', k)  ('mapslice', k, [sl..])    the k-th mapped sequence m, m[sl1][sl2]...; sl = (start, stop, step)
    ('mapelem', k, [sl..], p)                 m[sl1]..[p] for an int p: a tasklet on one block
    ('custom', s)  ('nohash_val', v)  ('nohash_task', i)  ('opaque', [i..])  ('identity', s)
    ('identity_val', v)                       identity(v) for a plain value: a real Task(_identity, v), run when realised
    ('subopaque', kind, [i..])                an instance of a list/tuple/dict SUBCLASS holding tasks: value() hands it over
                                              unchanged, Task.dependencies() (isinstance) walks into it  -> AOpaque [tasks] v
                                              (('opaque', [i..]), a frozenset of tasks, is AOpaque [] v)
Plain values (in 'val', 'nohash_val', results) may be instances of container subclasses (namedtuple Pt, MyList,
MyTuple, MyDict, OrderedDict, defaultdict): value() must hand them over with their TYPE; the model sees them as
their base kind (VList / VTuple / VDict), the direct oracles compare the type as well.
"""
import copy
from collections import namedtuple, OrderedDict, defaultdict
from functools import partial

from . import jugrun            # puts the repository under test on sys.path
import jug
import jug.mapreduce
import jug.utils
import jug.unsafe
import jug.hash
from jug import Task, Tasklet, value
from jug.task import iteratetask, return_tuple, TaskGenerator, _get_check

from .core import zlit, natlit, listlit, optlit


class Interner:
    def __init__(self, start=1):
        self.d = {}
        self.start = start

    def __call__(self, x):
        if x not in self.d:
            self.d[x] = self.start + len(self.d)
        return self.d[x]


# ---------------------------------------------------------------- task functions
RESULTS = {}       # i -> what base task i returns (set by the World that is current)
CALLS = []         # (function name, keys in the store when the function was entered)
NSRC = 6


def src(i):
    """base task (old form): its value is chosen by the generator"""
    return RESULTS.get(i)


def _mk_src(i):
    def f():
        CALLS.append(('src%d' % i, None))
        return RESULTS[i]
    f.__name__ = f.__qualname__ = 'src%d' % i
    return f


SRC_FUNS = [_mk_src(i) for i in range(NSRC)]
for _f in SRC_FUNS:
    globals()[_f.__name__] = _f
del _f


Pt = namedtuple('Pt', ['x', 'y'])


class MyList(list):
    pass


class MyTuple(tuple):
    pass


class MyDict(dict):
    pass


def is_sub(o):
    """an instance of a proper subclass of list / tuple / dict"""
    return isinstance(o, (list, tuple, dict)) and type(o) not in (list, tuple, dict)


def type_tag(o):
    if isinstance(o, defaultdict):
        return 'defaultdict:' + getattr(o.default_factory, '__name__', repr(o.default_factory))
    return type(o).__name__


def canon(o):
    """values with Task objects / sets made comparable and picklable; the TYPE of a container-subclass
    instance (at any depth) is part of the canonical form"""
    if isinstance(o, Task):
        h = o.hash()
        return ('T', h.decode('ascii') if isinstance(h, bytes) else h)
    if type(o) == list:
        return [canon(x) for x in o]
    if type(o) == tuple:
        return tuple(canon(x) for x in o)
    if type(o) == dict:
        return {k: canon(v) for k, v in o.items()}
    if isinstance(o, list):
        return ('SUB', type_tag(o), [canon(x) for x in o])
    if isinstance(o, tuple):
        return ('SUB', type_tag(o), tuple(canon(x) for x in o))
    if isinstance(o, dict):
        return ('SUB', type_tag(o), {k: canon(v) for k, v in o.items()})
    if type(o) in (set, frozenset):
        return ('S', sorted((canon(x) for x in o), key=repr))
    return o


def pyrepr(o):
    """source text that evaluates (read_spec) to an equal object of the same types - repr() does not do that for
    defaultdict and for subclasses without their own __repr__"""
    if type(o) == list:
        return '[' + ', '.join(pyrepr(x) for x in o) + ']'
    if type(o) == tuple:
        return '(' + ', '.join(pyrepr(x) for x in o) + (',' if len(o) == 1 else '') + ')'
    if type(o) == dict:
        return '{' + ', '.join('%s: %s' % (pyrepr(k), pyrepr(v)) for k, v in o.items()) + '}'
    if isinstance(o, Pt):
        return 'Pt(%s, %s)' % (pyrepr(o.x), pyrepr(o.y))
    if isinstance(o, MyList):
        return 'MyList(%s)' % pyrepr(list(o))
    if isinstance(o, MyTuple):
        return 'MyTuple(%s)' % pyrepr(tuple(o))
    if isinstance(o, MyDict):
        return 'MyDict(%s)' % pyrepr(dict(o))
    if isinstance(o, OrderedDict):
        return 'OrderedDict(%s)' % pyrepr(list(o.items()))
    if isinstance(o, defaultdict):
        return 'defaultdict(%s, %s)' % (o.default_factory.__name__, pyrepr(dict(o)))
    if is_sub(o):
        raise ValueError('pyrepr: unknown container subclass %r' % type(o))
    return repr(o)


def consumer(*a, **k):
    try:
        keys = sorted(Task.store.list())
    except Exception:
        keys = None
    CALLS.append(('consumer', keys))
    return ('consumed', canon(a), sorted((kk, canon(v)) for kk, v in k.items()))


def wrap(x):
    return (x,)


def ident_fn(x):
    return x


def pair(x):
    return (x, x)


def custom_digest(o):
    return jug.hash.hash_one(('depsgen-custom', o))


# ---------------------------------------------------------------- Python value -> val literal
def sl_lit(sl):
    f = lambda v: optlit(None if v is None else zlit(v))
    return '{| sl_start := %s; sl_stop := %s; sl_step := %s |}' % (f(sl.start), f(sl.stop), f(sl.step))


def key_lit(k, atoms):
    if type(k) == int:
        return '(KInt %s)' % zlit(k)
    return '(KAtom %d%%positive)' % atoms(('atom', repr(k)))


def enc_val(o, tids, atoms):
    """tids: hash bytes -> tid (for Task objects appearing as values)"""
    if isinstance(o, Task):
        return '(VTaskRef %d%%positive)' % tids(o.hash())
    if type(o) == bool or o is None or type(o) in (float, str, bytes):
        return '(VAtom %d%%positive)' % atoms(('atom', repr(o)))
    if type(o) == int:
        return '(VInt %s)' % zlit(o)
    if type(o) == slice:
        if not all(v is None or type(v) == int for v in (o.start, o.stop, o.step)):
            raise ValueError('cannot encode slice %r' % (o,))
        return '(VSlice %s)' % sl_lit(o)
    # instances of container subclasses are seen as their base kind (the model has no types)
    if isinstance(o, list):
        return '(VList %s)' % listlit([enc_val(x, tids, atoms) for x in o])
    if isinstance(o, tuple):
        return '(VTuple %s)' % listlit([enc_val(x, tids, atoms) for x in o])
    if isinstance(o, dict):
        return '(VDict %s)' % listlit(['(%s, %s)' % (key_lit(k, atoms), enc_val(v, tids, atoms)) for k, v in o.items()])
    if type(o) in (set, frozenset):
        inner = sorted(('T:%d' % tids(x.hash())) if isinstance(x, Task) else repr(x) for x in o)
        return '(VAtom %d%%positive)' % atoms(('set', tuple(inner)))
    raise ValueError('cannot encode value %r' % (o,))


def range_lit(r):
    return '{| r_start := %s; r_stop := %s; r_step := %s |}' % (zlit(r[0]), zlit(r[1]), zlit(r[2]))


# ---------------------------------------------------------------- random plain values (results of base tasks)
ATOMS = [0, 1, 2, 7, -3, 'a', 'b', None, 1.5, True]


def gen_subclass(rng, depth=1):
    """an instance of a list / tuple / dict subclass with plain content"""
    k = rng.randrange(6)
    item = lambda: gen_result(rng, depth - 1)
    keys = rng.sample(['a', 'b', 'c', 0, 1], rng.randint(1, 3))
    if k == 0:
        return Pt(item(), item())
    if k == 1:
        return MyList([item() for _ in range(rng.randint(1, 3))])
    if k == 2:
        return MyTuple([item() for _ in range(rng.randint(1, 3))])
    if k == 3:
        return MyDict((kk, item()) for kk in keys)
    if k == 4:
        return OrderedDict((kk, item()) for kk in keys)
    return defaultdict(rng.choice([int, list]), [(kk, item()) for kk in keys])


def mk_subopaque(kind, tasks):
    if kind == 'Pt':
        return Pt(tasks[0], tasks[1] if len(tasks) > 1 else 2)
    if kind == 'MyList':
        return MyList(list(tasks) + [1])
    if kind == 'MyTuple':
        return MyTuple(list(tasks))
    if kind == 'OrderedDict':
        return OrderedDict(('k%d' % j, t) for j, t in enumerate(tasks))
    if kind == 'defaultdict':
        return defaultdict(int, [('k%d' % j, t) for j, t in enumerate(tasks)])
    return MyDict(('k%d' % j, t) for j, t in enumerate(tasks))


SUBOPAQUE_KINDS = ['Pt', 'MyList', 'MyTuple', 'OrderedDict', 'defaultdict', 'MyDict']


def gen_result(rng, depth=2):
    if depth > 0 and rng.random() < 0.12:
        return gen_subclass(rng, depth)
    r = rng.random()
    if depth <= 0 or r < 0.25:
        return rng.choice(ATOMS)
    if r < 0.6:
        return [gen_result(rng, depth - 1) for _ in range(rng.randint(0, 4))]
    if r < 0.8:
        return tuple(gen_result(rng, depth - 1) for _ in range(rng.randint(0, 3)))
    keys = rng.sample(['a', 'b', 'c', 0, 1], rng.randint(0, 3))
    return {k: gen_result(rng, depth - 1) for k in keys}


def gen_container(rng, depth=3):
    """a result worth indexing into"""
    if rng.random() < 0.25:
        return gen_subclass(rng, depth)
    r = rng.random()
    if r < 0.5:
        return [gen_result(rng, depth - 1) for _ in range(rng.randint(1, 4))]
    if r < 0.7:
        return tuple(gen_result(rng, depth - 1) for _ in range(rng.randint(1, 3)))
    keys = rng.sample(['a', 'b', 'c', 0, 1], rng.randint(1, 4))
    return {k: gen_result(rng, depth - 1) for k in keys}


def gen_indexlike(rng):
    """a result worth using as an index"""
    r = rng.random()
    if r < 0.55:
        return rng.choice([0, 1, -1, 2, -2])
    if r < 0.85:
        return rng.choice(['a', 'b', 'c'])
    return slice(rng.choice([None, 0, 1, -2]), rng.choice([None, 2, -1]), rng.choice([None, 1, 2, -1]))


def read_spec(text):
    """inverse of repr() on specs / world descriptions (written by this module into replay files)"""
    return eval(text, {'__builtins__': {}}, {'slice': slice, 'True': True, 'False': False, 'None': None, 'int': int, 'list': list,
                                              'Pt': Pt, 'MyList': MyList, 'MyTuple': MyTuple, 'MyDict': MyDict,
                                              'OrderedDict': OrderedDict, 'defaultdict': defaultdict})


class Missing(Exception):
    """reference evaluation: a result that is needed is not stored"""


class World:
    """A set of real base tasks with chosen results (some stored, some not), mapped sequences with
    per-block stored flags, and argument specs built over them.

    desc (optional) rebuilds a recorded world:
        {'results': [..], 'stored': [bool..], 'maps': [{'xs': [..], 'bs': int, 'stored': [bool per block]}..]}"""
    Missing = Missing

    def __init__(self, rng, nbase=4, nmaps=1, stored_prob=0.8, desc=None, store=None, dump=True):
        self.rng = rng
        self.store = jugrun.fresh(store)
        self.tids = Interner()
        self.atoms = Interner()
        if desc is None:
            nbase = min(nbase, NSRC)
            results = []
            for i in range(nbase):
                r = rng.random()
                if i == 0 or r < 0.25:
                    results.append(gen_container(rng, 3))
                elif i == 2 or r < 0.45:
                    results.append(gen_indexlike(rng))
                else:
                    results.append(gen_result(rng, 3))
            maps = []
            for k in range(nmaps):
                n = rng.randint(0, 9)
                bs = rng.choice([2, 3, 4])
                nb = (n + bs - 1) // bs
                allst = rng.random() < stored_prob
                maps.append({'xs': [10 * k + j for j in range(n)], 'bs': bs,
                             'stored': [allst or rng.random() < stored_prob * 0.7 for _ in range(nb)]})
            desc = {'results': results, 'stored': [rng.random() < stored_prob for _ in range(nbase)], 'maps': maps}
        self.desc = desc
        self.dump = dump
        self.extra = []        # tasks created by identity(plain value)
        self._ident = {}
        self.oom_reason = ''
        self.mutating = False
        RESULTS.clear()
        RESULTS.update(enumerate(desc['results']))
        del CALLS[:]
        self.base = []         # (Task, result, stored?)
        for i, res in enumerate(desc['results']):
            t = Task(SRC_FUNS[i])
            stored = bool(desc['stored'][i])
            if stored and dump:
                self.store.dump(res, t.hash())
            self.base.append((t, res, stored))
            self.tids(t.hash())
        self.reads = set()
        self._ref_cache = {}
        self.out_of_model = False
        self.maps = []         # (block_access, inputs, bs, [block tasks], [stored? per block])
        for md in desc['maps']:
            xs, bs = list(md['xs']), md['bs']
            m = jug.mapreduce.map(pair, xs, map_step=bs)
            blocks = list(m.blocks)
            stored = [bool(x) for x in md['stored']]
            assert len(stored) == len(blocks)
            for b, s in zip(blocks, stored):
                self.tids(b.hash())
                if s and dump:
                    self.store.dump([pair(x + md.get('shift', 0)) for x in b.args[1]], b.hash())
            self.maps.append((m, xs, bs, blocks, stored))
        self._results = {}
        self._stored = {}
        for t, res, s in self.base:
            self._results[t.hash()] = res
            self._stored[t.hash()] = s
        for m, xs, bs, blocks, stored in self.maps:
            for b, s in zip(blocks, stored):
                self._results[b.hash()] = [pair(x) for x in b.args[1]]
                self._stored[b.hash()] = s
        for k, md in enumerate(desc['maps']):
            if md.get('shift', 0):
                for b in self.maps[k][3]:
                    self._results[b.hash()] = [pair(x + md['shift']) for x in b.args[1]]

    # ---- histories: the same tasks, recomputed with other results / removed / added
    def gen_state2(self, rng):
        d = self.desc
        results = [gen_result(rng, 3) if rng.random() < 0.3 else (gen_container(rng, 3) if rng.random() < 0.5 else r) for r in d['results']]
        flip = lambda s: (not s) if rng.random() < 0.2 else s
        return {'results': results, 'stored': [flip(s) for s in d['stored']],
                'maps': [{'xs': md['xs'], 'bs': md['bs'], 'shift': rng.choice([0, 100, 100]), 'stored': [flip(s) for s in md['stored']]}
                         for md in d['maps']]}

    def apply_state(self, desc2):
        """make the store (and what the reference knows) hold the state desc2: the same tasks with other
        results / stored flags, written through the store as another worker would (remove + dump)"""
        def put(h, val, stored):
            if self.store.can_load(h):
                self.store.remove(h)
            if stored:
                self.store.dump(val, h)
            self._results[h] = val
            self._stored[h] = stored
        for i, (t, res, st) in enumerate(self.base):
            new, s = desc2['results'][i], bool(desc2['stored'][i])
            put(t.hash(), new, s)
            self.base[i] = (t, new, s)
        RESULTS.update(enumerate(desc2['results']))
        for k, (m, xs, bs, blocks, stored) in enumerate(self.maps):
            md = desc2['maps'][k]
            newst = [bool(x) for x in md['stored']]
            for b, s in zip(blocks, newst):
                put(b.hash(), [pair(x + md.get('shift', 0)) for x in b.args[1]], s)
            self.maps[k] = (m, xs, bs, blocks, newst)
        self.desc = desc2

    def describe(self):
        return pyrepr(self.desc)

    def all_tasks(self):
        return [t for t, _, _ in self.base] + [b for m in self.maps for b in m[3]] + list(self.extra)

    def identity_task(self, v):
        """identity(v) for a plain value v: Task(_identity, v); executed at once (when this world fills its store)"""
        k = pyrepr(v)
        if k not in self._ident:
            t = jug.utils.identity(v)
            h = t.hash()
            self.tids(h)
            self._results[h] = v
            self._stored[h] = bool(self.dump)
            if self.dump and not t.can_load():
                t.run()
            self.extra.append(t)
            self._ident[k] = t
        return self._ident[k]

    def unload_all(self):
        for t in self.all_tasks():
            t.unload()

    def is_stored(self, h):
        return self._stored[h]

    # ---- the store as the model sees it
    def st_literal(self):
        """association list tid -> val of the stored results"""
        items = []
        for t in self.all_tasks():
            h = t.hash()
            if self._stored[h]:
                items.append('(%d%%positive, %s)' % (self.tids(h), enc_val(self._results[h], self.tids, self.atoms)))
        return listlit(items)

    # ---- independent reference evaluation: plain Python over the chosen results
    def result_of(self, t):
        """the result chosen for task t (base or block), recording the read; raises Missing when not stored"""
        h = t.hash()
        self.reads.add(h)
        if h not in self._results:
            raise KeyError(h)
        if not self._stored[h]:
            raise Missing()
        # one private copy per evaluation: like a Task, which loads its result once and then hands out the same
        # object (a defaultdict indexed with a missing key changes it for every later reader)
        if h not in self._ref_cache:
            self._ref_cache[h] = copy.deepcopy(self._results[h])
        return self._ref_cache[h]

    def _oom(self, why):
        self.out_of_model = True
        self.oom_reason = why

    def _index(self, o, i):
        # Python semantics the model does not have: str/bytes are indexable, True/False index like 1/0,
        # a defaultdict invents missing entries
        if isinstance(o, (str, bytes)) or isinstance(i, bool):
            self._oom('str index / bool index / return_tuple of dict')
        self._note_mutation(o, i)
        return o[i]

    def _note_mutation(self, o, i):
        if isinstance(o, defaultdict):
            try:
                if i not in o:
                    self.mutating = True       # the read itself changes the result object: a second evaluation differs
                    self._oom('defaultdict indexed with a missing key')
            except TypeError:
                pass

    def _positions(self, k, slices):
        m, xs, bs, blocks, stored = self.maps[k]
        pos = list(range(len(xs)))
        for sl in slices:
            pos = pos[slice(*sl)]
        return pos

    def _range(self, k, slices):
        """(start, stop, step) a block_access_slice must carry after these slices (CPython's own arithmetic)"""
        m, xs, bs, blocks, stored = self.maps[k]
        r = range(*slice(*slices[0]).indices(len(xs)))
        for sl in slices[1:]:
            r = r[slice(*sl)]
        return (r.start, r.stop, r.step)

    def _element(self, k, p):
        m, xs, bs, blocks, stored = self.maps[k]
        return self.result_of(blocks[p // bs])[p % bs]

    def ref(self, s):
        tag = s[0]
        if tag == 'val' or tag == 'nohash_val':
            return s[1]
        if tag == 'task':
            return self.result_of(self.base[s[1]][0])
        if tag == 'list':
            return [self.ref(x) for x in s[1]]
        if tag == 'tuple':
            return tuple([self.ref(x) for x in s[1]])
        if tag == 'dict':
            return {k: self.ref(x) for k, x in s[1]}
        if tag == 'getitem':
            o = self.ref(s[1])
            i = self.ref(s[2])
            return self._index(o, i)
        if tag == 'iteratetask':
            o = self.ref(s[1])
            return self._index(o, s[3])
        if tag == 'fun' or tag == 'return_tuple':
            o = self.ref(s[1])
            f = s[2] if tag == 'fun' else ('getcheck', s[3], s[2])
            if f == 'wrap':
                return (o,)
            _, i, n = f
            if isinstance(o, (str, bytes, dict)):
                self._oom('str index / bool index / return_tuple of dict')   # len()/[] work on them; the model knows sequences only
            if len(o) != n:
                raise ValueError('wrong length')
            self._note_mutation(o, i)
            return o[i]
        if tag == 'mapseq':
            out = []
            for b in self.maps[s[1]][3]:
                out.extend(self.result_of(b))
            return out
        if tag == 'mapslice':
            return [self._element(s[1], p) for p in self._positions(s[1], s[2])]
        if tag == 'mapelem':
            pos = self._positions(s[1], s[2])
            return self._element(s[1], pos[s[3]])
        if tag == 'custom' or tag == 'identity':
            return self.ref(s[1])
        if tag == 'nohash_task':
            return self.base[s[1]][0]
        if tag == 'opaque':
            return frozenset(self.base[i][0] for i in s[1])
        if tag == 'identity_val':
            self._oom('identity(plain value): a task created and run on the fly')
            return self.result_of(self.identity_task(s[1]))
        if tag == 'subopaque':
            # value() hands it over as it is (tasks inside stay Task objects); the walk declares them:
            # Model/Deps.v  AOpaque declared v
            return mk_subopaque(s[1], [self.base[i][0] for i in s[2]])
        raise ValueError('bad spec %r' % (s,))

    def reference(self, s):
        """-> (outcome, reads, out_of_model); outcome = ('ok', v) | ('missing',) | ('raised', exception name)"""
        self.reads = set()
        self._ref_cache = {}
        self.out_of_model = False
        self.mutating = False
        self.oom_reason = ''
        try:
            out = ('ok', self.ref(s))
        except Missing:
            out = ('missing',)
        except Exception as e:
            out = ('raised', type(e).__name__)
        # syntactic reasons hold even when the evaluation stopped before reaching the node
        text = repr(s)
        if "'identity_val'" in text:
            self._oom('identity(plain value): a task created and run on the fly')
        return out, set(self.reads), self.out_of_model

    # ---- the tasks underneath, read off the syntax
    def occ(self, s):
        tag = s[0]
        if tag in ('val', 'nohash_val', 'nohash_task', 'opaque'):
            return set()
        if tag == 'task':
            return {self.base[s[1]][0].hash()}
        if tag == 'identity_val':
            return {self.identity_task(s[1]).hash()}
        if tag == 'subopaque':
            return {self.base[i][0].hash() for i in s[2]}
        if tag in ('list', 'tuple'):
            return set().union(*[self.occ(x) for x in s[1]]) if s[1] else set()
        if tag == 'dict':
            return set().union(*[self.occ(x) for _, x in s[1]]) if s[1] else set()
        if tag == 'getitem':
            return self.occ(s[1]) | self.occ(s[2])
        if tag in ('iteratetask', 'fun', 'return_tuple', 'custom', 'identity'):
            return self.occ(s[1])
        if tag in ('mapseq', 'mapslice'):
            return {b.hash() for b in self.maps[s[1]][3]}
        if tag == 'mapelem':
            m, xs, bs, blocks, stored = self.maps[s[1]]
            p = self._positions(s[1], s[2])[s[3]]
            return {blocks[p // bs].hash()}
        raise ValueError('bad spec %r' % (s,))

    def can_load_expected(self, s):
        """can_load() of the derived object: the tasks at the bottom of the BASE chain are stored
        (Tasklet.can_load delegates to its base and does not consult the operation); None = no can_load"""
        tag = s[0]
        if tag == 'task':
            return self._stored[self.base[s[1]][0].hash()]
        if tag == 'identity_val':
            return self._stored[self.identity_task(s[1]).hash()]
        if tag in ('getitem', 'iteratetask', 'fun', 'return_tuple'):
            return self.can_load_expected(s[1])
        if tag == 'identity':
            return self.can_load_expected(s[1])
        if tag in ('mapseq', 'mapslice', 'mapelem'):
            return all(self._stored[h] for h in self.occ(s))
        return None

    # ---- canonical structure of a derived expression, for the consumer-hash oracle
    def canon_spec(self, s, norm=False):
        """A hashable term such that, INSIDE the fragment it covers, two specs denote the same jug expression
        iff their terms are equal (norm=False: slices literally; norm=True: slices up to what Python guarantees
        equal for every length - used for the "must have different hashes" direction only): tasks, constant indices that are int (not bool) / str / None / slices of
        those, task- and tasklet-valued indices, iteratetask (= base[i]), return_tuple / partial(_get_check),
        Tasklet(base, wrap), identity (= its argument), CustomHash of one of these, mapped sequences, their
        slices (by the range they carry) and elements (= block[j]).  None = outside the fragment (NoHash hashes
        alike by design; containers, floats, subclass instances are the business of C07/C08)."""
        def const(v):
            ok = lambda x: x is None or (type(x) == int) or type(x) == str
            if ok(v):
                return ('const', repr(v))
            if type(v) == slice and all(x is None or type(x) == int for x in (v.start, v.stop, v.step)):
                if norm:
                    # what Python guarantees equal for EVERY length: no step = step 1; for a positive step no
                    # start = start 0 (for a negative step no start means "from the end": NOT 0)
                    step = 1 if v.step is None else v.step
                    start = 0 if (v.start is None and step > 0) else v.start
                    v = slice(start, v.stop, step)
                return ('const', repr(v))
            return None
        rec = lambda x: self.canon_spec(x, norm)
        tag = s[0]
        if tag == 'task':
            return ('task', s[1])
        if tag == 'identity':
            # identity(x) is x for a task or tasklet only (for anything else it is a new task)
            return rec(s[1]) if s[1][0] in ('task', 'getitem', 'iteratetask', 'fun', 'return_tuple', 'mapelem', 'identity') else None
        if tag == 'getitem':
            b = rec(s[1])
            i = const(s[2][1]) if s[2][0] == 'val' else rec(s[2])
            return None if b is None or i is None else ('getitem', b, i)
        if tag == 'iteratetask':
            b = rec(s[1])
            return None if b is None else ('getitem', b, ('const', repr(s[3])))
        if tag == 'fun' or tag == 'return_tuple':
            b = rec(s[1])
            f = s[2] if tag == 'fun' else ('getcheck', s[3], s[2])
            return None if b is None else ('fun', b, f)
        if tag == 'custom':
            b = rec(s[1])
            return None if b is None else ('custom', b)
        if tag == 'mapseq':
            return ('mapseq', s[1])
        if tag == 'mapslice':
            return ('mapslice', s[1], self._range(s[1], s[2]))
        if tag == 'mapelem':
            m, xs, bs, blocks, stored = self.maps[s[1]]
            p = self._positions(s[1], s[2])[s[3]]
            return ('getitem', ('block', s[1], p // bs), ('const', repr(p % bs)))
        return None

    # ---- spec -> real jug object
    def realise(self, s):
        tag = s[0]
        if tag == 'val':
            return s[1]
        if tag == 'task':
            return self.base[s[1]][0]
        if tag == 'list':
            return [self.realise(x) for x in s[1]]
        if tag == 'tuple':
            return tuple(self.realise(x) for x in s[1])
        if tag == 'dict':
            return {k: self.realise(x) for k, x in s[1]}
        if tag == 'getitem':
            return self.realise(s[1])[self.realise(s[2])]
        if tag == 'iteratetask':
            return iteratetask(self.realise(s[1]), s[2])[s[3]]
        if tag == 'fun':
            base = self.realise(s[1])
            if s[2] == 'wrap':
                return Tasklet(base, wrap)
            _, i, n = s[2]
            return Tasklet(base, partial(_get_check, i=i, n=n))
        if tag == 'return_tuple':
            base = self.realise(s[1])

            def producer():
                return base
            return return_tuple(s[2])(producer)()[s[3]]
        if tag == 'mapseq':
            return self.maps[s[1]][0]
        if tag == 'mapslice':
            o = self.maps[s[1]][0]
            for sl in s[2]:
                o = o[slice(*sl)]
            return o
        if tag == 'mapelem':
            o = self.maps[s[1]][0]
            for sl in s[2]:
                o = o[slice(*sl)]
            return o[s[3]]
        if tag == 'custom':
            return jug.utils.CustomHash(self.realise(s[1]), custom_digest)
        if tag == 'nohash_val':
            return jug.unsafe.NoHash(s[1])
        if tag == 'nohash_task':
            return jug.unsafe.NoHash(self.base[s[1]][0])
        if tag == 'opaque':
            return frozenset(self.base[i][0] for i in s[1])
        if tag == 'identity':
            return jug.utils.identity(self.realise(s[1]))
        if tag == 'identity_val':
            return self.identity_task(s[1])
        if tag == 'subopaque':
            return mk_subopaque(s[1], [self.base[i][0] for i in s[2]])
        raise ValueError('bad spec %r' % (s,))

    # ---- spec -> Gallina arg literal
    def tid_lit(self, t):
        return '%d%%positive' % self.tids(t.hash())

    def _map_head(self, k):
        m, xs, bs, blocks, stored = self.maps[k]
        return '%s %s %s' % (listlit([self.tid_lit(b) for b in blocks]), natlit(bs), zlit(len(xs)))

    def lit(self, s):
        tag = s[0]
        if tag == 'val':
            return '(AVal %s)' % enc_val(s[1], self.tids, self.atoms)
        if tag == 'task':
            return '(ATask %s)' % self.tid_lit(self.base[s[1]][0])
        if tag == 'list':
            return '(AList %s)' % listlit([self.lit(x) for x in s[1]])
        if tag == 'tuple':
            return '(ATuple %s)' % listlit([self.lit(x) for x in s[1]])
        if tag == 'dict':
            return '(ADict %s)' % listlit(['(%s, %s)' % (key_lit(k, self.atoms), self.lit(x)) for k, x in s[1]])
        if tag == 'getitem':
            return '(AGetitem %s %s)' % (self.lit(s[1]), self.lit(s[2]))
        if tag == 'iteratetask':
            return '(AGetitem %s (AVal (VInt %s)))' % (self.lit(s[1]), zlit(s[3]))
        if tag == 'fun':
            if s[2] == 'wrap':
                return '(AFun %s FWrap)' % self.lit(s[1])
            _, i, n = s[2]
            return '(AFun %s (FGetCheck %s %s))' % (self.lit(s[1]), natlit(i), natlit(n))
        if tag == 'return_tuple':
            return '(AFun %s (FGetCheck %s %s))' % (self.lit(s[1]), natlit(s[3]), natlit(s[2]))
        if tag == 'mapseq':
            return '(AMapSeq %s)' % self._map_head(s[1])
        if tag == 'mapslice':
            return '(AMapSlice %s %s)' % (self._map_head(s[1]), range_lit(self._range(s[1], s[2])))
        if tag == 'mapelem':
            m, xs, bs, blocks, stored = self.maps[s[1]]
            p = self._positions(s[1], s[2])[s[3]]
            return '(AGetitem (ATask %s) (AVal (VInt %s)))' % (self.tid_lit(blocks[p // bs]), zlit(p % bs))
        if tag == 'custom':
            return '(ACustom %s)' % self.lit(s[1])
        if tag == 'nohash_val':
            return '(ANoHashVal %s)' % enc_val(s[1], self.tids, self.atoms)
        if tag == 'nohash_task':
            return '(ANoHashTask %s)' % self.tid_lit(self.base[s[1]][0])
        if tag == 'opaque':
            ts = frozenset(self.base[i][0] for i in s[1])
            # neither value() nor the walk looks into a frozenset: no declared inner task
            return '(AOpaque [] %s)' % enc_val(ts, self.tids, self.atoms)
        if tag == 'identity':
            return self.lit(s[1])          # identity(task or tasklet) is that very object
        if tag == 'identity_val':
            return '(ATask %s)' % self.tid_lit(self.identity_task(s[1]))
        if tag == 'subopaque':
            ts = [self.base[i][0] for i in s[2]]
            return '(AOpaque %s %s)' % (listlit([self.tid_lit(t) for t in ts]), enc_val(mk_subopaque(s[1], ts), self.tids, self.atoms))
        raise ValueError('bad spec %r' % (s,))

    # ---- random specs
    def gen_spec(self, depth=3):
        rng = self.rng
        r = rng.random()
        if depth <= 0 or r < 0.10:
            return ('val', gen_subclass(rng, 2) if rng.random() < 0.25 else gen_result(rng, 1))
        if r < 0.24:
            return self.gen_task_spec()
        if r < 0.32:
            return ('list', [self.gen_spec(depth - 1) for _ in range(rng.randint(0, 3))])
        if r < 0.38:
            return ('tuple', [self.gen_spec(depth - 1) for _ in range(rng.randint(0, 3))])
        if r < 0.45:
            keys = rng.sample(['a', 'b', 'c', 0, 1], rng.randint(0, 3))
            return ('dict', [(k, self.gen_spec(depth - 1)) for k in keys])
        if r < 0.70:
            return self.gen_tasklet_spec(depth)
        if r < 0.83 and self.maps:
            return self.gen_mapped_spec()
        if r < 0.88:
            inner = self.gen_spec(depth - 1) if rng.random() < 0.5 else \
                rng.choice([('list', [self.gen_task_spec(), self.gen_tasklet_spec(depth - 1)]),
                            ('dict', [('a', self.gen_task_spec())]),
                            ('tuple', [self.gen_task_spec(), ('val', 3)])])
            if rng.random() < 0.2:
                inner = ('val', gen_subclass(rng, 2))
            return ('custom', inner)
        if r < 0.92:
            if rng.random() < 0.4:
                return ('nohash_task', rng.randrange(len(self.base)))
            return ('nohash_val', gen_subclass(rng, 2) if rng.random() < 0.4 else gen_result(rng, 1))
        if r < 0.935:
            return ('subopaque', rng.choice(SUBOPAQUE_KINDS), sorted(rng.sample(range(len(self.base)), rng.randint(1, min(2, len(self.base))))))
        if r < 0.95:
            return ('identity_val', gen_subclass(rng, 2) if rng.random() < 0.7 else gen_result(rng, 2))
        if r < 0.965:
            return ('opaque', sorted(rng.sample(range(len(self.base)), rng.randint(1, min(2, len(self.base))))))
        return ('identity', self.gen_task_spec() if rng.random() < 0.5 else self.gen_tasklet_spec(depth - 1))

    def gen_task_spec(self):
        return ('task', self.rng.randrange(len(self.base)))

    def gen_index_spec(self, depth):
        rng = self.rng
        r = rng.random()
        if r < 0.40:
            return ('val', rng.choice([0, 1, -1, 2, 5, -4, -2]))
        if r < 0.52:
            return ('val', rng.choice(['a', 'b', 'c']))
        if r < 0.64:
            return ('val', slice(rng.choice([None, 0, 1, -2]), rng.choice([None, 2, 5, -1]), rng.choice([None, 1, 2, -1])))
        if r < 0.80 or depth <= 0:
            return self.gen_task_spec()                       # a task-valued index
        if r < 0.92:
            return self.gen_tasklet_spec(depth - 1)           # a tasklet-valued index
        if r < 0.96:
            return ('custom', self.gen_task_spec())
        return self.gen_spec(1)                               # anything: a container of tasks, NoHash ...

    def gen_tasklet_spec(self, depth):
        rng = self.rng
        r0 = rng.random()
        if depth > 0 and r0 < 0.45:
            base = self.gen_tasklet_spec(depth - 1)
        elif r0 < 0.53 and self.maps:
            # Tasklet over a mapped sequence / slice / container: only the function forms exist for them
            base = rng.choice([self.gen_mapped_spec(whole_only=True), ('list', [self.gen_task_spec(), ('val', 1)])])
            return ('fun', base, 'wrap') if rng.random() < 0.7 else ('fun', base, ('getcheck', rng.randint(0, 2), rng.randint(1, 3)))
        else:
            base = self.gen_task_spec()
        r = rng.random()
        if r < 0.66:
            return ('getitem', base, self.gen_index_spec(depth - 1))
        if r < 0.74:
            return ('fun', base, 'wrap')
        if r < 0.82:
            n = rng.randint(1, 4)
            return ('iteratetask', base, n, rng.randrange(n))
        if r < 0.92:
            n = rng.randint(1, 3)
            return ('return_tuple', base, n, rng.randrange(n))
        return ('fun', base, ('getcheck', rng.randint(0, 2), rng.randint(1, 3)))

    def gen_slice(self, n):
        rng = self.rng
        rb = [None] * 3 + list(range(-n - 1, n + 2))
        return (rng.choice(rb), rng.choice(rb), rng.choice([None, None, 1, 2, 3, -1, -2]))

    def gen_mapped_spec(self, whole_only=False):
        rng = self.rng
        k = rng.randrange(len(self.maps))
        n = len(self.maps[k][1])
        r = rng.random()
        if r < 0.25:
            return ('mapseq', k)
        slices = []
        length = n
        for _ in range(rng.choice([1, 1, 2, 2, 3])):
            sl = self.gen_slice(length)
            slices.append(sl)
            length = len(range(length)[slice(*sl)])
        if not whole_only and r < 0.45:
            # an int index, possibly negative, into the sequence or into a slice of it
            if rng.random() < 0.5:
                slices = []
                length = n
            if length > 0:
                return ('mapelem', k, slices, rng.randrange(-length, length))
            return ('mapseq', k)
        return ('mapslice', k, slices)

    # ---- old interface: (python object, arg literal, reference thunk)
    def gen_arg(self, depth=3):
        s = self.gen_spec(depth)
        return self.realise(s), self.lit(s), (lambda: self.ref(s))

    def gen_task(self):
        s = self.gen_task_spec()
        return self.realise(s), self.lit(s), (lambda: self.ref(s))


# ---------------------------------------------------------------- programs for real `jug execute` / `jug invalidate`
LAST = {}


def consumer_task(o, how='pos'):
    """a consumer of the derived object o, receiving it positionally, by keyword, or inside a container"""
    if how == 'kw':
        return Task(consumer, k=o)
    if how == 'nested':
        return Task(consumer, 1, [o, {'x': (o,)}])
    return Task(consumer, o)


def build_program(desc, spec, how='pos'):
    """Called from a generated jugfile: defines the base tasks and mapped sequences of the world `desc`
    (nothing is stored by this), the derived object `spec` and its consumer."""
    w = World(None, desc=desc, store=Task.store, dump=False)
    o = w.realise(spec)
    c = consumer_task(o, how)
    LAST.clear()
    LAST.update(world=w, obj=o, consumer=c)
    return c


JUGFILE = '''import harness.depsgen as G
G.build_program(G.read_spec(%r), G.read_spec(%r), %r)
'''


def write_jugfile(path, desc, spec, how='pos'):
    with open(path, 'w') as fh:
        fh.write(JUGFILE % (pyrepr(desc), pyrepr(spec), how))


def build_group(desc, specs, how='pos'):
    """Called from a generated jugfile: one consumer (same function, same way of receiving) per derived object."""
    w = World(None, desc=desc, store=Task.store, dump=False)
    cs = [consumer_task(w.realise(sp), how) for sp in specs]
    LAST.clear()
    LAST.update(world=w, consumers=cs)
    return cs


JUGFILE_GROUP = '''import harness.depsgen as G
G.build_group(G.read_spec(%r), G.read_spec(%r), %r)
'''


def write_jugfile_group(path, desc, specs, how='pos'):
    with open(path, 'w') as fh:
        fh.write(JUGFILE_GROUP % (pyrepr(desc), pyrepr(list(specs)), how))
