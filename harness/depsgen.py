"""Generators for argument structures (Model/Deps.v `arg`), their realisation as real jug objects,
and encoders from Python values to Gallina `val` literals.  Used by C03, C09, C15, C16."""
import jug
import jug.mapreduce
import jug.utils
import jug.unsafe
from jug import Task, Tasklet, value
from jug.task import iteratetask, return_tuple, TaskGenerator

from .core import zlit, natlit, listlit, optlit
from . import jugrun


class Interner:
    def __init__(self, start=1):
        self.d = {}
        self.start = start

    def __call__(self, x):
        if x not in self.d:
            self.d[x] = self.start + len(self.d)
        return self.d[x]


# ---------------------------------------------------------------- task functions
def src(i):
    """base task: its value is chosen by the generator (stored directly)"""
    return None


def consumer(*a, **k):
    return ('consumed', a, sorted(k.items()))


def wrap(x):
    return (x,)


def ident_fn(x):
    return x


def pair(x):
    return (x, x)


# ---------------------------------------------------------------- Python value -> val literal
def sl_lit(sl):
    f = lambda v: optlit(None if v is None else zlit(v))
    return '{| sl_start := %s; sl_stop := %s; sl_step := %s |}' % (f(sl.start), f(sl.stop), f(sl.step))


def key_lit(k, atoms):
    if type(k) == int:
        return '(KInt %s)' % zlit(k)
    return '(KAtom %d%%positive)' % atoms(('atom', repr(k)))


def enc_val(o, tids, atoms):
    """tids: hash bytes -> tid (for Task objects appearing as values)"""
    if isinstance(o, Task):
        return '(VTaskRef %d%%positive)' % tids(o.hash())
    if type(o) == bool or o is None or type(o) in (float, str, bytes):
        return '(VAtom %d%%positive)' % atoms(('atom', repr(o)))
    if type(o) == int:
        return '(VInt %s)' % zlit(o)
    if type(o) == slice:
        return '(VSlice %s)' % sl_lit(o)
    if type(o) == list:
        return '(VList %s)' % listlit([enc_val(x, tids, atoms) for x in o])
    if type(o) == tuple:
        return '(VTuple %s)' % listlit([enc_val(x, tids, atoms) for x in o])
    if type(o) == dict:
        return '(VDict %s)' % listlit(['(%s, %s)' % (key_lit(k, atoms), enc_val(v, tids, atoms)) for k, v in o.items()])
    if type(o) in (set, frozenset):
        inner = sorted(('T:%d' % tids(x.hash())) if isinstance(x, Task) else repr(x) for x in o)
        return '(VAtom %d%%positive)' % atoms(('set', tuple(inner)))
    raise ValueError('cannot encode value %r' % (o,))


# ---------------------------------------------------------------- random plain values (results of base tasks)
def gen_result(rng, depth=2):
    r = rng.random()
    if depth <= 0 or r < 0.25:
        return rng.choice([0, 1, 2, 7, -3, 'a', 'b', None, 1.5, True])
    if r < 0.6:
        return [gen_result(rng, depth - 1) for _ in range(rng.randint(0, 4))]
    if r < 0.8:
        return tuple(gen_result(rng, depth - 1) for _ in range(rng.randint(0, 3)))
    keys = rng.sample(['a', 'b', 'c', 0, 1], rng.randint(0, 3))
    return {k: gen_result(rng, depth - 1) for k in keys}


class World:
    """A set of real base tasks with chosen results (some stored, some not), mapped sequences,
    and argument specs built over them."""

    def __init__(self, rng, nbase=4, nmaps=1, stored_prob=0.8):
        self.rng = rng
        self.store = jugrun.fresh()
        self.tids = Interner()
        self.atoms = Interner()
        self.base = []         # (Task, result, stored?)
        for i in range(nbase):
            t = Task(src, i)
            res = gen_result(rng, 3)
            stored = rng.random() < stored_prob
            if stored:
                self.store.dump(res, t.hash())
            self.base.append((t, res, stored))
            self.tids(t.hash())
        self.reads = set()
        self.maps = []         # (block_access, inputs, bs, [block tasks], stored?)
        for k in range(nmaps):
            n = rng.randint(0, 7)
            bs = rng.choice([2, 3, 4])
            xs = [10 * k + j for j in range(n)]
            m = jug.mapreduce.map(pair, xs, map_step=bs)
            stored = rng.random() < stored_prob
            for b in m.blocks:
                self.tids(b.hash())
                if stored:
                    self.store.dump([pair(x) for x in b.args[1]], b.hash())
            self.maps.append((m, xs, bs, list(m.blocks), stored))

    # ---- the store as the model sees it
    def st_literal(self):
        """association list tid -> val of the stored results"""
        items = []
        for t, res, stored in self.base:
            if stored:
                items.append('(%d%%positive, %s)' % (self.tids(t.hash()), enc_val(res, self.tids, self.atoms)))
        for m, xs, bs, blocks, stored in self.maps:
            if stored:
                for b in blocks:
                    items.append('(%d%%positive, %s)' % (self.tids(b.hash()), enc_val([pair(x) for x in b.args[1]], self.tids, self.atoms)))
        return listlit(items)

    # ---- independent reference evaluation: plain Python over the chosen results
    class Missing(Exception):
        pass

    def result_of(self, t):
        """the result chosen for task t (base or block), recording the read; raises Missing when not stored"""
        h = t.hash()
        self.reads.add(h)
        for bt, res, stored in self.base:
            if bt.hash() == h:
                if not stored:
                    raise World.Missing()
                return res
        for m, xs, bs, blocks, stored in self.maps:
            for b in blocks:
                if b.hash() == h:
                    if not stored:
                        raise World.Missing()
                    return [pair(x) for x in b.args[1]]
        raise KeyError(h)

    # ---- argument specs -> (python object, arg literal, reference thunk)
    def gen_arg(self, depth=3):
        rng = self.rng
        r = rng.random()
        if depth <= 0 or r < 0.12:
            v = gen_result(rng, 1)
            return v, '(AVal %s)' % enc_val(v, self.tids, self.atoms), (lambda: v)
        if r < 0.30:
            return self.gen_task()
        if r < 0.40:
            xs = [self.gen_arg(depth - 1) for _ in range(rng.randint(0, 3))]
            return [o for o, _, _ in xs], '(AList %s)' % listlit([l for _, l, _ in xs]), (lambda: [e() for _, _, e in xs])
        if r < 0.47:
            xs = [self.gen_arg(depth - 1) for _ in range(rng.randint(0, 3))]
            return tuple(o for o, _, _ in xs), '(ATuple %s)' % listlit([l for _, l, _ in xs]), (lambda: tuple(e() for _, _, e in xs))
        if r < 0.55:
            keys = rng.sample(['a', 'b', 'c', 0, 1], rng.randint(0, 3))
            kvs = [(k, self.gen_arg(depth - 1)) for k in keys]
            return ({k: o for k, (o, _, _) in kvs},
                    '(ADict %s)' % listlit(['(%s, %s)' % (key_lit(k, self.atoms), l) for k, (_, l, _) in kvs]),
                    (lambda: {k: e() for k, (_, _, e) in kvs}))
        if r < 0.75:
            return self.gen_tasklet(depth)
        if r < 0.83 and self.maps:
            return self.gen_mapped()
        if r < 0.88:
            o, l, e = self.gen_arg(depth - 1)
            return jug.utils.CustomHash(o, lambda _o: b'custom-digest'), '(ACustom %s)' % l, e
        if r < 0.92:
            if rng.random() < 0.5:
                t, _, _ = self.gen_task()
                return jug.unsafe.NoHash(t), '(ANoHashTask %d%%positive)' % self.tids(t.hash()), (lambda: t)
            v = gen_result(rng, 1)
            return jug.unsafe.NoHash(v), '(ANoHashVal %s)' % enc_val(v, self.tids, self.atoms), (lambda: v)
        if r < 0.96:
            ts = [self.gen_task()[0] for _ in range(rng.randint(1, 2))]
            s = frozenset(ts)
            return (s, '(AOpaque %s %s)' % (listlit(['%d%%positive' % self.tids(t.hash()) for t in s]), enc_val(s, self.tids, self.atoms)),
                    (lambda: s))
        t, l, e = self.gen_task()
        return jug.utils.identity(t), l, e          # identity(task) is the task itself

    def gen_task(self):
        t, res, stored = self.rng.choice(self.base)
        return t, '(ATask %d%%positive)' % self.tids(t.hash()), (lambda: self.result_of(t))

    def gen_index(self, depth):
        rng = self.rng
        r = rng.random()
        if r < 0.55:
            i = rng.choice([0, 1, -1, 2, 5, -4])
            return i, '(AVal %s)' % enc_val(i, self.tids, self.atoms), (lambda: i)
        if r < 0.70:
            k = rng.choice(['a', 'b', 'c'])
            return k, '(AVal %s)' % enc_val(k, self.tids, self.atoms), (lambda: k)
        if r < 0.82:
            sl = slice(rng.choice([None, 0, 1, -2]), rng.choice([None, 2, 5, -1]), rng.choice([None, 1, 2, -1]))
            return sl, '(AVal %s)' % enc_val(sl, self.tids, self.atoms), (lambda: sl)
        # a task-valued index (or a tasklet-valued one)
        if rng.random() < 0.6 or depth <= 0:
            return self.gen_task()
        return self.gen_tasklet(depth - 1)

    def gen_tasklet(self, depth):
        rng = self.rng
        if depth > 0 and rng.random() < 0.35:
            base, bl, be = self.gen_tasklet(depth - 1)
        else:
            base, bl, be = self.gen_task()
        r = rng.random()
        if r < 0.75:
            i, il, ie = self.gen_index(depth - 1)
            return base[i], '(AGetitem %s %s)' % (bl, il), (lambda: be()[ie()])
        if r < 0.87:
            return Tasklet(base, wrap), '(AFun %s FWrap)' % bl, (lambda: (be(),))
        from functools import partial
        from jug.task import _get_check
        i, n = rng.randint(0, 2), rng.randint(1, 3)

        def chk():
            rr = be()
            if len(rr) != n:
                raise ValueError
            return rr[i]
        return Tasklet(base, partial(_get_check, i=i, n=n)), '(AFun %s (FGetCheck %s %s))' % (bl, natlit(i), natlit(n)), chk

    def gen_mapped(self):
        rng = self.rng
        m, xs, bs, blocks, stored = rng.choice(self.maps)
        bl = listlit(['%d%%positive' % self.tids(b.hash()) for b in blocks])
        head = '%s %s %s' % (bl, natlit(bs), zlit(len(xs)))
        r = rng.random()

        def whole():
            out = []
            for b in blocks:
                out.extend(self.result_of(b))
            return out

        def element(p):
            return self.result_of(blocks[p // bs])[p % bs]
        n = len(xs)
        if r < 0.15 and n > 0:
            p = rng.randrange(n)
            return (m[p], '(AGetitem (ATask %d%%positive) (AVal (VInt %s)))' % (self.tids(blocks[p // bs].hash()), zlit(p % bs)),
                    (lambda: element(p)))
        if r < 0.40:
            return m, '(AMapSeq %s)' % head, whole
        rb = [None] + list(range(-n - 1, n + 2))
        sl = slice(rng.choice(rb), rng.choice(rb), rng.choice([None, 1, 2, -1, -2]))
        obj = m[sl]
        positions = list(range(n))[sl]
        if r < 0.60 and len(obj) > 0:
            k = len(obj)
            rb2 = [None] + list(range(-k - 1, k + 2))
            sl2 = slice(rng.choice(rb2), rng.choice(rb2), rng.choice([None, 1, 2, -1]))
            obj = obj[sl2]
            positions = positions[sl2]
        rlit = '{| r_start := %s; r_stop := %s; r_step := %s |}' % (zlit(obj.start), zlit(obj.stop), zlit(obj.stride))
        return obj, '(AMapSlice %s %s)' % (head, rlit), (lambda: [element(p) for p in positions])
