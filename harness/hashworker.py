"""Runs in a SEPARATE interpreter (its own PYTHONHASHSEED): realises value specs as Python
objects, computes the real jug identifier while recording every chunk fed to sha1, and emits, per
spec, the digest and a Gallina case literal (pv, observed token stream).

usage: python -m harness.hashworker <specs.json> <out.json> <variant:int> [iso|trace]

Spec language (JSON lists):
  ["leaf", "<python expr>"]                       atomic value, e.g. "None", "2**70", "'a'", "np.float32(1.5)"
  ["list", [..]] ["tuple", [..]] ["set", [..]] ["frozenset", [..]] ["dict", [[k, v], ..]]
  ["array", dtype, shape, [flat data]]            numeric ndarray (layout chosen by the variant)
  ["objarray", shape, [elem specs]]               object-dtype ndarray
  ["task", fname, [args], [[kw, v], ..]]
  ["getitem", base, idx]  ["funtasklet", base, fname]  ["lambda", base, lam_name]
  ["mapseq", fname, [input leaf exprs], step]  ["mapslice", mapseq_spec, start, stop, step]
  ["custom", "<bytes expr>", x]  ["nohash", x]  ["identity", x]  ["taskgen", fname]
  ["rawarray", descr, shape, "<hex of the C-order buffer>"]   ndarray of any (structured) dtype; descr = dtype string or
                                                  [[name, descr(, subshape)], ..] (layout chosen by the variant)
  ["perm", arrayspec, axes]                       the VIEW base.transpose(axes) of the C-contiguous array written by arrayspec
                                                  (array / rawarray): its memory image is the base's, its values are permuted
  ["longseq", "list"|"tuple", n, [exprs], [[pos, expr], ..]]   the sequence of n atoms exprs[i % len(exprs)], with the listed
                                                  positions overridden (exprs may use np and struct)
  ["twin", "a"|"b", op, arg]                      an invocation built from the generated module stage_a / stage_b (both define the SAME
                                                  names: score, tscore = TaskGenerator, join, tjoin, pair, tpair, build): op = task |
                                                  tgtask | kwtask | map | currymap | mapreduce | reduce | compound | tasklet | tgtasklet
  ["rettuple", base, i, n]                        i-th tasklet of return_tuple(n) applied to base
  ["iter", base, i, n]                            i-th element of iteratetask(base, n)
  ["sub", cls, inner]                             instance of a SUBCLASS of inner's type holding inner's content (built in the order
                                                  written, C-contiguous): cls in SUBCLASSES, e.g. "OrderedDict", "Counter",
                                                  "defaultdict_int", "MyDict", "MyDictAttr:1", "MyList", "Point", "MySet", "MyStr",
                                                  "MyInt", "MyArr", "recarray", "masked" ...  (mappings other than OrderedDict and
                                                  sets in an insertion order, arrays in a layout chosen by the variant)
"""
import hashlib
import json
import pickle
import random
import sys

import numpy as np

from . import jugrun  # noqa: F401  (puts /repo on sys.path, checks the import origin)
import jug
import jug.hash
import jug.task
import jug.mapreduce
import jug.utils
import jug.unsafe
from jug import Task, Tasklet, TaskGenerator
from jug.hash import hash_one

# ------------------------------------------------------------------ functions used in specs
def f(*a, **k):
    return 0


def g(*a, **k):
    return 1


def h(*a, **k):
    return 2


def m1(x):
    return x


# ------------------------------------------------------------------ subclasses of the types hash_update dispatches on
import collections
import enum


class MyDict(dict):
    pass


class MyDictAttr(dict):
    def __init__(self, items, tag):
        dict.__init__(self, items)
        self.tag = tag


class MyList(list):
    pass


class MyListAttr(list):
    def __init__(self, items, tag):
        list.__init__(self, items)
        self.tag = tag


class MyTuple(tuple):
    pass


Point = collections.namedtuple('Point', ['x', 'y'])
Pair = collections.namedtuple('Pair', ['y', 'x'])


class MySet(set):
    pass


class MyFrozenset(frozenset):
    pass


class MyStr(str):
    pass


class MyBytes(bytes):
    pass


class MyInt(int):
    pass


class MyFloat(float):
    pass


class Colour(enum.IntEnum):
    ZERO = 0
    ONE = 1
    TWO = 2


class MyArr(np.ndarray):
    pass


# cls -> (base kind of the inner spec, constructor from the realised inner parts)
SUBCLASSES = {
    'OrderedDict': ('dict', lambda kvs, tag: collections.OrderedDict(kvs)),
    'Counter': ('dict', lambda kvs, tag: collections.Counter(dict(kvs))),
    'defaultdict_int': ('dict', lambda kvs, tag: collections.defaultdict(int, kvs)),
    'defaultdict_list': ('dict', lambda kvs, tag: collections.defaultdict(list, kvs)),
    'defaultdict_none': ('dict', lambda kvs, tag: collections.defaultdict(None, kvs)),
    'MyDict': ('dict', lambda kvs, tag: MyDict(kvs)),
    'MyDictAttr': ('dict', lambda kvs, tag: MyDictAttr(kvs, tag)),
    'MyList': ('list', lambda xs, tag: MyList(xs)),
    'MyListAttr': ('list', lambda xs, tag: MyListAttr(xs, tag)),
    'deque': ('list', lambda xs, tag: collections.deque(xs)),          # not a subclass: pickled whole like any other object
    'MyTuple': ('tuple', lambda xs, tag: MyTuple(xs)),
    'Point': ('tuple', lambda xs, tag: Point(*xs)),
    'Pair': ('tuple', lambda xs, tag: Pair(*xs)),
    'MySet': ('set', lambda xs, tag: MySet(xs)),
    'MyFrozenset': ('frozenset', lambda xs, tag: MyFrozenset(xs)),
    'MyStr': ('leaf', lambda v, tag: MyStr(v)),
    'MyBytes': ('leaf', lambda v, tag: MyBytes(v)),
    'MyInt': ('leaf', lambda v, tag: MyInt(v)),
    'MyFloat': ('leaf', lambda v, tag: MyFloat(v)),
    'Colour': ('leaf', lambda v, tag: Colour(v)),
    'np.int64': ('leaf', lambda v, tag: np.int64(v)),
    'np.float64': ('leaf', lambda v, tag: np.float64(v)),      # a subclass of float
    'np.str_': ('leaf', lambda v, tag: np.str_(v)),            # a subclass of str
    'np.bytes_': ('leaf', lambda v, tag: np.bytes_(v)),        # a subclass of bytes
    'MyArr': ('array', lambda a, tag: a.view(MyArr)),
    'recarray': ('array', lambda a, tag: a.view(np.recarray)),
    'masked': ('array', lambda a, tag: np.ma.MaskedArray(a)),
    'masked1': ('array', lambda a, tag: np.ma.MaskedArray(a, mask=[i == 0 for i in range(a.size)])),
}


def realise_sub(spec, rng, shared):
    cls, _, tag = spec[1].partition(':')
    kind, make = SUBCLASSES[cls]
    inner = spec[2]
    if kind == 'dict':
        parts = [(realise(a, rng, shared), realise(b, rng, shared)) for a, b in inner[1]]
        if cls != 'OrderedDict':          # (an OrderedDict's order is part of its value; the others compare without it)
            rng.shuffle(parts)
    elif kind in ('list', 'tuple', 'set', 'frozenset'):
        parts = [realise(x, rng, shared) for x in inner[1]]
        if kind in ('set', 'frozenset'):
            rng.shuffle(parts)
    elif kind == 'array':
        if inner[0] == 'array':
            parts = np.array(inner[3], dtype=inner[1]).reshape(inner[2])
        else:
            parts = np.frombuffer(bytes.fromhex(inner[3]), dtype=np.dtype(np_descr(inner[1]))).reshape(inner[2]).copy()
        parts = relayout(parts, rng)
    else:
        parts = realise(inner, rng, shared)
    return make(parts, tag)


# ------------------------------------------------------------------ two modules that define the same names
TWIN_SRC = """from jug import Task, TaskGenerator


def score(x, y=0):
    return (TAG, 'score', x, y)


@TaskGenerator
def tscore(x, y=0):
    return (TAG, 'tscore', x, y)


def join(a, b):
    return (TAG, a, b)


def pair(x, y):
    return (TAG, 'pair', x, y)


@TaskGenerator
def tpair(x, y):
    return (TAG, 'tpair', x, y)


def build(k):
    return Task(score, k, y=Task(score, k + 1))
"""
TWINS = {}
GEN_OF = {}         # id(function stripped of its TaskGenerator by jug.mapreduce) -> the generator
COMPOUND = {}       # id(compound task) -> (task, name of the builder, args)


def make_twins():
    import types
    for key, name in (('a', 'stage_a'), ('b', 'stage_b')):
        mod = types.ModuleType(name)
        mod.TAG = name
        sys.modules[name] = mod
        exec(compile(TWIN_SRC, name + '.py', 'exec'), mod.__dict__, mod.__dict__)
        mod.tjoin = TaskGenerator(mod.join)
        TWINS[key] = mod
        for g in (mod.tscore, mod.tpair, mod.tjoin):
            GEN_OF[id(g.f)] = g


make_twins()


def realise_twin(spec, rng, shared):
    import jug.compound
    _, which, op, arg = spec
    m = TWINS[which]
    if op == 'task':
        return Task(m.score, arg)
    if op == 'tgtask':
        return m.tscore(arg)
    if op == 'kwtask':
        return m.tscore(1, y=arg)
    if op == 'map':
        return jug.mapreduce.map(getattr(m, arg[0]), [1, 2, 3, 4, 5], map_step=arg[1])
    if op == 'currymap':
        return jug.mapreduce.currymap(getattr(m, arg[0]), [(1, 2), (3, 4), (5, 6)], map_step=arg[1])
    if op == 'mapreduce':
        return jug.mapreduce.mapreduce(getattr(m, arg[0]), getattr(m, arg[1]), [1, 2, 3, 4, 5], map_step=arg[2], reduce_step=arg[3])
    if op == 'reduce':
        return jug.mapreduce.reduce(getattr(m, arg[0]), [1, 2, 3, 4, 5], reduce_step=arg[1])
    if op == 'compound':
        t = jug.compound.CompoundTask(m.build, arg)
        COMPOUND[id(t)] = (t, '%s.build' % m.__name__, (arg,))
        return t
    if op == 'tasklet':
        return Tasklet(Task(g, arg), m.score)
    if op == 'tgtasklet':
        return Tasklet(Task(g, arg), m.tscore)
    raise ValueError('bad twin spec %r' % (spec,))


tg_f = TaskGenerator(m1)
FUNCS = {'f': f, 'g': g, 'h': h, 'm1': m1}
LAMBDAS = {
    'la': (lambda x: x['a']),
    'lb': (lambda x: x['b']),
    'lreal': (lambda x: x.real),
    'limag': (lambda x: x.imag),
    'l1': (lambda x: x + 1),
    'l2': (lambda x: x + 2),
    'la_again': (lambda x: x['a']),
    # constants that are containers: a set display compiles to a frozenset constant, a tuple display to a tuple constant
    'lin': (lambda x: x in {'p', 'q', 'r', 's'}),
    'ltup': (lambda x: x in ('p', 1, 1.0, True, None, b'p')),
    # same byte-code, constants and names; they differ in a default argument / in a captured variable
    'ld0': (lambda x, k=0: x[k]),
    'ld1': (lambda x, k=1: x[k]),
    'lkw0': (lambda x, *, k=0: x[k]),
    'lkw1': (lambda x, *, k=1: x[k]),
    'lc0': (lambda k: (lambda x: x[k]))(0),
    'lc2': (lambda k: (lambda x: x[k]))(2),
    'lc0_again': (lambda k: (lambda x: x[k]))(0),
}

# ------------------------------------------------------------------ recording sha1
DIGESTS = {}          # hexdigest bytes -> list of chunks
PICKLED = {}          # pickle.dumps(hexdigest bytes) -> hexdigest bytes
_real_new = jug.hash.new_hash_object


class Rec:
    def __init__(self):
        self.chunks = []
        self.h = hashlib.sha1()

    def update(self, b):
        b = bytes(b)
        self.chunks.append(b)
        self.h.update(b)

    def hexdigest(self):
        d = self.h.hexdigest()
        db = d.encode('utf-8')
        DIGESTS[db] = list(self.chunks)
        PICKLED[pickle.dumps(db)] = db
        return d


def install_recorder():
    jug.hash.new_hash_object = Rec
    jug.task.new_hash_object = Rec


def uninstall_recorder():
    jug.hash.new_hash_object = _real_new
    jug.task.new_hash_object = _real_new


# ------------------------------------------------------------------ interning of byte chunks
FIXED = {
    b"<class 'list'>": 1, b"<class 'tuple'>": 2, b'set': 3, b'frozenset': 4, b'dict': 5,
    b'np.ndarray': 6, b'Tasklet': 7, b'nohash': 8,
    pickle.dumps('hash1'): 11, pickle.dumps('name'): 12, pickle.dumps('args'): 13,
    pickle.dumps('kwargs'): 14, pickle.dumps('base'): 15, pickle.dumps('f'): 16,
    pickle.dumps('jug.task._getitem'): 17, pickle.dumps('<lambda>'): 18,
}
INT_PICKLES = {pickle.dumps(i): 1000 + i for i in range(0, 2000)}
DYN = {}
DYN_REV = []


def intern(b):
    b = bytes(b)
    if b in FIXED:
        return FIXED[b]
    if b in INT_PICKLES:
        return INT_PICKLES[b]
    if b not in DYN:
        DYN[b] = 5000 + len(DYN_REV)
        DYN_REV.append(b)
    return DYN[b]


def toks(chunks):
    out = []
    for c in chunks:
        if c in DIGESTS:
            out.append('TDigest %s' % toks(DIGESTS[c]))
        elif c in PICKLED:
            out.append('TPDigest %s' % toks(DIGESTS[PICKLED[c]]))
        else:
            out.append('TB %d' % intern(c))
    return '[' + '; '.join(out) + ']'


# ------------------------------------------------------------------ realisation of specs
def np_descr(d):
    """JSON dtype descriptor -> numpy descriptor (field lists become lists of tuples)"""
    if isinstance(d, str):
        return d
    out = []
    for f in d:
        out.append((f[0], np_descr(f[1])) + ((tuple(f[2]),) if len(f) > 2 else ()))
    return out


def relayout(a, rng):
    """same values, another memory layout (C / Fortran / strided view / view at an offset)"""
    lay = rng.choice(['C', 'F', 'strided', 'offset', 'C'])
    if lay == 'F' and a.ndim >= 2:
        a = np.asfortranarray(a)
    elif lay == 'strided' and a.ndim >= 1 and a.size > 0:
        big = np.zeros(tuple(2 * s for s in a.shape), dtype=a.dtype)
        view = big[tuple(slice(None, None, 2) for _ in a.shape)]
        view[...] = a
        a = view
    elif lay == 'offset' and a.ndim >= 1:
        big = np.zeros((a.size + 3,), dtype=a.dtype)
        big[3:] = a.ravel()
        a = big[3:].reshape(a.shape)
    return a


def realise(spec, rng, shared):
    k = spec[0]
    if k == 'leaf':
        return eval(spec[1], {'np': np})
    if k in ('list', 'tuple'):
        xs = [realise(s, rng, shared) for s in spec[1]]
        return xs if k == 'list' else tuple(xs)
    if k in ('set', 'frozenset'):
        xs = [realise(s, rng, shared) for s in spec[1]]
        rng.shuffle(xs)
        s = set()
        for x in xs:
            s.add(x)
        return s if k == 'set' else frozenset(s)
    if k == 'dict':
        kvs = [(realise(a, rng, shared), realise(b, rng, shared)) for a, b in spec[1]]
        rng.shuffle(kvs)
        d = {}
        for a, b in kvs:
            d[a] = b
        return d
    if k == 'array':
        _, dtype, shape, data = spec
        return relayout(np.array(data, dtype=dtype).reshape(shape), rng)
    if k == 'rawarray':
        _, descr, shape, hx = spec
        a = np.frombuffer(bytes.fromhex(hx), dtype=np.dtype(np_descr(descr))).reshape(shape).copy()
        return relayout(a, rng)
    if k == 'perm':
        inner = spec[1]
        if inner[0] == 'array':
            a = np.array(inner[3], dtype=inner[1]).reshape(inner[2])
        else:
            a = np.frombuffer(bytes.fromhex(inner[3]), dtype=np.dtype(np_descr(inner[1]))).reshape(inner[2]).copy()
        return np.ascontiguousarray(a).transpose(spec[2])
    if k == 'longseq':
        import struct
        env = {'np': np, 'struct': struct}
        _, kind, n, base, over = spec
        vals = [eval(e, env) for e in base]
        xs = [vals[i % len(vals)] for i in range(n)]
        for pos, e in over:
            xs[pos] = eval(e, env)
        return xs if kind == 'list' else tuple(xs)
    if k == 'objarray':
        _, shape, elems = spec
        a = np.empty(len(elems), dtype=object)
        for i, e in enumerate(elems):
            a[i] = realise(e, rng, shared)
        a = a.reshape(shape)
        if rng.random() < 0.5 and a.ndim >= 2:
            a = np.asfortranarray(a)
        return a
    if k == 'task':
        key = json.dumps(spec)
        if key in shared and rng.random() < 0.5:
            return shared[key]
        _, fname, args, kwargs = spec
        t = Task(FUNCS[fname], *[realise(a, rng, shared) for a in args],
                 **dict((kw, realise(v, rng, shared)) for kw, v in kwargs))
        shared[key] = t
        return t
    if k == 'getitem':
        return realise(spec[1], rng, shared)[realise(spec[2], rng, shared)]
    if k == 'funtasklet':
        return Tasklet(realise(spec[1], rng, shared), FUNCS[spec[2]])
    if k == 'lambda':
        return Tasklet(realise(spec[1], rng, shared), LAMBDAS[spec[2]])
    if k == 'sub':
        return realise_sub(spec, rng, shared)
    if k == 'twin':
        return realise_twin(spec, rng, shared)
    if k == 'rettuple':
        base = realise(spec[1], rng, shared)
        return jug.task.return_tuple(spec[3])(lambda: base)()[spec[2]]
    if k == 'iter':
        return jug.iteratetask(realise(spec[1], rng, shared), spec[3])[spec[2]]
    if k == 'mapseq':
        _, fname, inputs, step = spec
        return jug.mapreduce.map(FUNCS[fname], [eval(e, {'np': np}) for e in inputs], map_step=step)
    if k == 'mapslice':
        return realise(spec[1], rng, shared)[slice(spec[2], spec[3], spec[4])]
    if k == 'custom':
        digest = eval(spec[1])
        return jug.utils.CustomHash(realise(spec[2], rng, shared), lambda _o, d=digest: d)
    if k == 'nohash':
        return jug.unsafe.NoHash(realise(spec[1], rng, shared))
    if k == 'identity':
        return jug.utils.identity(realise(spec[1], rng, shared))
    if k == 'taskgen':
        return tg_f
    raise ValueError('bad spec %r' % (spec,))


# ------------------------------------------------------------------ object -> pv literal (independent structural reading)
def code_key(code):
    return (code.co_code, tuple(code_key(c) if hasattr(c, 'co_code') else c for c in code.co_consts), code.co_names)


def lambda_key(fn):
    """what identifies a lambda operation: its code key, plus - when it has any - its default arguments,
    keyword-only defaults and the values it captured (same code with another environment is another operation)"""
    cells = []
    for c in (fn.__closure__ or ()):
        try:
            cells.append(c.cell_contents)
        except ValueError:
            cells.append(None)
    env = (fn.__defaults__, fn.__kwdefaults__, tuple(cells))
    if env == (None, None, ()):
        return ('<lambda>', code_key(fn.__code__))
    return ('<lambda>', code_key(fn.__code__), env)


WHOLE_BASES = (set, frozenset, dict, np.ndarray)
SUBLEAVES = set()       # pickles of the leaves met by to_pv that are instances of a PROPER subclass of set / frozenset / dict / ndarray


def leaf(o):
    b = pickle.dumps(o)
    if isinstance(o, WHOLE_BASES) and type(o) not in WHOLE_BASES:
        SUBLEAVES.add(b)
    return '(Leaf %d)' % intern(b)


def plist(xs):
    return '[' + '; '.join(xs) + ']'


OBJ_DTYPES = set()      # interned ids of the dtypes with dtype.hasobject seen so far


def to_pv(o):
    """Structural reading of a realised object; set/dict children are listed in ascending order of the
    REAL digest of hash_one(child) (the model's executable stream emits children in the order given)."""
    if isinstance(o, Task):
        if '__jug_hash__' in o.__dict__ and o.f.__name__ == 'compound_task_execute':
            if id(o) in COMPOUND and COMPOUND[id(o)][0] is o:
                # CompoundTask(build, *args) is identified as Task(build, *args)
                _, name, args = COMPOUND[id(o)]
                return '(mkTask %d %s [])' % (intern(pickle.dumps(name.encode('utf-8'))), plist([to_pv(a) for a in args]))
            raise ValueError('unsupported: compound task (identifier is set by CompoundTask)')
        kw = sorted(o.kwargs.items(), key=lambda kv: hash_one(kv[0]))
        return '(mkTask %d %s %s)' % (intern(pickle.dumps(o.name.encode('utf-8'))), plist([to_pv(a) for a in o.args]),
                                     plist(['(%d, %s)' % (intern(pickle.dumps(k)), to_pv(v)) for k, v in kw]))
    if isinstance(o, Tasklet):
        fn = o.f
        if isinstance(fn, jug.task._getitem):
            fpv = '(mkGetitem %s)' % to_pv(fn.slice)
        elif getattr(fn, '__name__', '') == '<lambda>':
            fpv = '(PSeq KTuple [Leaf S_lambda; %s])' % '; '.join(to_pv(x) for x in lambda_key(fn)[1:])
        else:
            fpv = leaf(fn)
        return '(mkTasklet %s %s)' % (to_pv(o.base), fpv)
    if isinstance(o, jug.mapreduce.block_access):
        return '(mkHashOne %s)' % to_pv({'type': 'map-access', 'len': o.len, 'blocks': o.blocks, 'block_size': o.block_size})
    if isinstance(o, jug.mapreduce.block_access_slice):
        return '(mkHashOne %s)' % to_pv({'type': 'map-access-slice', 'base': o.base, 'start': o.start, 'stop': o.stop, 'stride': o.stride})
    if isinstance(o, jug.utils.CustomHash):
        return '(RawB %d)' % intern(o.hash_function(o.obj))
    if isinstance(o, jug.unsafe.NoHash):
        return '(RawB 8)'
    if type(o) in (list, tuple):
        return '(PSeq %s %s)' % ('KList' if type(o) == list else 'KTuple', plist([to_pv(x) for x in o]))
    if type(o) in (set, frozenset):
        xs = sorted(o, key=hash_one)
        return '(PSet %s %s)' % ('KSet' if type(o) == set else 'KFrozen', plist([to_pv(x) for x in xs]))
    if type(o) == dict:
        kvs = sorted(o.items(), key=lambda kv: hash_one(kv[0]))
        return '(PDict %s)' % plist(['(%s, %s)' % (to_pv(k), to_pv(v)) for k, v in kvs])
    if type(o) == np.ndarray:
        d, s = intern(pickle.dumps(o.dtype)), intern(pickle.dumps(o.shape))
        lay = 0 if o.flags['C_CONTIGUOUS'] else (1 if o.flags['F_CONTIGUOUS'] else 2)
        if o.dtype.hasobject:
            OBJ_DTYPES.add(d)
            return '(PObjArr %d %d %s %d%%nat)' % (d, s, plist([to_pv(x) for x in o.ravel().tolist()]), lay)
        return '(PArr %d %d %d %d%%nat)' % (d, s, intern(np.ascontiguousarray(o).tobytes()), lay)
    if id(o) in GEN_OF and GEN_OF[id(o)].f is o and '__jug_hash__' in getattr(o, '__dict__', {}):
        # a function stripped of its TaskGenerator by jug.mapreduce._get_function is identified as hash_one(the generator)
        return '(mkHashOne %s)' % leaf(GEN_OF[id(o)])
    if hasattr(o, '__jug_hash__'):
        raise ValueError('unsupported object with __jug_hash__: %r' % (o,))
    return leaf(o)


def count_nodes(spec):
    n = 1
    for x in spec[1:]:
        if isinstance(x, list):
            if x and isinstance(x[0], str) and x[0] in ('leaf', 'list', 'tuple', 'set', 'frozenset', 'dict', 'array', 'objarray', 'task',
                                                         'getitem', 'funtasklet', 'lambda', 'mapseq', 'mapslice', 'custom', 'nohash', 'identity', 'taskgen'):
                n += count_nodes(x)
            else:
                for y in x:
                    if isinstance(y, list):
                        if y and isinstance(y[0], str):
                            n += count_nodes(y)
                        else:
                            for z in y:
                                if isinstance(z, list) and z and isinstance(z[0], str):
                                    n += count_nodes(z)
    return n


def ident(obj):
    if isinstance(obj, Task):
        d = obj.hash()
    elif isinstance(obj, Tasklet):
        d = obj.__jug_hash__()
    else:
        d = hash_one(obj)
    return d.decode() if isinstance(d, bytes) else str(d)


def isolated(specs, variant):
    """mode 'iso': this process never hashes anything; every spec is hashed in a forked child, i.e. in an interpreter
    that has computed no identifier before.  ["seq", [s1, .., sn]] hashes s1..sn in this order in ONE child and
    reports the identifier of sn."""
    import os
    out = []
    for idx, spec in enumerate(specs):
        r, w = os.pipe()
        pid = os.fork()
        if pid == 0:
            rec = {'i': idx}
            try:
                os.close(r)
                seq = spec[1] if spec[0] == 'seq' else [spec]
                for k, sp in enumerate(seq):
                    jugrun.fresh()
                    rec['digest'] = ident(realise(sp, random.Random(variant * 1000003 + idx + 31 * k), {}))
            except BaseException as e:
                rec.pop('digest', None)
                rec['error'] = '%s: %s' % (type(e).__name__, e)
            try:
                os.write(w, json.dumps(rec).encode())
            finally:
                os._exit(0)
        os.close(w)
        data = b''
        while True:
            b = os.read(r, 65536)
            if not b:
                break
            data += b
        os.close(r)
        os.waitpid(pid, 0)
        out.append(json.loads(data.decode()) if data else {'i': idx, 'error': 'child died'})
    return out


def vkey(o):
    """the VALUE of a realised object, independent of iteration / insertion order of sets and mappings (an OrderedDict excepted),
    of array layout and of object identity; exact types kept.  Two realisations with equal vkey are the same argument value."""
    t = type(o)
    tn = t.__module__ + '.' + t.__qualname__
    if isinstance(o, Task):
        return ['Task', o.name, [vkey(a) for a in o.args], sorted([[k, vkey(v)] for k, v in o.kwargs.items()])]
    if isinstance(o, Tasklet):
        fn = o.f
        if isinstance(fn, jug.task._getitem):
            fk = ['getitem', vkey(fn.slice)]
        elif getattr(fn, '__name__', '') == '<lambda>':
            fk = ['lambda', vkey(lambda_key(fn))]
        else:
            fk = ['f', pickle.dumps(fn).hex()]
        return ['Tasklet', vkey(o.base), fk]
    if isinstance(o, jug.utils.CustomHash):
        return ['CustomHash', bytes(o.hash_function(o.obj)).hex()]
    if isinstance(o, jug.unsafe.NoHash):
        return ['NoHash']
    if isinstance(o, (jug.mapreduce.block_access, jug.mapreduce.block_access_slice)):
        return [tn, sorted([[k, vkey(v)] for k, v in vars(o).items()])]
    attrs = sorted([[k, vkey(v)] for k, v in getattr(o, '__dict__', {}).items()]) if isinstance(o, (list, tuple, set, frozenset, dict)) else []
    if isinstance(o, collections.OrderedDict):
        return [tn, [[vkey(k), vkey(v)] for k, v in o.items()], attrs]
    if isinstance(o, dict):
        extra = [repr(o.default_factory)] if isinstance(o, collections.defaultdict) else []
        return [tn, sorted([[vkey(k), vkey(v)] for k, v in o.items()], key=json.dumps), attrs + extra]
    if isinstance(o, (set, frozenset)):
        return [tn, sorted([vkey(x) for x in o], key=json.dumps), attrs]
    if isinstance(o, (list, tuple, collections.deque)):
        return [tn, [vkey(x) for x in o], attrs]
    if isinstance(o, np.ndarray):
        base = np.asarray(o)
        k = [tn, pickle.dumps(base.dtype).hex(), list(base.shape)]
        if base.dtype.hasobject:
            k.append([vkey(x) for x in base.ravel().tolist()])
        else:
            k.append(np.ascontiguousarray(base).tobytes().hex())
        if isinstance(o, np.ma.MaskedArray):
            k.append(np.ascontiguousarray(np.ma.getmaskarray(o)).tobytes().hex())
        return k
    return [tn, pickle.dumps(o).hex()]


def chunk_tree(chunks):
    """the recorded chunk sequence as a tree: ['D'|'P', subtree] for a nested digest / pickled digest, ['B', sha1 of the chunk,
    is it the pickle of a proper-subclass leaf]"""
    out = []
    for c in chunks:
        if c in DIGESTS:
            out.append(['D', chunk_tree(DIGESTS[c])])
        elif c in PICKLED:
            out.append(['P', chunk_tree(DIGESTS[PICKLED[c]])])
        else:
            out.append(['B', hashlib.sha1(c).hexdigest()[:20], 1 if c in SUBLEAVES else 0])
    return out


def traced(items, variant):
    """mode 'trace' (items = [[idx, spec], ..]): the two realisations the normal mode makes of spec idx, each hashed cold with the
    recording hash object: identifier, chunk tree, value key"""
    out = []
    for idx, spec in items:
        rec = {'i': idx, 'traces': []}
        try:
            for which, seed in (('first', variant * 1000003 + idx), ('second', variant * 7919 + idx + 17)):
                jugrun.fresh()
                DIGESTS.clear()
                PICKLED.clear()
                SUBLEAVES.clear()
                obj = realise(spec, random.Random(seed), {})
                install_recorder()
                try:
                    d = hash_one(obj)
                    top = ident(obj)
                finally:
                    uninstall_recorder()
                chunks = list(DIGESTS[d])
                to_pv(obj)                  # registers the pickles of the proper-subclass leaves of THIS object
                rec['traces'].append({'which': which, 'digest': top, 'hash_one': d.decode(), 'tree': chunk_tree(chunks), 'vkey': vkey(obj)})
        except Exception as e:
            uninstall_recorder()
            rec['error'] = '%s: %s' % (type(e).__name__, e)
        out.append(rec)
    return out


def main():
    specs = json.load(open(sys.argv[1]))
    variant = int(sys.argv[3])
    if len(sys.argv) > 4 and sys.argv[4] == 'trace':
        json.dump(traced(specs, variant), open(sys.argv[2], 'w'))
        return
    if len(sys.argv) > 4 and sys.argv[4] == 'iso':
        json.dump(isolated(specs, variant), open(sys.argv[2], 'w'))
        return
    out = []
    for idx, spec in enumerate(specs):
        rng = random.Random(variant * 1000003 + idx)
        rec = {'i': idx}
        try:
            jugrun.fresh()
            uninstall_recorder()
            obj = realise(spec, rng, {})
            # 1. the real identifier, computed twice (memoisation must not matter) with the real sha1
            if isinstance(obj, (Task, Tasklet)):
                d1 = obj.hash() if isinstance(obj, Task) else obj.__jug_hash__()
            else:
                d1 = hash_one(obj)
            d1b = hash_one(obj)
            rec['digest'] = d1.decode() if isinstance(d1, bytes) else str(d1)
            rec['hash_one'] = d1b.decode()
            # 2. a second, independent realisation in the same process, recorded chunk by chunk
            jugrun.fresh()
            DIGESTS.clear()
            PICKLED.clear()
            obj2 = realise(spec, random.Random(variant * 7919 + idx + 17), {})
            pv = to_pv(obj2)               # uses the real (unrecorded) hash_one to order set/dict children
            install_recorder()
            # objects hashed during to_pv have memoised identifiers: realise once more for a cold run
            jugrun.fresh()
            obj3 = realise(spec, random.Random(variant * 7919 + idx + 17), {})
            d3 = hash_one(obj3)
            uninstall_recorder()
            rec['hash_one_recorded'] = d3.decode()
            rec['pv'] = pv
            rec['objdt'] = sorted(OBJ_DTYPES)
            rec['case'] = '(%s, %s)' % (pv, toks(DIGESTS[d3]))
        except Exception as e:  # reported, never silently dropped
            uninstall_recorder()
            rec['error'] = '%s: %s' % (type(e).__name__, e)
        out.append(rec)
    json.dump(out, open(sys.argv[2], 'w'))


if __name__ == '__main__':
    main()
