"""C05 - a result is visible completely or not at all, under crashes and concurrent reads.

Proof: Props/C05.v over Model/Fs.v (every trace accepted by `write_protocol`, every crash point, both
crash relations, every reader interleaving; redis: dump is one SET).

Tie (trace validation): the primitive file-system traces of REAL jug.backends.file_store operations
(dump of pickled values 0 B - MBs, raw .npy and compress_numpy arrays - numeric, string, datetime dtypes
written with tofile(), and object / structured-with-object dtypes whose .npy body is a pickle written through
Python's buffered writer -, re-dump, dump of a packed key,
remove, remove_many, update_pack, resave_pack, cleanup, re-opened stores; the same with <jugdir>/tempfiles on another
filesystem, where every rename out of it fails with EXDEV: the operation must raise and no final name may be opened,
truncated, written or bound by anything but a rename; an fsync of a file failing once with EIO (Linux: the data written
before it is lost for good, a later fsync without new writes syncs nothing - rendered so in the trace and in the crash
simulator): the operation must fail or write everything again; dumps that let an EXCEPTION through in
the middle of the write - values whose pickling raises after part of the output was produced, a KeyboardInterrupt
injected at a primitive boundary - on new keys and on keys that hold a result: dump() must raise, no final name
may change, the trace must still be accepted) are recorded by the os-level
interposer (harness/c05_fsx.py), rendered as `list fsop` and coqc evaluates
  * `write_protocol fin complete trace = true`  (fin = every name outside tempfiles/ and locks/;
    complete = byte strings that decode STRICTLY - whole zlib stream, whole pickle / npy - to a value
    that was dumped, resp. to a pack dictionary of such values; decided by the harness without jug),
  * the model's volatile view after every API operation = the real directory listing + content ids,
  * the model's power-loss bindings / durable contents = those of the operational crash simulator
    that the search below uses (so the searched crash relation is the proved one).
Search (independent of Coq): for every API operation, at every primitive boundary (and inside the data
write): process-kill image and power-loss images (lossy subsets of the directory operations since the
last fsync of their directory, un-fsynced data replaced by truncations / garbage) are materialised,
a FRESH file_store is opened on them and `can_load(k) -> load(k) in {old, new}`, other keys unchanged,
residue only under tempfiles/ (and locks/) is required, and the residue must be harmless: after lock cleanup
the fresh store dumps the interrupted key and another key again, reads them back, packs, removes them, without
an exception and without waiting for a lock (once per distinct set of names left behind); the same oracle runs as a concurrent reader at
every primitive of the live write (fresh reader now + a reader that opened the files then and reads
after the write finished, via hard links).  Redis: command trace of redis_store.dump on the
command-atomic fake server.
Bystander section: at the instant a dump's temporary file is complete and about to be renamed into place, a second process
(a fresh store object) performs one complete operation on other keys; the dump must finish normally and a fresh process must
see both effects and nothing else (`bystander_section`; search on the real code, kind impl-violation).
"""
import base64
import contextlib
import errno
import gc
import hashlib
import io
import os
import pickle
import random
import shutil
import zlib

import numpy as np

from . import core
from .core import boollit, listlit
from . import jugrun
from . import fakeredis
from . import c05_fsx as fsx
from jug.backends.file_store import file_store
from jug.backends import redis_store as redis_mod

EVIDENCE = dict(
    level='proof',
    rule='one Coq case = the whole primitive trace of one scenario (8-20 real file_store API operations on one jugdir) '
         'with a checkpoint per operation; non-trivial/distinct = distinct shape (sequence of primitive kinds with '
         'final/non-final flags) of one API operation\'s trace; evaluations = Coq cases + distinct crash images and '
         'reader points on which the oracle ran against a fresh real file_store (details in `distribution`)',
    explanation='Coq theorems over all accepted traces, crash points, crash relations and reader interleavings '
                '(Model/Fs.v) + trace validation of real file_store runs against write_protocol + exhaustive/sampled '
                'fault enumeration on the real code with a fresh file_store as observer',
)

IMPORTS = 'From JugV Require Import Model.Fs.'
NONFINAL_DIRS = ('tempfiles', 'locks')
REDIS_URL = 'redis://localhost/'


# ============================================================================ values
class InjectedInterrupt(KeyboardInterrupt):
    """a signal delivered to the writer at a primitive boundary (raised by the interposer hook)"""


EXC = {'ValueError': ValueError, 'OSError': OSError, 'TypeError': TypeError, 'KeyboardInterrupt': KeyboardInterrupt, 'SystemExit': SystemExit,
       'MemoryError': MemoryError, 'RecursionError': RecursionError, 'PicklingError': pickle.PicklingError}


class Bomb:
    """an object whose pickling raises: always (times=None) or only the first `times` times (a transient failure);
    when it does not raise it pickles as the integer 7"""

    def __init__(self, exc, times=None):
        self.exc = exc
        self.times = times
        self.calls = 0

    def __reduce__(self):
        self.calls += 1
        if self.times is None or self.calls <= self.times:
            raise EXC[self.exc]('injected while pickling')
        return (int, (7,))


def expected_failure(valspec):
    """the exception classes dump() must let through for this value, or None when it can be stored"""
    if valspec[0] != 'failing':
        return None
    if valspec[4] == 'unpicklable':
        return (pickle.PicklingError, AttributeError, TypeError)
    return (EXC[valspec[4]],)


def mkvalue(spec, resolved=False):
    """resolved: the value as it reads back when a transiently failing element finally pickled (as 7)"""
    spec = list(spec)
    t = spec[0]
    if t == 'failing':
        # ['failing', seed, nchunks, chunk, exc, where, times]: `nchunks` incompressible byte strings of `chunk` bytes
        # (output that reaches the stream / the file BEFORE the failure) followed by an element whose pickling raises
        seed, nchunks, chunk, exc, where = spec[1:6]
        times = spec[6] if len(spec) > 6 else None
        r = random.Random(seed)
        head = [r.randbytes(chunk) for _ in range(nchunks)]
        last = 7 if resolved else ((lambda: 0) if exc == 'unpicklable' else Bomb(exc, times))
        if where == 'list':
            return head + ['tail', last]
        if where == 'dict':
            return {'head': head, 'z': last}
        a = np.empty(len(head) + 1, dtype=object)        # 'oarr': the raw .npy branch (its body is a pickle)
        for i, x in enumerate(head):
            a[i] = x
        a[len(head)] = last
        return a
    if t == 'none':
        return None
    if t == 'int':
        return spec[1]
    if t == 'bytes':
        return random.Random(spec[1]).randbytes(spec[2])
    if t == 'zeros':
        return b'\0' * spec[1]
    if t == 'str':
        r = random.Random(spec[1])
        return ''.join(r.choice('abcdefgh ') for _ in range(spec[2]))
    if t == 'nested':
        r = random.Random(spec[1])
        return {'xs': [r.randrange(1000) for _ in range(spec[2])], 't': (r.randrange(10 ** 6), 'k%d' % r.randrange(9)),
                'l': [[i, str(i)] for i in range(spec[2] % 7)]}
    if t == 'arr':
        dtype, shape, seed, order = spec[1], tuple(spec[2]), spec[3], spec[4]
        n = 1
        for d in shape:
            n *= d
        a = np.random.RandomState(seed).randint(0, 120, size=n).astype(dtype).reshape(shape)
        if order == 'F':
            a = np.asfortranarray(a)
        return a
    if t == 'oarr':
        # object dtype: np.lib.format.write_array pickles the array into the (buffered) file object
        seed, shape, blob, order = spec[1], tuple(spec[2]), spec[3], spec[4]
        n = 1
        for d in shape:
            n *= d
        a = np.empty(n, dtype=object)
        for i, x in enumerate(_objects(random.Random(seed), n, blob)):
            a[i] = x
        a = a.reshape(shape)
        if order == 'F':
            a = np.asfortranarray(a)
        return a
    if t == 'sarr':
        # structured dtype with an object field: pickled like an object array
        seed, n, blob = spec[1], spec[2], spec[3]
        a = np.zeros(n, dtype=[('o', 'O'), ('i', '<i4'), ('f', '<f8')])
        for i, x in enumerate(_objects(random.Random(seed), n, blob)):
            a['o'][i] = x
            a['i'][i] = i - 2
            a['f'][i] = i / 4.0
        return a
    raise ValueError(spec)


def _objects(r, n, blob):
    out = []
    for _ in range(n):
        c = r.randrange(7)
        out.append([r.randrange(-9, 10 ** 6), r.randrange(1000) / 8.0, 'k%d' % r.randrange(100), None, (r.randrange(5), 'x'),
                    [r.randrange(3)] * r.randrange(4), r.randbytes(blob)][c])
    return out


def deep_same(x, y):
    if type(x) != type(y):
        return False
    if isinstance(x, (list, tuple)):
        return len(x) == len(y) and all(deep_same(p, q) for p, q in zip(x, y))
    return x == y


def same(a, b):
    if isinstance(a, np.ndarray) or isinstance(b, np.ndarray):
        if not (isinstance(a, np.ndarray) and isinstance(b, np.ndarray) and type(a) == type(b) and a.dtype == b.dtype
                and a.shape == b.shape):
            return False
        if a.dtype.hasobject:             # the buffer holds pointers: compare the elements
            return deep_same(a.tolist(), b.tolist())
        return a.tobytes() == b.tobytes()
    return type(a) == type(b) and a == b


def describe(v):
    if isinstance(v, np.ndarray):
        body = repr(v.tolist()).encode('utf-8', 'replace') if v.dtype.hasobject else v.tobytes()
        return 'ndarray(%s,%s,sha1=%s)' % (v.dtype, list(v.shape), hashlib.sha1(body).hexdigest()[:10])
    r = repr(v)
    if len(r) > 60:
        return '%s(len(repr)=%d,sha1=%s)' % (type(v).__name__, len(r), hashlib.sha1(r.encode()).hexdigest()[:10])
    return r


def decode_strict(b):
    """(ok, value): b is, byte for byte, the encoding of exactly one value - independent of jug's decoder:
    empty = None; raw .npy; or one complete zlib stream holding 'P'+one pickle or 'N'+one .npy, nothing after.
    (.npy of an object dtype = header + one pickle: allow_pickle, and the pickle must end where the bytes end.)"""
    if b == b'':
        return True, None
    try:
        if b[:6] == b'\x93NUMPY':
            f = io.BytesIO(b)
            a = np.lib.format.read_array(f, allow_pickle=True)
            return f.tell() == len(b), a
        d = zlib.decompressobj()
        raw = d.decompress(b)
        if not d.eof or d.unused_data:
            return False, None
        f = io.BytesIO(raw[1:])
        if raw[:1] == b'P':
            v = pickle.Unpickler(f).load()
        elif raw[:1] == b'N':
            v = np.load(f, allow_pickle=True)
        else:
            return False, None
        return f.tell() == len(raw) - 1, v
    except Exception:
        return False, None


def hx(k):
    return k.decode('ascii') if isinstance(k, bytes) else str(k)


def bx(k):
    return k.encode('ascii') if isinstance(k, str) else k


def fname_of(k):
    k = hx(k)
    return k[:2] + '/' + k[2:]


class HashObj:
    def __init__(self, h):
        self.h = h

    def hash(self):
        return self.h


# ============================================================================ scenarios
def new_key(rng):
    k = '%040x' % rng.getrandbits(160)
    if rng.random() < 0.4:
        k = rng.choice(['ab', 'cd']) + k[2:]
    return k


def gen_valspec(rng, big):
    r = rng.random()
    if r < 0.04:
        return ['none']
    if r < 0.14:
        return ['int', rng.randrange(-5, 10 ** 9)]
    if r < 0.34:
        return ['bytes', rng.randrange(10 ** 6), rng.choice([0, 1, 30, 200, 430, 470, 500, 520, 600, 3000, 70000])]
    if r < 0.40:
        return ['zeros', rng.choice([10, 5000, 300000])]
    if r < 0.48:
        return ['str', rng.randrange(10 ** 6), rng.choice([0, 5, 300, 9000])]
    if r < 0.60:
        return ['nested', rng.randrange(10 ** 6), rng.choice([0, 3, 40, 900])]
    if r < 0.64 and big:
        return ['bytes', rng.randrange(10 ** 6), rng.choice([1 << 20, 3 << 20])]
    if r < 0.76:
        # .npy bodies that are a pickle (object dtype / structured with an object field); with blob = 3000 the
        # image exceeds the 8 KB buffer of the file object, otherwise all of it is still buffered after write_array
        if rng.random() < 0.25:
            return ['sarr', rng.randrange(10 ** 6), rng.choice([0, 1, 4, 12]), rng.choice([5, 5, 3000])]
        return ['oarr', rng.randrange(10 ** 6), rng.choice([[0], [1], [6], [40], [3, 4], [2, 0], []]), rng.choice([5, 5, 5, 3000]),
                rng.choice(['C', 'C', 'F'])]
    dtype = rng.choice(['float64', 'int32', 'uint8', 'bool', 'float32', 'int64', 'complex128', 'U4', 'S3', 'M8[s]', '>i2'])
    shape = rng.choice([[0], [1], [7], [60], [4, 5], [3, 0, 2], [200, 10], [9, 9, 9], []])
    if big and rng.random() < 0.15:
        shape = [512, 600]
    return ['arr', dtype, shape, rng.randrange(10 ** 6), rng.choice(['C', 'C', 'F'])]


def gen_scenario(rng, nops, big=False):
    keys = [new_key(rng) for _ in range(rng.randint(3, 6))]
    ops = []
    have = set()
    compress = rng.random() < 0.4
    for _ in range(nops):
        r = rng.random()
        if r < 0.07 and ops:
            # an exception passes through dump(): the value cannot be pickled (after part of it was written), or a
            # signal (KeyboardInterrupt) reaches the writer at a primitive boundary; on new keys and on keys with a result
            k = rng.choice(keys)
            if rng.random() < 0.5:
                val = ['failing', rng.randrange(10 ** 6), rng.choice([0, 1, 3, 8]), rng.choice([10, 3000, 40000]),
                       rng.choice(['ValueError', 'TypeError', 'KeyboardInterrupt', 'SystemExit', 'MemoryError', 'unpicklable']),
                       rng.choice(['list', 'list', 'dict', 'oarr'])]
                if rng.random() < 0.4:
                    # a TRANSIENT failure (D25): the element raises once, inside write_array() after part of the .npy
                    # image was written when the store writes raw arrays; file_store catches OSError / ValueError there
                    # and falls back to encode_to() - on a temp file that must be started again
                    val[4] = rng.choice(['ValueError', 'OSError', 'OSError', 'KeyboardInterrupt'])
                    val[5] = rng.choice(['oarr', 'oarr', 'oarr', 'list'])
                    val.append(1)
                ops.append({'op': 'dump', 'key': k, 'val': val})
            else:
                ops.append({'op': 'dump', 'key': k, 'val': gen_valspec(rng, False), 'raise_at': rng.randrange(0, 14)})
        elif r < 0.45 or not have:
            k = rng.choice(keys)
            ops.append({'op': 'dump', 'key': k, 'val': gen_valspec(rng, big)})
            have.add(k)
        elif r < 0.55:
            ops.append({'op': 'dump', 'key': rng.choice(sorted(have)), 'val': gen_valspec(rng, big)})
        elif r < 0.66:
            ops.append({'op': 'update_pack'})
        elif r < 0.73:
            k = rng.choice(keys)
            ops.append({'op': 'remove', 'key': k})
            have.discard(k)
        elif r < 0.80:
            ks = rng.sample(keys, rng.randint(1, min(3, len(keys))))
            ops.append({'op': 'remove_many', 'keys': ks})
            have.difference_update(ks)
        elif r < 0.86:
            act = [k for k in keys if rng.random() < 0.6]
            ops.append({'op': 'cleanup', 'active': act})
            have.intersection_update(act)
        elif r < 0.90:
            ops.append({'op': 'resave_pack'})
        else:
            compress = rng.random() < 0.5
            ops.append({'op': 'reopen', 'compress': compress})
    for op in ops:
        # the first (sometimes the second) fsync of a file fails once with EIO during this operation
        if op['op'] in ('dump', 'update_pack', 'resave_pack') and 'raise_at' not in op and rng.random() < 0.05 \
                and (op['op'] != 'dump' or expected_failure(op['val']) is None):
            op['fsync_eio'] = rng.choice([0, 0, 0, 1])
    if rng.random() < 0.12 and len(ops) > 5:
        # from some point on <jugdir>/tempfiles is on another filesystem: every rename out of it fails with EXDEV
        at = rng.randrange(3, len(ops) - 1)
        tail = [op for op in ops[at:] if op['op'] in ('dump', 'update_pack', 'remove', 'resave_pack', 'reopen')
                and 'raise_at' not in op and (op['op'] != 'dump' or expected_failure(op['val']) is None)]
        ops = ops[:at] + [{'op': 'exdev', 'on': True}] + tail
    return {'name': 'random', 'compress': rng.random() < 0.4, 'ops': ops}


def K(i, pre=None):
    h = hashlib.sha1(b'c05key%d' % i).hexdigest()
    return (pre + h[2:]) if pre else h


def fixed_scenarios(thorough):
    big = [1 << 20, (5 << 20) if thorough else (2 << 20)]
    sizes = [['none'], ['int', 0], ['bytes', 1, 0], ['bytes', 2, 1], ['bytes', 3, 100], ['bytes', 4, 480], ['bytes', 5, 600],
             ['bytes', 6, 5000], ['nested', 7, 2000], ['bytes', 8, 70000], ['zeros', 400000], ['bytes', 9, big[0]], ['bytes', 10, big[1]]]
    s1 = {'name': 'pickled sizes', 'compress': False,
          'ops': [{'op': 'dump', 'key': K(i), 'val': v} for i, v in enumerate(sizes)]
                 + [{'op': 'dump', 'key': K(3), 'val': ['bytes', 11, 300000]}, {'op': 'dump', 'key': K(11), 'val': ['int', 5]},
                    {'op': 'dump', 'key': K(0), 'val': ['str', 3, 50]}, {'op': 'dump', 'key': K(1), 'val': ['none']}]}
    arrs = [['arr', 'float64', [0], 1, 'C'], ['arr', 'uint8', [5], 2, 'C'], ['arr', 'float64', [40], 3, 'C'],
            ['arr', 'int32', [30, 7], 4, 'F'], ['arr', 'bool', [3, 3, 3], 5, 'C'], ['arr', 'float64', [], 6, 'C'],
            ['arr', 'float64', [300, 300], 7, 'C'], ['arr', 'int64', [700, 900] if thorough else [400, 500], 8, 'C']]
    s2 = {'name': 'numpy raw', 'compress': False,
          'ops': [{'op': 'dump', 'key': K(20 + i, 'ab' if i % 2 else None), 'val': v} for i, v in enumerate(arrs)]
                 + [{'op': 'dump', 'key': K(22, None), 'val': ['arr', 'float32', [9], 9, 'C']},
                    {'op': 'update_pack'},
                    {'op': 'dump', 'key': K(21, 'ab'), 'val': ['arr', 'uint8', [6], 10, 'C']},
                    {'op': 'remove', 'key': K(20)},
                    {'op': 'reopen', 'compress': False},
                    {'op': 'dump', 'key': K(24), 'val': ['int', 3]},
                    {'op': 'remove_many', 'keys': [K(24), K(26), K(99)]}]}
    s3 = {'name': 'numpy compressed', 'compress': True,
          'ops': [{'op': 'dump', 'key': K(40 + i), 'val': v} for i, v in enumerate(arrs[:7])]
                 + [{'op': 'dump', 'key': K(50), 'val': ['nested', 1, 10]},
                    {'op': 'dump', 'key': K(41), 'val': ['arr', 'uint8', [5, 2], 12, 'F']},
                    {'op': 'update_pack'},
                    {'op': 'dump', 'key': K(41), 'val': ['arr', 'uint8', [4], 13, 'C']},
                    {'op': 'remove_many', 'keys': [K(40), K(46)]},
                    {'op': 'cleanup', 'active': [K(41), K(42), K(43)]}]}
    s4 = {'name': 'pack centric', 'compress': False,
          'ops': [{'op': 'dump', 'key': K(60, 'cd'), 'val': ['int', 1]}, {'op': 'dump', 'key': K(61, 'cd'), 'val': ['str', 1, 20]},
                  {'op': 'dump', 'key': K(62), 'val': ['bytes', 1, 700]}, {'op': 'dump', 'key': K(63), 'val': ['nested', 2, 3]},
                  {'op': 'update_pack'},
                  {'op': 'dump', 'key': K(60, 'cd'), 'val': ['int', 2]},
                  {'op': 'dump', 'key': K(64), 'val': ['int', 64]},
                  {'op': 'update_pack'},
                  {'op': 'remove', 'key': K(61, 'cd')},
                  {'op': 'reopen', 'compress': False},
                  {'op': 'remove_many', 'keys': [K(63), K(62), K(98)]},
                  {'op': 'resave_pack'},
                  {'op': 'dump', 'key': K(65), 'val': ['bytes', 2, 40]},
                  {'op': 'dump', 'key': K(63), 'val': ['bytes', 3, 2000]},
                  {'op': 'update_pack'},
                  {'op': 'cleanup', 'active': [K(60, 'cd'), K(63)]},
                  {'op': 'update_pack'}]}
    pk = [['oarr', 1, [0], 5, 'C'], ['oarr', 2, [1], 5, 'C'], ['oarr', 3, [7], 5, 'C'], ['oarr', 4, [3, 4], 5, 'F'],
          ['oarr', 5, [], 5, 'C'], ['oarr', 6, [12], 3000, 'C'], ['sarr', 7, 5, 5], ['sarr', 8, 9, 3000],
          ['arr', 'U4', [6], 9, 'C'], ['arr', 'M8[s]', [3, 2], 10, 'C']]
    s5 = {'name': 'numpy raw, pickled body', 'compress': False,
          'ops': [{'op': 'dump', 'key': K(70 + i, 'ef' if i % 3 == 0 else None), 'val': v} for i, v in enumerate(pk)]
                 + [{'op': 'dump', 'key': K(72), 'val': ['oarr', 11, [5], 5, 'C']},
                    {'op': 'update_pack'},
                    {'op': 'dump', 'key': K(71), 'val': ['oarr', 12, [2, 2], 5, 'C']},
                    {'op': 'reopen', 'compress': True},
                    {'op': 'dump', 'key': K(73, 'ef'), 'val': ['oarr', 13, [9], 3000, 'C']},
                    {'op': 'dump', 'key': K(80), 'val': ['sarr', 14, 3, 5]},
                    {'op': 'remove_many', 'keys': [K(70, 'ef'), K(75)]},
                    {'op': 'reopen', 'compress': False},
                    {'op': 'dump', 'key': K(80), 'val': ['oarr', 15, [4], 5, 'C']}]}
    # an exception passes through dump() in the middle of the write: new keys and keys that hold a result, the pickle
    # branch, the raw .npy branch (object array) and the compressed branch, a key inside the pack; then signals at
    # every primitive boundary of a re-dump
    fails = [['failing', 1, 0, 10, 'ValueError', 'list'], ['failing', 2, 4, 40000, 'KeyboardInterrupt', 'list'],
             ['failing', 3, 2, 3000, 'MemoryError', 'dict'], ['failing', 4, 6, 40000, 'unpicklable', 'list'],
             ['failing', 5, 3, 40000, 'SystemExit', 'oarr'], ['failing', 6, 1, 10, 'TypeError', 'oarr'],
             ['failing', 7, 5, 40000, 'ValueError', 'oarr']]
    s6 = {'name': 'exception passes through dump', 'compress': False,
          'ops': [{'op': 'dump', 'key': K(90), 'val': ['bytes', 1, 300]}, {'op': 'dump', 'key': K(91, 'ab'), 'val': ['int', 91]},
                  {'op': 'dump', 'key': K(92), 'val': ['arr', 'float64', [20], 1, 'C']}, {'op': 'dump', 'key': K(93), 'val': ['bytes', 2, 20000]}]
                 + [{'op': 'dump', 'key': K(90 + (i % 4), 'ab' if i % 4 == 1 else None), 'val': v} for i, v in enumerate(fails)]
                 + [{'op': 'dump', 'key': K(95 + i), 'val': v} for i, v in enumerate(fails[1:5])]
                 + [{'op': 'update_pack'},
                    {'op': 'dump', 'key': K(91, 'ab'), 'val': fails[1]},
                    {'op': 'dump', 'key': K(90), 'val': ['int', 5], 'raise_at': 3},
                    {'op': 'reopen', 'compress': True},
                    {'op': 'dump', 'key': K(92), 'val': fails[4]},
                    {'op': 'dump', 'key': K(93), 'val': fails[3]}]
                 + [{'op': 'dump', 'key': K(93), 'val': ['bytes', 3, 9000], 'raise_at': j} for j in (0, 2, 3, 5, 6, 8, 10)]
                 + [{'op': 'reopen', 'compress': False}]
                 + [{'op': 'dump', 'key': K(92), 'val': ['arr', 'int32', [50], 2, 'C'], 'raise_at': j} for j in (1, 4, 7, 9)]
                 # D25: write_array() raises after part of the array was written and file_store falls back to encode_to():
                 # a new key, a key holding a result, a key inside the pack; then the same when it is not caught
                 + [{'op': 'dump', 'key': K(99), 'val': ['failing', 1, 2, 40000, 'ValueError', 'oarr', 1]},
                    {'op': 'dump', 'key': K(93), 'val': ['failing', 2, 3, 40000, 'OSError', 'oarr', 1]},
                    {'op': 'dump', 'key': K(89), 'val': ['failing', 3, 0, 10, 'OSError', 'oarr', 1]},
                    {'op': 'dump', 'key': K(90), 'val': ['int', 6]},
                    {'op': 'update_pack'},
                    {'op': 'dump', 'key': K(90), 'val': ['failing', 4, 1, 3000, 'ValueError', 'oarr', 1]},
                    {'op': 'dump', 'key': K(89), 'val': ['failing', 5, 2, 40000, 'KeyboardInterrupt', 'oarr', 1]},
                    {'op': 'dump', 'key': K(88), 'val': ['failing', 6, 2, 40000, 'OSError', 'list', 1]}]}
    # <jugdir>/tempfiles on another filesystem (symlink to node-local scratch, bind mount): os.rename out of it fails
    # with EXDEV.  Nothing may then touch a final name except - never - a rename: dump() raises and changes nothing
    s7 = {'name': 'tempfiles on another filesystem (EXDEV)', 'compress': False,
          'ops': [{'op': 'dump', 'key': K(110), 'val': ['bytes', 1, 300]}, {'op': 'dump', 'key': K(111, 'ab'), 'val': ['int', 1]},
                  {'op': 'dump', 'key': K(112), 'val': ['arr', 'float64', [30], 1, 'C']}, {'op': 'dump', 'key': K(113), 'val': ['bytes', 2, 30000]},
                  {'op': 'update_pack'},
                  {'op': 'exdev', 'on': True},
                  {'op': 'dump', 'key': K(113), 'val': ['bytes', 3, 70000]},            # a key holding a result (file)
                  {'op': 'dump', 'key': K(114), 'val': ['nested', 4, 300]},             # a new key
                  {'op': 'dump', 'key': K(112), 'val': ['arr', 'int32', [8], 2, 'C']},  # raw .npy branch, key inside the pack
                  {'op': 'dump', 'key': K(111, 'ab'), 'val': ['none']},                 # key inside the pack
                  {'op': 'dump', 'key': K(115), 'val': ['oarr', 5, [4], 5, 'C']},
                  {'op': 'update_pack'}, {'op': 'remove', 'key': K(113)}, {'op': 'resave_pack'},
                  {'op': 'reopen', 'compress': True},
                  {'op': 'dump', 'key': K(113), 'val': ['arr', 'uint8', [50], 6, 'C']},
                  {'op': 'exdev', 'on': False},
                  {'op': 'dump', 'key': K(113), 'val': ['int', 7]}, {'op': 'update_pack'}]}
    # an fsync of a file fails ONCE with EIO (a later fsync of the same file succeeds).  Linux reports the write-back error
    # once and marks the pages clean: what was written before the failure never reaches the disk, whatever a second
    # fsync says.  The operation must fail (or write everything again): nothing un-synced may be renamed onto a final name
    s8 = {'name': 'fsync fails once with EIO', 'compress': False,
          'ops': [{'op': 'dump', 'key': K(120), 'val': ['bytes', 1, 400]}, {'op': 'dump', 'key': K(121, 'ab'), 'val': ['int', 2]},
                  {'op': 'dump', 'key': K(122), 'val': ['bytes', 2, 20000]}, {'op': 'update_pack'},
                  {'op': 'dump', 'key': K(123), 'val': ['nested', 3, 200], 'fsync_eio': 0},                 # new key, pickle
                  {'op': 'dump', 'key': K(122), 'val': ['bytes', 4, 50000], 'fsync_eio': 0},               # key holding a result
                  {'op': 'dump', 'key': K(121, 'ab'), 'val': ['str', 5, 300], 'fsync_eio': 0},             # key inside the pack: the pack's fsync
                  {'op': 'dump', 'key': K(120), 'val': ['bytes', 6, 100], 'fsync_eio': 1},                 # key inside the pack: the file's fsync
                  {'op': 'dump', 'key': K(124), 'val': ['arr', 'float64', [40], 7, 'C'], 'fsync_eio': 0},  # raw .npy: falls back to encode_to
                  {'op': 'dump', 'key': K(125), 'val': ['oarr', 8, [5], 5, 'C'], 'fsync_eio': 1},
                  {'op': 'dump', 'key': K(126), 'val': ['int', 9]},
                  {'op': 'update_pack', 'fsync_eio': 0}, {'op': 'resave_pack', 'fsync_eio': 0},
                  {'op': 'remove', 'key': K(122), 'fsync_eio': 0},
                  {'op': 'reopen', 'compress': True},
                  {'op': 'dump', 'key': K(124), 'val': ['arr', 'int32', [9], 10, 'C'], 'fsync_eio': 0},
                  {'op': 'dump', 'key': K(126), 'val': ['int', 11]}, {'op': 'update_pack'}]}
    return [s1, s2, s3, s4, s5, s6, s7, s8]


def scenario_keys(scn):
    ks = []
    for op in scn['ops']:
        for k in ([op['key']] if 'key' in op else []) + list(op.get('keys', [])) + list(op.get('active', [])):
            if k not in ks:
                ks.append(k)
    return ks


def apply_expected(pre, op):
    """(post, targets): the key->value map after the operation (plain Python oracle), and the keys it may change"""
    post = dict(pre)
    t = op['op']
    if t == 'dump':
        if expected_failure(op['val']) is not None:
            if len(op['val']) > 6:                      # transient: it is stored if the store retries, else nothing changes
                post[op['key']] = mkvalue(op['val'], resolved=True)
            return post, {op['key']}                    # always failing: dump() raises and nothing changes
        post[op['key']] = mkvalue(op['val'])
        return post, {op['key']}
    if t == 'remove':
        post.pop(op['key'], None)
        return post, {op['key']}
    if t == 'remove_many':
        for k in op['keys']:
            post.pop(k, None)
        return post, set(op['keys'])
    if t == 'cleanup':
        gone = set(k for k in post if k not in op['active'])
        for k in gone:
            del post[k]
        return post, gone
    return post, set()


# ============================================================================ the observer (oracle on a directory)
class Ctx:
    def __init__(self, universe, pre, post, targets):
        self.universe = universe
        self.pre = pre
        self.post = post
        self.targets = targets


def check_store(d, ctx):
    """Open a FRESH file_store on directory d and apply the property's oracle.  Returns a list of
    (class, detail) problems."""
    probs = []
    try:
        S = file_store(d)
    except BaseException as e:
        return [('fresh store cannot be opened (pack unreadable)', '%s: %s' % (type(e).__name__, str(e)[:120]))]
    for k in ctx.universe:
        kb = bx(k)
        try:
            can = bool(S.can_load(kb))
        except BaseException as e:
            probs.append(('can_load raised', '%s %s' % (k, type(e).__name__)))
            continue
        allowed = []
        if k in ctx.pre:
            allowed.append(ctx.pre[k])
        if k in ctx.targets and k in ctx.post:
            allowed.append(ctx.post[k])
        if can:
            try:
                v = S.load(kb)
            except BaseException as e:
                probs.append(('loadable key: load raised', '%s %s: %s' % (k, type(e).__name__, str(e)[:100])))
                continue
            if not any(same(v, a) for a in allowed):
                probs.append(('loadable key: load returned a value never dumped to it',
                              '%s -> %s, allowed %s' % (k, describe(v), [describe(a) for a in allowed])))
        elif k in ctx.pre and k not in ctx.targets:
            probs.append(('previously stored result of another key lost', k))
    try:
        listed = set(hx(k) for k in S.list())
    except BaseException as e:
        listed = set()
        probs.append(('list raised', type(e).__name__))
    for k in sorted(listed - set(ctx.universe)):
        probs.append(('stray file interpreted as a result', k))
    uni = set(ctx.universe)
    for dp, dns, fns in os.walk(d):
        rd = os.path.relpath(dp, d)
        for f in fns:
            rel = f if rd == '.' else rd + '/' + f
            top = rel.split('/')[0]
            if top in NONFINAL_DIRS or rel == 'packs/jugpack':
                continue
            if len(top) == 2 and rel.count('/') == 1 and (top + rel[3:]) in uni:
                continue
            probs.append(('residue outside tempfiles/', rel))
    return probs


class WouldBlock(BaseException):
    pass


def check_writable(d, keys, full=True):
    """Residue never blocks a later write.  On the crash image d the recovery a user performs - lock cleanup
    (`jug cleanup --locks-only` = store.remove_locks()) and then running again - must work: a fresh file_store
    can store (again) each of `keys` (the key whose write was interrupted first), a fresh store reads the new
    values back, `jug pack` (update_pack) runs and the values are still read back, and the keys can be removed.
    No operation may wait for a lock (time.sleep is trapped).  Returns a list of (class, detail) problems."""
    import time
    probs = []
    real_sleep = time.sleep

    def no_sleep(_t):
        raise WouldBlock()
    time.sleep = no_sleep
    try:
        try:
            S = file_store(d)
        except BaseException:
            return []                      # an unreadable pack is reported by check_store
        step = 'lock cleanup'
        try:
            S.remove_locks()
            vals = {}
            for j, k in enumerate(keys):
                step = 'dump of %s' % k
                vals[k] = ('stored again after the crash', j, k[:8])
                S.dump(vals[k], bx(k))
            for phase in (('after the dumps', 'after update_pack') if full else ('after the dumps',)):
                if phase == 'after update_pack':
                    step = 'update_pack'
                    S.update_pack()
                step = 'reading back ' + phase
                R = file_store(d)
                for k in keys:
                    if not R.can_load(bx(k)) or not same(R.load(bx(k)), vals[k]):
                        probs.append(('after a crash: a later write of the key is not read back', '%s %s' % (k, phase)))
            if full:
                step = 'remove_many of %s' % keys
                gone = set(hx(k) for k in file_store(d).remove_many([bx(k) for k in keys]))
                R = file_store(d)
                for k in keys:
                    if k not in gone or R.can_load(bx(k)):
                        probs.append(('after a crash: a later remove of the key does not remove it', k))
        except WouldBlock:
            probs.append(('after a crash and lock cleanup: a later store operation waits for a lock', step))
        except BaseException as e:
            probs.append(('after a crash: residue blocks a later store operation', '%s raised %s: %s' % (step, type(e).__name__, str(e)[:120])))
    finally:
        time.sleep = real_sleep
    return probs


def snapshot(jd, dst):
    """hard-link every published file (what a reader can have open) into dst"""
    try:
        tops = os.listdir(jd)
    except OSError:
        return
    for top in tops:
        if top in NONFINAL_DIRS:
            continue
        p = os.path.join(jd, top)
        if not os.path.isdir(p):
            continue
        for f in os.listdir(p):
            os.makedirs(os.path.join(dst, top), exist_ok=True)
            try:
                os.link(os.path.join(p, f), os.path.join(dst, top, f))
            except OSError:
                pass


# ============================================================================ recording
class OpRec:
    pass


class Recorded:
    pass


def do_op(box, op, jd):
    """-> 'raised' when a dump let an EXPECTED exception through (the value cannot be pickled / a signal was injected
    at a primitive boundary); the writer process ends with it: locks are cleaned up and a new store object is used"""
    s = box[0]
    t = op['op']
    if t == 'dump':
        expect = (expected_failure(op['val']) or ()) + ((InjectedInterrupt,) if 'raise_at' in op else ())
        if 'fsync_eio' in op:
            expect = expect + (OSError,)
        if box[1:] and box[1]:
            # EXDEV at the publishing rename; the raw .npy branch reports it as ValueError ('... closed file': its
            # `except OSError` handler runs after the file was closed) - what matters is that dump() raises
            expect = expect + (OSError, ValueError)
        if not expect:
            s.dump(mkvalue(op['val']), bx(op['key']))
            return None
        raised = False
        try:
            s.dump(mkvalue(op['val']), bx(op['key']))
        except BaseException as e:
            if not isinstance(e, expect) or (type(e) is KeyboardInterrupt and KeyboardInterrupt not in expect):
                raise
            if (isinstance(e, OSError) and OSError not in (expected_failure(op['val']) or ())
                    and e.errno not in ((errno.EXDEV, errno.EIO) if 'fsync_eio' in op else (errno.EXDEV,))):
                raise
            if (isinstance(e, ValueError) and ValueError not in (expected_failure(op['val']) or ())
                    and 'closed file' not in str(e)):
                raise
            raised = True
        gc.collect()                         # the abandoned file object goes away now (its buffer reaches the temp file)
        if raised:
            file_store(jd).remove_locks()
            box[0] = file_store(jd, compress_numpy=s.compress_numpy)
            return 'raised'
    elif t == 'exdev':
        return None                          # handled by record(): the interposer starts / stops failing renames
    elif ((box[1:] and box[1]) or 'fsync_eio' in op) and t in ('remove', 'update_pack', 'resave_pack'):
        # tempfiles/ is on another filesystem: the operation may fail with EXDEV at its publishing rename;
        # an fsync of a file fails with EIO: the operation must fail with it
        try:
            {'remove': lambda: s.remove(bx(op['key'])), 'update_pack': s.update_pack, 'resave_pack': s.resave_pack}[t]()
        except OSError as e:
            if e.errno not in ((errno.EXDEV,) if 'fsync_eio' not in op else (errno.EXDEV, errno.EIO)):
                raise
            file_store(jd).remove_locks()
            box[0] = file_store(jd, compress_numpy=s.compress_numpy)
            return 'raised'
    elif t == 'remove':
        s.remove(bx(op['key']))
    elif t == 'remove_many':
        s.remove_many([bx(k) for k in op['keys']])
    elif t == 'cleanup':
        s.cleanup([HashObj(bx(k)) for k in op['active']])
    elif t == 'update_pack':
        s.update_pack()
    elif t == 'resave_pack':
        s.resave_pack()
    elif t == 'reopen':
        box[0] = file_store(jd, compress_numpy=op['compress'])
    else:
        raise ValueError(t)


def record(scn, root, reader_stride=1, upto=None, only_reader_op=None):
    """Run the scenario on the real file_store under the interposer.  reader_stride: run the concurrent
    reader at every reader_stride-th primitive boundary (0 = never)."""
    jd = os.path.join(root, 'jd')
    snaproot = os.path.join(root, 'snap')
    ip = fsx.Interposer(jd)
    rec = Recorded()
    rec.scn = scn
    rec.ops = []
    rec.universe = scenario_keys(scn)
    rec.dumped = {}                 # key -> list of values ever dumped to it
    rec.reader_points = 0
    rec.failed = None
    expected = {}
    with ip:
        box = [file_store(jd, compress_numpy=scn['compress']), False]
        for i, op in enumerate(scn['ops'][:upto]):
            if op['op'] == 'exdev':
                ip.exdev = box[1] = bool(op['on'])
            ip.sync_now()
            o = OpRec()
            o.index = i
            o.op = op
            o.a = len(ip.events)
            o.pre = dict(expected)
            o.post, o.targets = apply_expected(o.pre, op)
            o.ctx = Ctx(rec.universe, o.pre, o.post, o.targets)
            o.reader_problems = []
            o.before_listing = None
            if op['op'] == 'dump' and op['key'] in o.post and o.post[op['key']] is not o.pre.get(op['key'], o):
                rec.dumped.setdefault(op['key'], []).append(o.post[op['key']])
            packed_before = set()
            if op['op'] == 'dump' and rec.ops and 'packs/jugpack' in rec.ops[-1].listing:
                okp, pack = decode_strict(ip.blobs.data[rec.ops[-1].listing['packs/jugpack']])
                packed_before = set(pack) if okp and isinstance(pack, dict) else set()
            snaps = []
            state = {'n': 0, 'fired': False}
            raise_at = op.get('raise_at')

            def hook(point, o=o, snaps=snaps, state=state, raise_at=raise_at):
                n = state['n']
                state['n'] += 1
                if reader_stride and n % reader_stride == 0 and (only_reader_op is None or only_reader_op == o.index):
                    rec.reader_points += 1
                    if os.path.isdir(jd):
                        for cls, det in check_store(jd, o.ctx):
                            o.reader_problems.append({'reader': 'fresh reader at this instant', 'point': n, 'at': point, 'class': cls, 'detail': det})
                        sd = os.path.join(snaproot, str(n))
                        snapshot(jd, sd)
                        if os.path.isdir(sd):
                            snaps.append((n, point, sd))
                if raise_at is not None and n == raise_at and not state['fired']:
                    state['fired'] = True            # a signal reaches the writer at this primitive boundary
                    raise InjectedInterrupt(point)
            ip.hook = hook if ((reader_stride or raise_at is not None) and op['op'] != 'reopen') else None
            o.raised = False
            ip.fsync_count, ip.fsync_fail_at = 0, op.get('fsync_eio')
            import time as _time
            real_sleep = _time.sleep
            if 'fsync_eio' in op:
                _time.sleep = lambda _t: None         # (code that waits before trying again: do not really wait)
            try:
                o.raised = do_op(box, op, jd) == 'raised'
            except Exception as e:
                rec.failed = (i, '%s: %s' % (type(e).__name__, str(e)[:200]))
            finally:
                ip.hook = None
                ip.fsync_fail_at = None
                _time.sleep = real_sleep
            ip.sync_now()
            o.b = len(ip.events)
            o.listing = ip.listing() if os.path.isdir(jd) else {}
            for n, point, sd in snaps:
                for cls, det in check_store(sd, o.ctx):
                    if cls.startswith('loadable key') or cls.startswith('fresh store'):
                        o.reader_problems.append({'reader': 'files opened at this instant, read after the operation finished',
                                                  'point': n, 'at': point, 'class': cls, 'detail': det})
            shutil.rmtree(snaproot, ignore_errors=True)
            o.npoints = state['n']
            # the finished operation: the plain key-value oracle (a fresh process sees exactly the expected map)
            o.final_problems = []
            if rec.failed is None:
                # an operation that let an exception through either changed nothing or (the signal came after the
                # rename / a transient failure was retried) did all of its work: both are all-or-nothing
                cands = [o.post]
                if o.raised and op['op'] != 'dump':
                    cands = [o.pre, o.post]       # EXDEV: e.g. remove() unlinked the file before the pack could not be saved
                elif o.raised:
                    cands = [o.pre] + ([o.post] if o.post is not o.pre and ('raise_at' in op or len(op.get('val', [])) > 6) else [])
                    # recorded observation (DESIGN.md, C05): dump() of a key that is inside the pack drops the packed value
                    # first (resave_pack) and only then writes the file, so an interrupted re-dump of a PACKED key may
                    # leave the key without a value; accepted only for a key that was in the pack when the dump began
                    if op['op'] == 'dump' and op['key'] in o.pre and bx(op['key']) in packed_before and not box[1]:
                        cands.append(dict((k, v) for k, v in o.pre.items() if k != op['key']))
                elif op['op'] == 'dump' and expected_failure(op['val']) is not None and len(op['val']) <= 6:
                    cands = [o.pre]               # an unpicklable value: nothing may change, raised or not
                results = []
                for cand in cands:
                    done = Ctx(rec.universe, cand, cand, set())
                    probs = check_store(jd, done) if os.path.isdir(jd) else []
                    for k in rec.universe:
                        if k not in cand and os.path.isdir(jd) and file_store(jd).can_load(bx(k)):
                            probs.append(('key loadable although never dumped / removed', k))
                    results.append((cand, probs))
                    if not probs:
                        break
                good = [c for c, pr in results if not pr]
                o.post = good[0] if good else cands[0]
                o.old_value_dropped = (bool(good) and o.raised and op['op'] == 'dump' and op['key'] in o.pre
                                       and op['key'] not in o.post)
                o.final_problems = [] if good else results[0][1]
                if op['op'] == 'dump' and expected_failure(op['val']) is not None and len(op['val']) <= 6 and not o.raised:
                    o.final_problems.append(('dump of a value that cannot be pickled returned normally', op['key']))
            rec.ops.append(o)
            expected = o.post
            if rec.failed is not None:
                break
    rec.events = ip.events
    rec.blobs = ip.blobs
    rec.unsupported = list(ip.unsupported)
    return rec


# ============================================================================ rendering for Coq
class Names:
    def __init__(self):
        self.dirs = {}
        self.names = {}

    def dir(self, d):
        if d not in self.dirs:
            self.dirs[d] = len(self.dirs) + 1
        return self.dirs[d]

    def name(self, n):
        if n not in self.names:
            self.names[n] = (self.dir(os.path.dirname(n)), len(self.names) + 1)
        return self.names[n]

    def lit(self, n):
        return '(%d,%d)' % self.name(n)

    def nonfinal(self):
        return [self.dirs[d] for d in NONFINAL_DIRS if d in self.dirs]


def complete_cids(rec):
    """cids of the byte strings that are the complete encoding of a dumped value / of a pack of dumped values"""
    allvals = [v for vs in rec.dumped.values() for v in vs]
    uni = set(bx(k) for k in rec.universe)
    out = []
    for c, b in sorted(rec.blobs.data.items()):
        ok, v = decode_strict(b)
        if not ok:
            continue
        if isinstance(v, dict) and all(isinstance(k, bytes) and k in uni for k in v):
            if all(any(same(x, y) for y in rec.dumped.get(hx(k), [])) for k, x in v.items()):
                out.append(c)
                continue
        if any(same(v, y) for y in allvals):
            out.append(c)
    return out


def entitled(rec, o, ev, vol, k):
    """may this API operation remove the final name of ev (the k-th event, an unlink)?  Decided from the API
    arguments and, for update_pack, from the pack the directory holds at that instant (volatile and durable
    views) - never from what the code did."""
    if ev.get('unseen'):
        return False
    n = ev['name']
    t = o.op['op']
    if t == 'remove':
        return n == fname_of(o.op['key'])
    if t == 'remove_many':
        return n in [fname_of(k) for k in o.op['keys']]
    if t == 'cleanup':
        return not n.startswith('packs/') and n not in [fname_of(k) for k in o.op['active']]
    if t == 'update_pack':
        # the key must be in the pack in EVERY view: the volatile one and every binding packs/jugpack may have
        # after a power loss at this instant (everything before the operation began counted as durable)
        fi = vol.vdir.get(n)
        if fi is None:
            return False
        okf, fv = decode_strict(rec.blobs.data[vol.vdata[fi]])
        key = bx(n.replace('/', ''))
        sim = fsx.CrashSim(rec.events, k, durable_before=o.a)
        binds = set([vol.vdir.get('packs/jugpack'), sim.ddir.get('packs/jugpack')])
        binds.update(b for (m, b) in sim.pending if m == 'packs/jugpack')
        if 'packs' in sim.fresh:
            binds.add(None)
        for pi in binds:
            if pi is None:
                return False
            for c in (vol.vdata[pi], sim.synced.get(pi)):
                if c is None:
                    return False
                okp, pack = decode_strict(rec.blobs.data[c])
                if not (okp and okf and isinstance(pack, dict) and key in pack and same(pack[key], fv)):
                    return False
        return True
    return False


def render(rec):
    """-> dict(fsops=[structured], lits=[str], evmap={event index -> fsop index}, names, nf, cc)"""
    nm = Names()
    for d in NONFINAL_DIRS:
        nm.dir(d)
    fsops, evmap = [], {}
    packed_unlinks = []
    decoded = {}

    def dec(c):
        if c not in decoded:
            decoded[c] = decode_strict(rec.blobs.data[c])
        return decoded[c]
    vol = fsx.CrashSim([], 0)
    opi = 0
    extra_ino = [10 ** 6]
    for k, ev in enumerate(rec.events):
        evmap[k] = len(fsops)
        while opi < len(rec.ops) and rec.ops[opi].b <= k:
            opi += 1
        o = rec.ops[opi] if opi < len(rec.ops) and rec.ops[opi].a <= k else None
        t = ev['op']
        if t == 'mkdir':
            fsops.append(('Mkdir', nm.dir(ev['dir'])))
        elif t == 'create':
            fsops.append(('Mkstemp' if ev.get('excl') and not ev.get('unseen') else 'OpenTrunc', nm.name(ev['name']), ev['ino']))
        elif t == 'openw':
            ino = ev['ino']
            if ino is None:
                extra_ino[0] += 1
                ino = extra_ino[0]
            fsops.append(('OpenTrunc', nm.name(ev['name']), ino))
        elif t == 'write':
            fsops.append(('WriteData', ev['ino'], ev['cid']))
        elif t == 'fsync_failed':
            pass            # the model is told nothing: the data stays un-synced
        elif t == 'fsync':
            if ev['ino'] not in vol.poisoned:      # (a sync that follows a failed one without new data syncs nothing)
                fsops.append(('Fsync', ev['ino']))
        elif t == 'close':
            fsops.append(('Close', ev['ino']))
        elif t == 'fsyncdir':
            fsops.append(('FsyncDir', nm.dir(ev['dir'])))
        elif t == 'rename':
            fsops.append(('Rename', nm.name(ev['src']), nm.name(ev['dst'])))
        elif t == 'unlink':
            rm = bool(o is not None and entitled(rec, o, ev, vol, k))
            if o is not None and o.op['op'] == 'update_pack' and not ev.get('unseen') and ev['name'].split('/')[0] not in NONFINAL_DIRS:
                # which byte strings are packs holding this key with the value of the file being unlinked?
                fi = vol.vdir.get(ev['name'])
                okf, fv = dec(vol.vdata[fi]) if fi is not None else (False, None)
                key = bx(ev['name'].replace('/', ''))
                cs = []
                for c in sorted(rec.blobs.data):
                    okp, pack = dec(c)
                    if okf and okp and isinstance(pack, dict) and key in pack and same(pack[key], fv):
                        cs.append(c)
                packed_unlinks.append((len(fsops), nm.name(ev['name']), cs))
            fsops.append(('Unlink', nm.name(ev['name']), rm))
        # utime / truncate / ftruncate: no directory effect; a content change shows up as a write event
        vol.apply(ev)
    evmap[len(rec.events)] = len(fsops)
    return {'fsops': fsops, 'evmap': evmap, 'names': nm, 'nf': nm.nonfinal(), 'cc': complete_cids(rec),
            'packed_unlinks': packed_unlinks}


def fsop_lit(f):
    t = f[0]
    if t in ('Mkstemp', 'OpenTrunc'):
        return '%s (%d,%d) %d' % (t, f[1][0], f[1][1], f[2])
    if t == 'WriteData':
        return 'WriteData %d %d' % (f[1], f[2])
    if t in ('Fsync', 'Close', 'FsyncDir', 'Mkdir'):
        return '%s %d' % (t, f[1])
    if t == 'Rename':
        return 'Rename (%d,%d) (%d,%d)' % (f[1][0], f[1][1], f[2][0], f[2][1])
    if t == 'Unlink':
        return 'Unlink (%d,%d) %s' % (f[1][0], f[1][1], boollit(f[2]))
    raise ValueError(f)


def plist(xs):
    return '[' + ';'.join(str(x) for x in xs) + ']'


PREAMBLE = '''
Local Open Scope positive_scope.
Definition fin_of (nf : list positive) (n : name) : bool := negb (mem_pos nf (fst n)).
Definition obs_ok (s : fs) (no : name * option cid) : bool :=
  opt_content_eqb (kill_view s (fst no)) (option_map Cid (snd no)).
(* (non-final directories, complete contents, trace, checkpoints (prefix length, real listing)) *)
Definition tcase := (list positive * list positive * list fsop * list (nat * list (name * option cid)))%type.
Definition protocol_case (c : tcase) : bool :=
  match c with (nf, cc, tr, _) => write_protocol (fin_of nf) (mem_pos cc) tr end.
Definition state_case (c : tcase) : bool :=
  match c with (nf, cc, tr, cps) =>
    forallb (fun cp => forallb (obs_ok (run (fin_of nf) empty_fs (firstn (fst cp) tr))) (snd cp)) cps end.
(* the conclusion of the theorems, evaluated: every prefix, both crash relations, every final name of the listing *)
Definition views_case (c : tcase) : bool :=
  match c with (nf, cc, tr, cps) =>
    all_prefixes_ok (fin_of nf) (mem_pos cc) empty_fs tr
      (filter (fin_of nf) (flat_map (fun cp => map fst (snd cp)) (firstn 1%nat (rev cps)))) end.
(* the crash simulator of the search = the model's power-loss relation *)
Definition plcp := (nat * list (name * list (option inoid)) * list (inoid * option cid))%type.
Definition plcase := (list positive * list fsop * list plcp)%type.
Definition synced_ok (s : fs) (x : inoid * option cid) : bool :=
  content_eqb (i_synced (inodes s (fst x))) (match snd x with Some c => Cid c | None => Garbage end).
Definition pl_case (c : plcase) : bool :=
  match c with (nf, tr, cps) =>
    forallb (fun cp => match cp with (k, bs, ss) =>
      let s := run (fin_of nf) empty_fs (firstn k tr) in
      forallb (fun nb => same_set_b (pl_bindings s (fst nb)) (snd nb)) bs && forallb (synced_ok s) ss end) cps end.
(* update_pack: at each of its unlinks the key is in the pack in every view (volatile and post-power-loss) *)
Definition pucase := (list positive * list fsop * name * list (nat * name * list cid))%type.
Definition packed_case (c : pucase) : bool :=
  match c with (nf, tr, pk, us) =>
    forallb (fun u => match u with (k, n, cs) =>
      covered (fun c m => name_eqb m n && mem_pos cs c) (run (fin_of nf) empty_fs (firstn k tr)) pk n end) us end.
(* redis *)
Definition rcmd_eqb (a b : rcmd) : bool :=
  match a, b with
  | RSet k v, RSet k' v' => Pos.eqb k k' && Pos.eqb v v'
  | RDel k, RDel k' => Pos.eqb k k'
  | _, _ => false
  end.
Fixpoint kv_of (l : list (positive * cid)) : kv :=
  match l with [] => fun _ => None | (k, v) :: r => fun j => if Pos.eqb k j then Some v else kv_of r j end.
(* (state before, observed write commands, key, complete encoding, observed state after) *)
Definition rcase := (list (positive * cid) * list rcmd * positive * cid * list (positive * option cid))%type.
Definition redis_case (c : rcase) : bool :=
  match c with (before, cmds, k, enc, after) =>
    list_eqb rcmd_eqb cmds (redis_dump k enc) &&
    forallb (fun jo => option_eqb Pos.eqb (rrun (kv_of before) cmds (fst jo)) (snd jo)) after end.
'''
TCASE = 'tcase'


def tie_case(rec, rd):
    nm = rd['names']
    cps = []
    for o in rec.ops:
        for n in o.listing:
            nm.name(n)
    allnames = sorted(nm.names, key=lambda n: nm.names[n][1])
    for o in rec.ops:
        obs = ['(%s,%s)' % (nm.lit(n), 'Some %d' % o.listing[n] if n in o.listing else 'None') for n in allnames]
        cps.append('(%d%%nat,%s)' % (rd['evmap'][o.b], plist(obs)))
    return '(%s,%s,\n  %s,\n  %s)' % (plist(rd['nf']), plist(rd['cc']), plist(fsop_lit(f) for f in rd['fsops']), plist(cps))


def packed_case(rec, rd):
    nm = rd['names']
    us = ['(%d%%nat,(%d,%d),%s)' % (k, n[0], n[1], plist(cs)) for (k, n, cs) in rd['packed_unlinks']]
    return '(%s,\n  %s,\n  %s,\n  %s)' % (plist(rd['nf']), plist(fsop_lit(f) for f in rd['fsops']), nm.lit('packs/jugpack'), plist(us))


def pl_tie_case(rec, rd, rng, ncheck):
    nm = rd['names']
    n = len(rec.events)
    ks = set(o.b for o in rec.ops)
    for o in rec.ops:
        if o.b - o.a > 2:
            ks.add(rng.randrange(o.a + 1, o.b))
    ks = sorted(ks)
    if len(ks) > ncheck:
        ks = sorted(rng.sample(ks, ncheck))
    cps = []
    exhaustive = 0
    for k in ks:
        sim = fsx.CrashSim(rec.events, k)
        names = sorted(set(sim.ddir) | set(m for m, _ in sim.pending) | set(sim.vdir))
        names = [m for m in names if os.path.dirname(m) != '']
        byname = sim.bindings_by_name(rng, 2048) if 2 ** sim.nbits() <= 2048 else None
        if byname is None:
            byname = {}
            for m in names:
                s = set([sim.ddir.get(m)]) | set(b for (x, b) in sim.pending if x == m)
                if os.path.dirname(m) in sim.fresh:
                    s.add(None)
                byname[m] = s
        else:
            exhaustive += 1
        bs = ['(%s,%s)' % (nm.lit(m), plist(('Some %d' % b) if b is not None else 'None' for b in sorted(byname[m], key=lambda x: (x is None, x))))
              for m in names]
        ss = ['(%d,%s)' % (i, ('Some %d' % c) if c is not None else 'None') for i, c in sorted(sim.synced.items())]
        cps.append('(%d%%nat,%s,%s)' % (rd['evmap'][k], plist(bs), plist(ss)))
    return '(%s,\n  %s,\n  %s)' % (plist(rd['nf']), plist(fsop_lit(f) for f in rd['fsops']), plist(cps)), len(cps), exhaustive


# ---------------------------------------------------------------------------- Python mirror of Model/Fs.v (diagnostics only)
def first_reject(fsops, nf, cc):
    """index and reason of the first operation write_protocol rejects (mirror of Fs.guard; used only to word
    the replay - the verdict is Coq's)"""
    fin = lambda n: n[0] not in nf
    ino = {}
    vol = {}

    def get(i):
        return ino.setdefault(i, {'data': None, 'synced': 'G', 'pub': False, 'used': False})
    for k, f in enumerate(fsops):
        t = f[0]
        if t in ('Mkstemp', 'OpenTrunc'):
            n, i = f[1], f[2]
            if fin(n):
                return k, '%s creates/opens the final name %s for writing' % (t, n)
            if t == 'OpenTrunc' and n in vol:
                if vol[n] != i:
                    return k, 'open for writing of an untracked file'
                continue
            x = get(i)
            if x['used'] or x['pub']:
                return k, 'inode id reused'
            ino[i] = {'data': 1, 'synced': 'G', 'pub': False, 'used': True}
            vol[n] = i
        elif t == 'WriteData':
            x = get(f[1])
            if x['pub']:
                return k, 'data written through an inode that a final name refers to'
            x['data'], x['synced'], x['used'] = f[2], 'G', True
        elif t == 'Fsync':
            x = get(f[1])
            x['synced'] = x['data']
        elif t == 'Rename':
            src, dst = f[1], f[2]
            if fin(src):
                return k, 'rename from a final name'
            if src not in vol:
                return k, 'rename of an unknown file'
            x = get(vol[src])
            if fin(dst):
                if x['data'] is None or x['synced'] != x['data']:
                    return k, 'rename onto the final name %s of a file whose data was not fsynced after its last write' % (dst,)
                if x['data'] not in cc:
                    return k, 'rename onto the final name %s of a file that is not a complete encoding' % (dst,)
                x['pub'] = True
            vol[dst] = vol.pop(src)
        elif t == 'Unlink':
            if fin(f[1]) and not f[2]:
                return k, 'unlink of the final name %s by an operation not entitled to remove it' % (f[1],)
            vol.pop(f[1], None)
    return None, None


# ============================================================================ crash search
def expand_writes(events, blobs):
    """every data write becomes two steps (half of the new bytes, then all of them): crash points inside the data write"""
    out, pos = [], {}
    for k, ev in enumerate(events):
        pos[k] = len(out)
        if ev['op'] == 'write':
            b = blobs.data[ev['cid']]
            if len(b) >= 2:
                out.append({'op': 'write', 'ino': ev['ino'], 'cid': blobs.cid(b[:len(b) // 2]), 'partial': True})
        out.append(ev)
    pos[len(events)] = len(out)
    return out, pos


class Pool:
    def __init__(self, root, blobs):
        self.dir = os.path.join(root, 'pool')
        os.makedirs(self.dir, exist_ok=True)
        self.blobs = blobs

    def path(self, tag):
        p = os.path.join(self.dir, tag)
        if not os.path.exists(p):
            if tag[0] == 'c':
                b = self.blobs.data[int(tag[1:])]
            else:
                c, kind = tag[1:].split('_')
                b = fsx.garbage(kind, self.blobs.data[int(c)])
            with open(p, 'wb') as f:
                f.write(b)
        return p

    def materialise(self, img, dst):
        os.makedirs(dst)
        made = set()
        for n, tag in img.items():
            d = os.path.dirname(n)
            if d not in made:
                os.makedirs(os.path.join(dst, d), exist_ok=True)
                made.add(d)
            os.link(self.path(tag), os.path.join(dst, n))


def kill_image(sim):
    return {n: 'c%d' % sim.vdata[i] for n, i in sim.vdir.items()}


def pl_images(sim, mask):
    """the images of one lossy subset: un-fsynced inodes get garbage; all garbage kinds when such an inode is
    visible under a final name, one representative otherwise"""
    d = sim.dir_for_mask(mask)
    exposed = [n for n, i in d.items() if sim.synced.get(i) is None and n.split('/')[0] not in NONFINAL_DIRS]
    kinds = fsx.GARBAGE_KINDS if exposed else ('half',)
    for kind in kinds:
        img = {}
        for n, i in d.items():
            c = sim.synced.get(i)
            img[n] = ('c%d' % c) if c is not None else 'g%d_%s' % (sim.vdata[i], kind)
        yield kind, img


def sig_of(img):
    return tuple(sorted(img.items()))


def short_trace(events, a, b):
    out = []
    for ev in events[a:b]:
        e = dict(ev)
        out.append(' '.join('%s=%s' % (k, e[k]) for k in ('op', 'name', 'src', 'dst', 'dir', 'ino', 'cid', 'partial', 'unseen') if k in e))
    return out


def search_scenario(ck, rec, root, cap, max_points, report):
    thorough = ck.tier == 'thorough'
    """fault enumeration over every API operation of a recorded scenario.  report(op, crash, image, problems)."""
    evs, pos = expand_writes(rec.events, rec.blobs)
    pool = Pool(root, rec.blobs)
    imgdir = os.path.join(root, 'img')
    stats = {'kill': 0, 'pl': 0, 'pl_exhaustive_points': 0, 'pl_sampled_points': 0, 'dedup': 0, 'writable': 0}
    for o in rec.ops:
        a, b = pos[o.a], pos[o.b]
        if b == a:
            continue
        points = list(range(a + 1, b + 1))
        if len(points) > max_points:
            keep = set(p for p in points if evs[p - 1]['op'] in ('rename', 'unlink') or (p < b and evs[p]['op'] in ('rename', 'unlink')))
            rest = [p for p in points if p not in keep]
            ck.rng.shuffle(rest)
            keep.update(rest[:max(0, max_points - len(keep))])
            points = sorted(keep)
        seen = {}
        seen_w = set()
        seen_full = set()
        # the keys stored again on every crash image: the key(s) whose operation was interrupted, and another one
        wkeys = sorted(o.targets)[:1] + [k for k in rec.universe if k not in o.targets][:1]

        def check(img, crash):
            sg = sig_of(img)
            if sg in seen:
                stats['dedup'] += 1
                return
            shutil.rmtree(imgdir, ignore_errors=True)
            pool.materialise(img, imgdir)
            probs = check_store(imgdir, o.ctx)
            # whether later writes work depends on WHICH temp / lock files the crash left, on whether the keys written
            # again have a file, and on the pack - not on the other contents
            ptag = img.get('packs/jugpack')
            wsig = (tuple(sorted(n for n in img if n.split('/')[0] in NONFINAL_DIRS)),
                    tuple(fname_of(k) in img for k in wkeys), 'garbage' if ptag and ptag[0] == 'g' else ptag)
            if wsig not in seen_w:
                seen_w.add(wsig)
                stats['writable'] += 1
                # dump + read back on every distinct residue; pack and remove as well once per set of temp / lock names
                # and pack state (quick tier; thorough: always)
                fsig = (wsig[0], wsig[2])
                full = thorough or fsig not in seen_full
                seen_full.add(fsig)
                probs = probs + check_writable(imgdir, wkeys, full=full)
            seen[sg] = bool(probs)
            if probs:
                report(o, crash, img, probs, short_trace(evs, a, b))
        for p in points:
            sim = fsx.CrashSim(evs, p)
            stats['kill'] += 1
            check(kill_image(sim), {'mode': 'kill', 'rel': p - a})
            simd = fsx.CrashSim(evs, p, durable_before=a)
            exhaustive, masks = simd.masks(ck.rng, cap)
            stats['pl_exhaustive_points' if exhaustive else 'pl_sampled_points'] += 1
            for m in masks:
                for kind, img in pl_images(simd, m):
                    stats['pl'] += 1
                    check(img, {'mode': 'powerloss', 'rel': p - a, 'mask': m, 'garbage': kind, 'lost': simd.lost_for_mask(m)})
    shutil.rmtree(imgdir, ignore_errors=True)
    shutil.rmtree(pool.dir, ignore_errors=True)
    return stats


def op_shape(rec, rd, o):
    nf = set(rd['nf'])
    out = []
    for f in rd['fsops'][rd['evmap'][o.a]:rd['evmap'][o.b]]:
        t = f[0]
        if t in ('Mkstemp', 'OpenTrunc', 'Unlink'):
            out.append(t + ('.fin' if f[1][0] not in nf else '.tmp'))
        elif t == 'Rename':
            out.append('Rename.%s' % ('fin' if f[2][0] not in nf else 'tmp'))
        elif t == 'Mkdir':
            continue
        else:
            out.append(t)
    return (o.op['op'], tuple(out))


# ============================================================================ redis
def redis_part(ck, rng, n):
    cases, metas = [], []
    srv = fakeredis.FakeServer()
    fakeredis.install(srv)
    try:
        store = redis_mod.redis_store(REDIS_URL)
        keys = [new_key(rng) for _ in range(6)]
        blobs = fsx.Blobs()
        kid = {}
        current = {}
        # after the generated values: incompressible payloads whose ENCODED (zlib + base64) size is far beyond any
        # size at which a client library or a "be nice to the server" patch would start to split a command
        # (1.3 MiB, 6.7 MiB and 35 MiB of base64; thorough: more sizes in between and above)
        bigs = [1 << 20, 5 << 20, 26 << 20] + ([3670016, 12 << 20, 34 << 20, 40 << 20] if ck.tier == 'thorough' else [])
        specs = [None] * n + [['bytes', 7000 + j, sz] for j, sz in enumerate(sorted(bigs))]
        for it, spec in enumerate(specs):
            k = rng.choice(keys)
            if spec is None:
                spec = gen_valspec(rng, False)
            else:
                ck.count('redis dumps of a multi-MiB encoded value')
            v = mkvalue(spec)
            before = dict(srv.data)
            n0 = len(srv.trace)
            seen = []

            def look(where, k=k, v=v, seen=seen):
                # what a concurrent reader sees at this instant = what every later process sees if the writer dies here
                r = redis_mod.redis_store(REDIS_URL)
                try:
                    if r.can_load(bx(k)):
                        got = r.load(bx(k))
                        if not (same(got, v) or (k in current and same(got, current[k]))):
                            seen.append('%s: loadable, load returned %s' % (where, describe(got)))
                except Exception as e:
                    seen.append('%s: loadable, load raised %s' % (where, type(e).__name__))

            def hook(cid, cmd, args, look=look, ncmd=[0]):
                # between any two commands of the writer (and before the first)
                srv.hook = None
                try:
                    look('before command %d (%s)' % (ncmd[0], cmd))
                    ncmd[0] += 1
                finally:
                    srv.hook = hook
            srv.hook = hook
            raised = None
            try:
                store.dump(v, bx(k))
            except Exception as e:              # the operation under test raised: a finding, not a harness failure
                raised = '%s: %s' % (type(e).__name__, str(e)[:160])
            finally:
                srv.hook = None
            look('after the last command')
            cmds = [t for t in srv.trace[n0:] if t[0] == 1]
            after = dict(srv.data)
            writes, unknown = [], []
            for (_c, name, args, _res) in cmds:
                if name == 'SET':
                    writes.append(('RSet', args[0], args[1]))
                elif name == 'DEL':
                    writes.extend(('RDel', a, None) for a in args)
                elif name not in ('GET', 'EXISTS', 'KEYS'):
                    unknown.append(name)
            rk = b'result:' + bx(k)
            payload = after.get(rk)
            okd, dv = (False, None)
            if payload is not None:
                try:
                    okd, dv = decode_strict(base64.b64decode(payload, validate=True) if payload else b'')
                except Exception:
                    okd = False
            meta = {'key': k, 'val': spec, 'commands': [[nm, [(a if isinstance(a, bytes) else str(a).encode())[:40].decode('latin1') for a in args],
                                                          sum(len(a) for a in args if isinstance(a, bytes))] for (_c, nm, args, _r) in cmds]}
            if unknown or not okd or not same(dv, v) or seen or raised:
                what = ('redis dump raised' if raised else
                        'redis dump: between two commands the key is loadable with a value that is neither the old nor the new one' if seen
                        else 'redis dump: not one SET of the complete encoding')
                ck.violation({'kind': 'impl-violation', 'what': what, 'exception': raised,
                              'unknown_commands': unknown, 'payload_decodes_to_value': bool(okd and same(dv, v)),
                              'reader_or_writer_death_saw': seen[:6], 'redis': meta})
            for d in (before, after):
                for kk in d:
                    kid.setdefault(kk, len(kid) + 1)
            kid.setdefault(rk, len(kid) + 1)
            for w in writes:
                kid.setdefault(w[1], len(kid) + 1)
            enc = blobs.cid(payload if payload is not None else b'\xff')
            lit = '(%s,%s,%d,%d,%s)' % (
                plist('(%d,%d)' % (kid[kk], blobs.cid(vv)) for kk, vv in sorted(before.items())),
                plist(('RSet %d %d' % (kid[w[1]], blobs.cid(w[2]))) if w[0] == 'RSet' else 'RDel %d' % kid[w[1]] for w in writes),
                kid[rk], enc,
                plist('(%d,%s)' % (j, ('Some %d' % blobs.cid(after[kk])) if kk in after else 'None') for kk, j in sorted(kid.items(), key=lambda x: x[1])))
            cases.append(lit)
            metas.append(meta)
            current[k] = v
            ck.count('redis dumps')
    finally:
        srv.hook = None
        fakeredis.uninstall()
    fails = ck.cases('redis_dump', IMPORTS, 'rcase', 'redis_case', cases, preamble=PREAMBLE)
    for i in (fails or []):
        ck.violation({'kind': 'correspondence', 'what': 'redis dump: command trace differs from the model (one SET)',
                      'redis': metas[i], 'coq_case': cases[i][:2000]})


# ============================================================================ strace cross-check of the interposer
STRACE_CALLS = ('open,openat,creat,rename,renameat,renameat2,unlink,unlinkat,fsync,fdatasync,mkdir,mkdirat,rmdir,'
                'truncate,ftruncate,link,linkat,symlink,symlinkat')


def child_main(path):
    """run a scenario on the real file_store without any interposition (the process strace watches)"""
    import json
    job = json.load(open(path))
    box = [file_store(job['jd'], compress_numpy=job['scenario']['compress'])]
    for op in job['scenario']['ops']:
        do_op(box, op, job['jd'])


def canon_temps(seq):
    names = {}
    out = []
    for ev in seq:
        ev2 = []
        for x in ev:
            if isinstance(x, str) and x.startswith('tempfiles/'):
                x = names.setdefault(x, 'tempfiles/T%d' % len(names))
            ev2.append(x)
        out.append(tuple(ev2))
    return out


def parse_strace(text, jd):
    import re
    seq = []
    dirs = set([''])
    pre = jd.rstrip('/')

    def rel(p):
        if p == pre:
            return ''
        if p.startswith(pre + '/'):
            return p[len(pre) + 1:]
        return None
    for line in text.splitlines():
        m = re.match(r'^\d+\s+(\w+)\((.*)\)\s+=\s+(-?\d+)', line)
        if not m or int(m.group(3)) < 0:
            continue
        call, args = m.group(1), m.group(2)
        paths = [rel(x) for x in re.findall(r'"([^"]*)"', args)]
        fdpaths = [rel(x) for x in re.findall(r'\d+<([^>]*)>', args)]
        if call in ('mkdir', 'mkdirat'):
            if paths and paths[-1] is not None:
                dirs.add(paths[-1])
                seq.append(('mkdir', paths[-1]))
        elif call in ('open', 'openat', 'creat'):
            if not paths or paths[-1] is None:
                continue
            if 'O_CREAT' in args and 'O_EXCL' in args:
                seq.append(('create_excl', paths[-1]))
            elif call == 'creat' or any(f in args for f in ('O_WRONLY', 'O_RDWR', 'O_TRUNC', 'O_CREAT', 'O_APPEND')):
                seq.append(('openw', paths[-1]))
        elif call in ('fsync', 'fdatasync'):
            if fdpaths and fdpaths[0] is not None:
                seq.append(('fsyncdir' if fdpaths[0] in dirs else 'fsync', fdpaths[0]))
        elif call in ('rename', 'renameat', 'renameat2'):
            ps = [x for x in paths]
            if len(ps) >= 2 and (ps[0] is not None or ps[1] is not None):
                seq.append(('rename', ps[0], ps[1]))
        elif call in ('unlink', 'unlinkat'):
            if paths and paths[-1] is not None:
                seq.append(('unlink', paths[-1]))
        else:
            ps = [x for x in paths + fdpaths if x is not None]
            if ps:
                seq.append(('other:' + call, ps[0]))
    return seq


def interposer_seq(rec):
    vol = fsx.CrashSim([], 0)
    seq = []
    for ev in rec.events:
        t = ev['op']
        if t == 'mkdir':
            seq.append(('mkdir', ev['dir']))
        elif t == 'create':
            seq.append(('create_excl' if ev.get('excl') and not ev.get('unseen') else 'openw', ev['name']))
        elif t == 'openw':
            seq.append(('openw', ev['name']))
        elif t == 'fsync':
            nm = [n for n, i in vol.vdir.items() if i == ev['ino']]
            seq.append(('fsync', nm[0] if nm else '?'))
        elif t == 'fsyncdir':
            seq.append(('fsyncdir', ev['dir']))
        elif t == 'rename':
            seq.append(('rename', ev['src'], ev['dst']))
        elif t == 'unlink':
            seq.append(('unlink', ev['name']))
        elif t not in ('write', 'close'):
            seq.append(('other:' + t, ev.get('name')))
        vol.apply(ev)
    return seq


def without_injected_faults(scn):
    """The scenario as an un-instrumented process can run it: the faults that only the interposer can inject - a rename
    failing with EXDEV ('exdev' ops), a signal at a primitive boundary ('raise_at'), an fsync failing with EIO
    ('fsync_eio') - are raised BEFORE the system call
    is made, so the kernel (and strace) never sees what the recorded trace shows there; they are taken out on both sides.
    Values whose pickling raises stay: that exception is real in both processes."""
    ops = []
    for op in scn['ops']:
        if op['op'] == 'exdev':
            continue
        if 'raise_at' in op or 'fsync_eio' in op:
            op = dict((k, v) for k, v in op.items() if k not in ('raise_at', 'fsync_eio'))
        ops.append(op)
    return dict(scn, ops=ops)


# size changes of an open file (file object .truncate() -> ftruncate(2), which no Python-level primitive announces; the
# interposer records them, like every data write, as a content change) are not part of the compared alphabet
NOT_COMPARED = ('other:ftruncate', 'other:truncate')


def strace_crosscheck(ck, scn, top, tag):
    """the primitives strace sees a separate, un-instrumented process issue on the jugdir = the interposer's trace"""
    import json
    import subprocess
    scn = without_injected_faults(scn)
    root = os.path.join(top, 'st_' + tag)
    os.makedirs(os.path.join(root, 'a'))
    os.makedirs(os.path.join(root, 'b'))
    rec = record(scn, os.path.join(root, 'a'), reader_stride=0)
    mine = canon_temps([e for e in interposer_seq(rec) if e[0] not in NOT_COMPARED])
    jd = os.path.join(root, 'b', 'jd')
    job = os.path.join(root, 'job.json')
    with open(job, 'w') as f:
        json.dump({'jd': jd, 'scenario': scenario_for_replay(scn)}, f)
    out = os.path.join(root, 'strace.txt')
    cmd = ['timeout', '300', 'strace', '-f', '-y', '-s', '300', '-o', out, '-e', 'trace=' + STRACE_CALLS,
           '/venv/bin/python', '-m', 'harness.c05', job]
    p = subprocess.run(cmd, stdout=subprocess.PIPE, stderr=subprocess.STDOUT, text=True, cwd=core.VERIF)
    if p.returncode != 0 or not os.path.exists(out):
        ck.count('strace cross-check: could not run')
        ck.notes.append('strace cross-check did not run: %s' % p.stdout[-300:])
        shutil.rmtree(root, ignore_errors=True)
        return
    theirs = canon_temps([e for e in parse_strace(open(out).read(), jd) if e[0] not in NOT_COMPARED])
    shutil.rmtree(root, ignore_errors=True)
    ck.count('strace cross-check: scenarios')
    ck.count('strace cross-check: primitives compared', len(theirs))
    ok = mine == theirs
    ck.obligations.append({'name': 'interposer trace = strace syscall trace (%s, %d primitives)' % (tag, len(theirs)),
                           'kind': 'correspondence', 'ok': ok, 'msg': ''})
    if not ok:
        k = 0
        while k < min(len(mine), len(theirs)) and mine[k] == theirs[k]:
            k += 1
        ck.violation({'kind': 'correspondence', 'what': 'interposer and strace disagree on the primitive trace',
                      'scenario': scenario_for_replay(scn), 'first_difference': k,
                      'interposer': [list(x) for x in mine[max(0, k - 3):k + 4]], 'strace': [list(x) for x in theirs[max(0, k - 3):k + 4]]},
                     found_input=False)


# ============================================================================ the check
def scenario_for_replay(scn):
    return {'name': scn.get('name'), 'compress': scn['compress'], 'ops': scn['ops']}


# ============================================================================ a dump in flight and another process
BYSTANDER_VALUES = [('pickle', lambda: {'a': 1, 'b': [1, 2, 3]}), ('ndarray', lambda: np.arange(12).reshape(3, 4)),
                    ('none', lambda: None), ('big', lambda: bytes(range(256)) * 1200)]
BYSTANDER_OPS = ['dump', 'dump-after-load', 'list', 'load', 'can_load', 'remove', 'pack', 'lock']


def bystander_one(vname, compress, bop, packed):
    """Process A dumps a value; at the instant its temporary file is complete and about to be renamed into place, a
    second process (a fresh store object on the same directory) performs ONE complete operation on OTHER keys.  A's dump
    must finish normally, and afterwards a fresh process sees A's value, and the other process's effect, completely.
    -> list of problems."""
    v = dict(BYSTANDER_VALUES)[vname]()
    probs = []
    with jugrun.scratch_dir('jugv_c05b_') as root:
        jd = os.path.join(root, 'jd')
        A = file_store(jd, compress_numpy=compress)
        A.dump('seed-value', b'c0ffee00000000000000000000000000000000k0')
        A.dump('seed-value-2', b'c1ffee00000000000000000000000000000000k1')
        if packed:
            A.update_pack()
        fired = []
        real_rename, real_replace = os.rename, os.replace
        tmp = os.path.join(jd, 'tempfiles')

        def other():
            B = file_store(jd)
            if bop == 'dump':
                B.dump('other-value', b'cbffee00000000000000000000000000000000kb')
            elif bop == 'dump-after-load':
                assert B.load(b'c0ffee00000000000000000000000000000000k0') == 'seed-value'
                B.dump('other-value', b'cbffee00000000000000000000000000000000kb')
            elif bop == 'list':
                sorted(B.list())
            elif bop == 'load':
                assert B.load(b'c0ffee00000000000000000000000000000000k0') == 'seed-value'
            elif bop == 'can_load':
                B.can_load(b'c0ffee00000000000000000000000000000000k0'), B.can_load(b'caffee00000000000000000000000000000000ka')
            elif bop == 'remove':
                B.remove(b'c0ffee00000000000000000000000000000000k0')
            elif bop == 'pack':
                B.update_pack()
            elif bop == 'lock':
                L = B.getlock(b'cbffee00000000000000000000000000000000kb')
                assert L.get()
                L.release()
            B.close()

        def mk(real):
            def f(src, dst, *a, **k):
                if not fired and isinstance(src, str) and os.path.dirname(os.path.abspath(src)) == os.path.abspath(tmp) \
                        and 'packs' not in dst:
                    fired.append(dst)
                    try:
                        other()
                    except Exception as e:
                        probs.append('the other process failed: %s: %s' % (type(e).__name__, str(e)[:200]))
                return real(src, dst, *a, **k)
            return f
        os.rename, os.replace = mk(real_rename), mk(real_replace)
        try:
            try:
                A.dump(v, b'caffee00000000000000000000000000000000ka')
            except Exception as e:
                probs.append('the dump in progress failed: %s: %s' % (type(e).__name__, str(e)[:200]))
        finally:
            os.rename, os.replace = real_rename, real_replace
        if not fired:
            return None
        C = file_store(jd)
        expect = {b'caffee00000000000000000000000000000000ka': v, b'c0ffee00000000000000000000000000000000k0': 'seed-value', b'c1ffee00000000000000000000000000000000k1': 'seed-value-2'}
        if bop in ('dump', 'dump-after-load'):
            expect[b'cbffee00000000000000000000000000000000kb'] = 'other-value'
        if bop == 'remove':
            del expect[b'c0ffee00000000000000000000000000000000k0']
        if any(p.startswith('the dump in progress failed') for p in probs):
            del expect[b'caffee00000000000000000000000000000000ka']
        for k, want in sorted(expect.items()):
            try:
                if not C.can_load(k):
                    probs.append('%s is not stored afterwards' % hx(k))
                    continue
                got = C.load(k)
                if not same(got, want):
                    probs.append('%s loads %s instead of %s' % (hx(k), describe(got), describe(want)))
            except Exception as e:
                probs.append('%s cannot be loaded afterwards: %s' % (hx(k), type(e).__name__))
        extra = sorted(hx(k) for k in C.list() if k not in expect)
        if extra:
            probs.append('keys nobody stored: %s' % extra)
        C.close()
    return probs


def bystander_section(ck):
    n = 0
    for compress in (False, True):
        for vname, _ in BYSTANDER_VALUES:
            for bop in BYSTANDER_OPS:
                for packed in (False, True):
                    probs = bystander_one(vname, compress, bop, packed)
                    if probs is None:
                        ck.count('bystander: the dump published without a rename out of tempfiles/ (not exercised)')
                        continue
                    n += 1
                    ck.count('bystander:%s' % bop)
                    ck.distinct(('bystander', vname, compress, bop, packed), True)
                    if probs:
                        ck.violation({'kind': 'impl-violation',
                                      'what': 'a dump in progress and a complete operation of another process disturb each other',
                                      'bystander': {'value': vname, 'compress_numpy': compress, 'other_process': bop,
                                                    'store_packed_before': packed},
                                      'problems': probs})
    if n == 0:
        ck.broken.append('C05 bystander section: no dump was exercised (dump no longer renames out of tempfiles/?)')


def run(ck):
    ck.prove()
    thorough = ck.tier == 'thorough'
    ck.trusted_base = core.DEFAULT_TRUSTED_BASE + [
        'C05: os-level interposer + operational crash simulator (harness/c05_fsx.py; the simulator is compared with '
        'Model.Fs.pl_bindings/i_synced inside coqc on every run); `complete` is decided by a strict decoder written '
        'in the harness; redis is the command-atomic fake server',
    ]
    ck.assumptions = [
        'Fs crash model (hypothesis of the theorems): process kill keeps the volatile view; power loss keeps, per '
        'directory entry, the binding at the last fsync of its directory or any later one (independently per entry, '
        'rename atomic per entry), keeps file data as of the last fsync not followed by a write and otherwise leaves '
        'arbitrary garbage; a directory created by the trace may vanish with its content',
        'a reader holds the inode it opened (POSIX open-file semantics); directory operations are atomic',
    ]
    rng = ck.rng
    bystander_section(ck)
    scns = fixed_scenarios(thorough)
    for _ in range(ck.n(15, 240)):
        scns.append(gen_scenario(rng, rng.randint(8, 18), big=thorough and rng.random() < 0.1))
    cap = ck.n(40, 512)
    max_points = ck.n(14, 400)
    tcases, tmetas, plcases, pucases, pumetas = [], [], [], [], []
    found_crash = set()          # scenario indices with a concrete failing crash image / reader point
    with jugrun.scratch_dir('jugv_c05_') as top:
        for si, scn in enumerate(scns):
            root = os.path.join(top, 's%d' % si)
            os.makedirs(root)
            stride = 1 if (thorough or si < 5 or si % 2 == 0) else 3
            rec = record(scn, root, reader_stride=stride)
            sr = scenario_for_replay(scn)
            ck.count('scenarios')
            ck.count('api operations', len(rec.ops))
            ck.count('reader points (fresh reader + delayed read)', rec.reader_points)
            if rec.failed is not None:
                ck.violation({'kind': 'impl-violation', 'what': 'store operation raised', 'scenario': sr,
                              'op_index': rec.failed[0], 'exception': rec.failed[1]})
            unseen = [ev for ev in rec.events if ev.get('unseen') and ev['op'] in ('create', 'unlink')]
            if unseen:
                # files appeared / vanished without an intercepted primitive: the recorded trace does not explain the
                # directory, so neither the trace validation nor crash images built from it mean anything
                ck.count('scenarios with incomplete interposition')
                ck.violation({'kind': 'harness-error', 'what': 'interposition incomplete: the recorded primitives do not explain the directory listing',
                              'scenario': sr, 'unexplained': [dict((k, v) for k, v in ev.items() if k != 'unseen') for ev in unseen[:8]]},
                             found_input=False)
                for o in rec.ops:
                    for pr in o.reader_problems[:3]:
                        ck.violation({'kind': 'impl-violation', 'what': 'concurrent reader: ' + pr['class'], 'scenario': sr,
                                      'op_index': o.index, 'reader': pr})
                    for cls, det in o.final_problems[:3]:
                        ck.violation({'kind': 'impl-violation', 'what': 'no crash: ' + cls, 'scenario': sr, 'op_index': o.index, 'detail': det})
                shutil.rmtree(root, ignore_errors=True)
                continue
            if rec.unsupported:
                ck.violation({'kind': 'correspondence', 'what': 'primitive outside the trace alphabet (link/symlink/rmdir/directory rename)',
                              'scenario': sr, 'primitives': rec.unsupported[:10]})
            for o in rec.ops:
                ck.count('op:%s' % o.op['op'])
                for pr in o.reader_problems[:3]:
                    found_crash.add(si)
                    ck.violation({'kind': 'impl-violation', 'what': 'concurrent reader: ' + pr['class'], 'scenario': sr,
                                  'op_index': o.index, 'reader': pr,
                                  'trace_of_operation': short_trace(rec.events, o.a, o.b)})
                for cls, det in o.final_problems[:3]:
                    ck.violation({'kind': 'impl-violation', 'what': 'no crash: ' + cls, 'scenario': sr, 'op_index': o.index, 'detail': det})
            rd = render(rec)
            for o in rec.ops:
                shape = op_shape(rec, rd, o)
                ck.distinct(shape, len(shape[1]) > 0)
                if o.op['op'] == 'dump' and (o.raised or expected_failure(o.op['val']) is not None):
                    how = (('value whose pickling raises %s' % o.op['val'][4]) if expected_failure(o.op['val']) is not None else
                           'signal at a primitive boundary' if 'raise_at' in o.op else
                           'fsync fails once with EIO' if 'fsync_eio' in o.op else 'EXDEV at the publishing rename')
                    ck.count('dump that lets an exception through (%s): %s' % (
                        how, 'raised' if o.raised else 'completed'))
                    ck.count('dump that lets an exception through: key %s' % ('held a result' if o.op['key'] in o.pre else 'was new'))
                    if getattr(o, 'old_value_dropped', False):
                        ck.count('dump that lets an exception through: key was in the pack and is left without a value (recorded observation)')
                elif o.op['op'] == 'dump':
                    v = o.post[o.op['key']]
                    kind = ('raw npy' if isinstance(v, np.ndarray) and not scn_compress_at(scn, o.index) else
                            'compressed npy' if isinstance(v, np.ndarray) else 'pickle')
                    if isinstance(v, np.ndarray) and v.dtype.hasobject:
                        kind += ' (object dtype: body pickled through the buffered file object)'
                    ck.count('dump:%s' % kind)
                    if o.op['key'] in o.pre:
                        ck.count('dump:re-dump of an existing key')
                    sz = [len(rec.blobs.data[ev['cid']]) for ev in rec.events[o.a:o.b] if ev['op'] == 'rename' and not ev['dst'].startswith('packs/')]
                    if sz:
                        s = sz[-1]
                        ck.count('dump size:%s' % ('0 B' if s == 0 else '<=512 B' if s <= 512 else '<=64 KB' if s <= 65536 else '<=1 MB' if s <= (1 << 20) else '>1 MB'))
                    if any(ev['op'] == 'rename' and ev['dst'] == 'packs/jugpack' for ev in rec.events[o.a:o.b]):
                        ck.count('dump:key was in the pack (pack rewritten first)')
            tcases.append(tie_case(rec, rd))
            tmetas.append((si, rec, rd))
            if rd['packed_unlinks']:
                pucases.append(packed_case(rec, rd))
                pumetas.append((si, rec, rd))
                ck.count('update_pack unlinks checked for pack coverage in every view', len(rd['packed_unlinks']))
            plc, ncp, nex = pl_tie_case(rec, rd, rng, ck.n(8, 30))
            plcases.append(plc)
            ck.count('crash-simulator tie: checkpoints', ncp)
            ck.count('crash-simulator tie: checkpoints with exhaustive subset enumeration', nex)
            if si < 3:
                ck.sample({'scenario': scn.get('name'), 'op': rec.ops[0].op, 'trace': short_trace(rec.events, rec.ops[0].a, rec.ops[0].b)})

            def report(o, crash, img, probs, trace, si=si, sr=sr, rec=rec):
                found_crash.add(si)
                cls = probs[0][0]
                ck.violation({'kind': 'impl-violation', 'what': 'crash (%s): %s' % (crash['mode'], cls), 'scenario': sr,
                              'op_index': o.index, 'operation': o.op, 'crash': crash,
                              'problems': [list(p) for p in probs[:6]],
                              'image': {n: (t if t[0] == 'g' else '%s (%d bytes)' % (t, len(rec.blobs.data[int(t[1:])]))) for n, t in sorted(img.items())},
                              'trace_of_operation': trace})
            heavy = any(len(b) > (1 << 19) for b in rec.blobs.data.values())
            st = search_scenario(ck, rec, root, cap if not heavy else min(cap, 24), max_points, report)
            ck.count('crash images enumerated: process kill', st['kill'])
            ck.count('crash images enumerated: power loss', st['pl'])
            ck.count('crash images identical to one already checked for the same operation (not re-checked)', st['dedup'])
            ck.count('crash images on which lock cleanup + dump + read back + pack + remove were run (distinct residue)', st['writable'])
            ck.case_total += st['kill'] + st['pl'] - st['dedup'] + rec.reader_points
            ck.count('crash points with exhaustive lossy subsets', st['pl_exhaustive_points'])
            ck.count('crash points with sampled lossy subsets', st['pl_sampled_points'])
            shutil.rmtree(root, ignore_errors=True)
    # ---- Coq: protocol acceptance, final state, views, crash-simulator tie
    for nm_, chk in (('protocol', 'protocol_case'), ('final_state', 'state_case'), ('all_prefix_views', 'views_case')):
        fails = ck.cases(nm_, IMPORTS, TCASE, chk, tcases, shard=4, preamble=PREAMBLE)
        for i in (fails or []):
            si, rec, rd = tmetas[i]
            k, why = first_reject(rd['fsops'], set(rd['nf']), set(rd['cc']))
            opi = None
            if k is not None:
                for o in rec.ops:
                    if rd['evmap'][o.a] <= k < rd['evmap'][o.b]:
                        opi = o.index
            obj = {'kind': 'correspondence', 'what': 'trace validation: %s' % nm_, 'scenario': scenario_for_replay(rec.scn),
                   'check': chk, 'first_rejected_step': k, 'reason (harness mirror of Fs.guard)': why, 'op_index': opi,
                   'rejected_primitive': fsop_lit(rd['fsops'][k]) if k is not None else None,
                   'trace_of_operation': short_trace(rec.events, rec.ops[opi].a, rec.ops[opi].b) if opi is not None else None,
                   'interning': {'dirs': rd['names'].dirs, 'nonfinal': rd['nf'], 'complete': rd['cc']}}
            ck.violation(obj, found_input=(si in found_crash))
    fails = ck.cases('update_pack_coverage', IMPORTS, 'pucase', 'packed_case', pucases, shard=4, preamble=PREAMBLE)
    for i in (fails or []):
        si, rec, rd = pumetas[i]
        ck.violation({'kind': 'correspondence', 'what': 'update_pack unlinks a result that is not in the pack in every view (volatile / after power loss)',
                      'scenario': scenario_for_replay(rec.scn),
                      'unlinks': [[k, fsop_lit(rd['fsops'][k]), cs] for (k, n, cs) in rd['packed_unlinks']][:10]},
                     found_input=(si in found_crash))
    fails = ck.cases('crashsim_vs_model', IMPORTS, 'plcase', 'pl_case', plcases, shard=4, preamble=PREAMBLE)
    for i in (fails or []):
        si, rec, rd = tmetas[i]
        ck.violation({'kind': 'correspondence', 'what': 'crash simulator and Model.Fs power-loss relation disagree',
                      'scenario': scenario_for_replay(rec.scn)}, found_input=False)
    redis_part(ck, rng, ck.n(40, 400))
    if shutil.which('strace'):
        with jugrun.scratch_dir('jugv_c05s_') as top:
            fx = fixed_scenarios(False)
            todo = [('pack_centric', fx[3])] if not thorough else (
                [(s['name'].replace(' ', '_'), s) for s in fx] + [('random%d' % j, gen_scenario(rng, 14)) for j in range(6)])
            for tag, scn in todo:
                strace_crosscheck(ck, scn, top, tag)
    else:
        ck.count('strace cross-check: strace not available')


def scn_compress_at(scn, index):
    c = scn['compress']
    for op in scn['ops'][:index]:
        if op['op'] == 'reopen':
            c = op['compress']
    return c


# ============================================================================ replay
def replay(obj):
    """Re-execute one replay JSON against the repository under test."""
    if 'redis' in obj:
        return replay_redis(obj)
    if 'bystander' in obj:
        b = obj['bystander']
        probs = bystander_one(b['value'], b['compress_numpy'], b['other_process'], b['store_packed_before'])
        print('process A dumps a %s value; just before its rename another process does: %s' % (b['value'], b['other_process']))
        for p in probs or []:
            print('PROBLEM:', p)
        if not probs:
            print('both operations completed and a fresh process sees both effects')
        return 1 if probs else 0
    scn = obj['scenario']
    opi = obj.get('op_index')
    with jugrun.scratch_dir('jugv_c05r_') as root:
        rec = record(scn, root, reader_stride=1 if 'reader' in obj else 0,
                     upto=(opi + 1) if opi is not None else None, only_reader_op=opi)
        if rec.failed is not None:
            print('operation %d raised %s' % rec.failed)
            return 1
        rc = 0
        if 'reader' in obj:
            o = rec.ops[opi]
            print('operation', o.op)
            for t in short_trace(rec.events, o.a, o.b):
                print('   ', t)
            for pr in o.reader_problems:
                print('READER VIOLATION at primitive boundary %d (%s): %s: %s - %s' % (pr['point'], pr['at'], pr['reader'], pr['class'], pr['detail']))
                rc = 1
            if not rc:
                print('concurrent reader: every loadable key loaded an allowed value at all %d boundaries' % o.npoints)
            return rc
        if 'crash' in obj:
            o = rec.ops[opi]
            crash = obj['crash']
            evs, pos = expand_writes(rec.events, rec.blobs)
            a = pos[o.a]
            p = a + crash['rel']
            print('operation', o.op)
            for j, t in enumerate(short_trace(evs, a, pos[o.b])):
                print('  %s %2d %s' % ('*' if j == crash['rel'] else ' ', j, t))
            if crash['mode'] == 'kill':
                img = kill_image(fsx.CrashSim(evs, p))
                print('process killed before primitive %d' % crash['rel'])
            else:
                sim = fsx.CrashSim(evs, p, durable_before=a)
                imgs = dict(pl_images(sim, crash['mask']))
                img = imgs.get(crash['garbage'], list(imgs.values())[0])
                print('power lost before primitive %d; lost: %s; un-fsynced data: %s' % (crash['rel'], sim.lost_for_mask(crash['mask']), crash['garbage']))
            pool = Pool(root, rec.blobs)
            imgdir = os.path.join(root, 'img')
            pool.materialise(img, imgdir)
            for n, t in sorted(img.items()):
                print('   image: %-60s %s' % (n, t))
            probs = check_store(imgdir, o.ctx)
            wkeys = sorted(o.targets)[:1] + [k for k in rec.universe if k not in o.targets][:1]
            probs = probs + check_writable(imgdir, wkeys)
            print('then: lock cleanup, dump of %s, read back, update_pack, read back, remove' % [k[:8] for k in wkeys])
            print('expected: every loadable key loads one of', {k: [describe(x) for x in ([o.pre[k]] if k in o.pre else []) + ([o.post[k]] if k in o.targets and k in o.post else [])]
                                                                  for k in rec.universe if k in o.pre or k in o.post})
            for cls, det in probs:
                print('VIOLATION: %s: %s' % (cls, det))
                rc = 1
            if not rc:
                print('fresh file_store on the crash image: all-or-nothing holds')
            return rc
        # the finished operations: a fresh process must see exactly the expected key-value map
        for o in rec.ops:
            for cls, det in o.final_problems:
                print('VIOLATION after operation %d %s (no crash): %s: %s' % (o.index, o.op, cls, det))
                rc = 1
        if 'kind' in obj and obj['kind'] == 'impl-violation' and obj.get('what', '').startswith('no crash'):
            if not rc:
                print('after every operation a fresh file_store sees exactly the expected results')
            return rc
        # correspondence replay: re-render and ask Coq again
        rd = render(rec)
        k, why = first_reject(rd['fsops'], set(rd['nf']), set(rd['cc']))
        print('harness mirror: first rejected step', k, why)
        ck = core.Check('C05', 'quick', obj.get('seed', 0))
        mrc, out = core.make(['Model/Fs.vo'])
        case = tie_case(rec, rd)
        for nm_, chk in (('protocol', 'protocol_case'), ('final_state', 'state_case')):
            fails = ck.cases('replay_' + nm_, IMPORTS, TCASE, chk, [case], preamble=PREAMBLE) if mrc == 0 else None
            print('%s: %s' % (nm_, 'accepted' if fails == [] else ('REJECTED' if fails else 'could not evaluate')))
            if fails != []:
                rc = 1
        return rc


def replay_redis(obj):
    m = obj['redis']
    srv = fakeredis.FakeServer()
    fakeredis.install(srv)
    try:
        store = redis_mod.redis_store(REDIS_URL)
        v = mkvalue(m['val'])
        kb = bx(m['key'])
        saw = []

        def look(where):
            r = redis_mod.redis_store(REDIS_URL)
            try:
                if r.can_load(kb) and not same(r.load(kb), v):
                    saw.append('%s: loadable, load returned another value' % where)
            except Exception as e:
                saw.append('%s: loadable, load raised %s' % (where, type(e).__name__))

        def hook(cid, cmd, args, n=[0]):
            srv.hook = None
            try:
                look('before command %d (%s)' % (n[0], cmd))
                n[0] += 1
            finally:
                srv.hook = hook
        srv.hook = hook
        try:
            store.dump(v, kb)
        except Exception as e:
            print('dump raised %s: %s' % (type(e).__name__, str(e)[:160]))
            return 1
        finally:
            srv.hook = None
        cmds = [(t[1], t[2][0][:30], sum(len(a) for a in t[2][1:] if isinstance(a, bytes))) for t in srv.trace if t[0] == 1]
        print('commands of the writer (name, key, payload bytes):', cmds)
        for x in saw:
            print('READER / WRITER-DEATH VIOLATION', x)
        payload = srv.data.get(b'result:' + kb)
        ok, dv = decode_strict(base64.b64decode(payload) if payload else b'') if payload is not None else (False, None)
        good = [c[0] for c in cmds] == ['SET'] and ok and same(dv, v) and not saw
        print('one SET of the complete encoding, nothing else ever visible:', good)
        return 0 if good else 1
    finally:
        srv.hook = None
        fakeredis.uninstall()


if __name__ == '__main__':
    import sys
    child_main(sys.argv[1])
