"""C14 - nothing after a barrier runs before everything before it is complete; bvalue returns the
stored value or stops the load; `jug execute` reloads until no barrier is closed and ends with the
sequential values; `jug check` is non-zero while a barrier is closed.

Proof: Props/C14.v over Model/Loader.v (all programs, all stores).
Tie: generated jugfiles (harness/loadergen.py: several barrier()/bvalue() calls, value-dependent
structure, compounds with barriers inside, marker statements after every barrier/bvalue) are loaded
with the REAL jug.init against every subset of the results of the sequential evaluation (all
subsets for <= 6 tasks, a structured sample above; some with a value replaced so that other branches
are taken), the REAL CheckCommand is run on each state, and the REAL `jug execute` is run to its end
on dict and file stores; coqc compares the loaded task list (by interned real hash), the markers,
the __jug__hasbarrier__ flag, the exit code of check, the final store and the number of loads with
Model.Loader (load / check / run_phases / seq_eval).
Search: oracles evaluated on the real objects, independent of Coq: markers record at the moment they
run whether every task defined so far can be loaded / whether bvalue's result is the stored value;
check vs. hasbarrier; final store vs. a plain Python sequential evaluation of the program."""
import itertools
import os
import shutil

from . import core
from .core import natlit, boollit
from . import jugrun
from . import loadergen as lg
import jug
import jug.task
from jug.backends.dict_store import dict_store
from jug.backends.file_store import file_store

EVIDENCE = dict(
    level='proof',
    rule='one evaluation = one (jugfile, store state) -> real jug.init + real check, or one (jugfile, start state, '
         'backend) -> real `jug execute` to its end; non-trivial when the jugfile has at least one barrier()/bvalue(); '
         'distinct = distinct (program term, store literal)',
    explanation='Coq theorems over the loader / reload-loop model + differential evaluation of the model against '
                'jug.init, CheckCommand and ExecuteCommand on generated jugfiles at every subset of earlier results',
)

# the D18 witness (check.py pruned the dependencies of a loadable task): u=f(1); t=g(u); barrier(); w=f(10)
# with only t stored.  Runs first; every subset of {u, t, w} is tried, {t} among them.
D18 = {'op': 'def', 'var': 't1', 'fn': 'f', 'args': [{'c': 1}, {'c': 0}],
       'k': {'op': 'def', 'var': 't2', 'fn': 'f', 'args': [{'t': 't1'}, {'c': 1}],
             'k': {'op': 'barrier',
                   'k': {'op': 'mark', 'n': 3, 'kind': 'bar',
                         'k': {'op': 'def', 'var': 't4', 'fn': 'f', 'args': [{'c': 2}, {'c': 2}],
                               'k': {'op': 'ret', 'arg': {'c': 0}}}}}}}
# two barriers, a value-dependent middle, a compound with a barrier inside (the probe of DESIGN.md)
PROBE = {'op': 'def', 'var': 't1', 'fn': 'f', 'args': [{'c': 1}, {'c': 1}],
         'k': {'op': 'def', 'var': 't2', 'fn': 'g', 'args': [{'t': 't1'}, {'c': 2}],
               'k': {'op': 'barrier',
                     'k': {'op': 'mark', 'n': 3, 'kind': 'bar',
                           'k': {'op': 'bvalue', 'var': 'v4', 'arg': {'t': 't2'}, 'plain_value': True, 'branches': {
                               '0': {'op': 'mark', 'n': 5, 'kind': 'bv', 'ref': {'t': 't2'}, 'vvar': 'v4',
                                     'k': {'op': 'def', 'var': 't6', 'fn': 'f', 'args': [{'t': 't2'}, {'v': 'v4', 'val': 0}],
                                           'k': {'op': 'ret', 'arg': {'c': 0}}}},
                               '1': {'op': 'mark', 'n': 7, 'kind': 'bv', 'ref': {'t': 't2'}, 'vvar': 'v4',
                                     'k': {'op': 'compound', 'var': 'c8', 'name': 'comp8', 'params': ['t1', 't2'],
                                           'body': {'op': 'def', 'var': 't9', 'fn': 'g', 'args': [{'t': 't1'}, {'t': 't2'}],
                                                    'k': {'op': 'barrier',
                                                          'k': {'op': 'mark', 'n': 10, 'kind': 'bar',
                                                                'k': {'op': 'def', 'var': 't11', 'fn': 'f', 'args': [{'t': 't9'}, {'c': 1}],
                                                                      'k': {'op': 'ret', 'arg': {'tup': [{'t': 't9'}, {'t': 't11'}]}}}}}},
                                           'k': {'op': 'def', 'var': 't12', 'fn': 'tsum', 'args': [{'t': 'c8'}],
                                                 'k': {'op': 'bvalue', 'var': 'v13', 'arg': {'t': 't12'}, 'plain_value': False, 'branches': {
                                                     '*': {'op': 'mark', 'n': 14, 'kind': 'bv', 'ref': {'t': 't12'}, 'vvar': 'v13',
                                                           'k': {'op': 'def', 'var': 't15', 'fn': 'f', 'args': [{'t': 't12'}, {'c': 2}],
                                                                 'k': {'op': 'ret', 'arg': {'c': 0}}}}}}}}},
                               '2': {'op': 'mark', 'n': 16, 'kind': 'bv', 'ref': {'t': 't2'}, 'vvar': 'v4',
                                     'k': {'op': 'def', 'var': 't17', 'fn': 'pair', 'args': [{'t': 't1'}, {'t': 't2'}],
                                           'k': {'op': 'barrier',
                                                 'k': {'op': 'mark', 'n': 18, 'kind': 'bar',
                                                       'k': {'op': 'def', 'var': 't19', 'fn': 'pfst', 'args': [{'t': 't17'}],
                                                             'k': {'op': 'ret', 'arg': {'c': 0}}}}}}}}}}}}}
CORPUS = [('D18-witness', D18), ('design-probe', PROBE)]

PREAMBLE = lg.COQ_PREAMBLE + '''
Definition iobs := (store * (list tid * list mark * bool * nat))%type.
Definition chk_one (p : jprog) (so : iobs) : bool :=
  let '(st, (ts, ms, hb, ck)) := so in
  let l := load st p in
  pos_list_eqb (ids (l_tasks l)) ts && pos_list_eqb (l_marks l) ms && Bool.eqb (l_hasbarrier l) hb &&
  Nat.eqb (check st p) ck.
Definition chk_init (c : jprog * list iobs) : bool := let '(p, obs) := c in forallb (chk_one p) obs.
(* start store, final store, number of loads, does the start store agree with the sequential values *)
Definition eobs := (store * store * nat * bool)%type.
Definition chk_run (p : jprog) (s : spine) (r : eobs) : bool :=
  let '(st0, fin, loads, ag) := r in
  let fuel := if ag then (sbn s + 1)%nat else 12%nat in
  let '(stF, exs) := run_phases fuel st0 p in
  store_eqb stF fin &&
  (if ag then Nat.eqb (List.length exs) loads && store_sub (stop_env s) fin && store_sub fin (slog s) &&
              negb (l_hasbarrier (load fin p)) && Nat.eqb (check fin p) 0
   else true).
Definition chk_exec (c : jprog * list eobs) : bool :=
  let '(p, runs) := c in
  match seq_eval p with
  | Some s => functionalb (slog s) && forallb (chk_run p s) runs
  | None => false
  end.
'''
INIT_TYPE = 'jprog * list iobs'
EXEC_TYPE = 'jprog * list eobs'


def tuplify(v):
    if isinstance(v, list):
        return tuple(tuplify(x) for x in v)
    return v


def perturb(v, rng):
    if isinstance(v, tuple):
        i = rng.randrange(2)
        w = list(v)
        w[i] = (w[i] + 1 + rng.randrange(2)) % lg.M
        return tuple(w)
    return (v + 1 + rng.randrange(2)) % lg.M


def choose_subsets(keys, rng, cap):
    n = len(keys)
    if n <= 6:
        return [list(c) for r in range(n + 1) for c in itertools.combinations(range(n), r)]
    seen, out = set(), []

    def add(ix):
        t = tuple(sorted(ix))
        if t not in seen:
            seen.add(t)
            out.append(list(t))
    for i in range(n + 1):
        add(range(i))                                  # what a sequential run leaves after i tasks
    for i in range(n):
        add([j for j in range(n) if j != i])           # a hole
        add([i])
    tries = 0
    while len(out) < cap and tries < 4 * cap:
        tries += 1
        p = rng.choice([0.3, 0.5, 0.7, 0.85])
        add([j for j in range(n) if rng.random() < p])
    return out[:max(cap, 2 * n + 2)]


def obs_marks(log):
    return [n for (n, _, _) in log]


def marker_oracle(log):
    bad = []
    for n, kind, d in log:
        if kind == 'bar' and not all(d):
            bad.append(('marker after barrier() ran while a task before it had no result', n, d))
        if kind == 'bv' and not d[0]:
            bad.append(('bvalue() returned although its argument has no stored result', n, d))
        elif kind == 'bv' and not d[1]:
            bad.append(('bvalue() returned a value that is not the stored one', n, d))
    return bad


class ProgramRun:
    """everything the tie does with one generated program"""
    def __init__(self, ck, sc, name, prog):
        self.ck, self.sc, self.name, self.prog = ck, sc, name, prog
        self.it = lg.Interner(prog)
        self.term = lg.render_coq(prog, self.it)
        self.log, self.scope, self.nb, self.seq_marks = lg.seq_oracle(prog)
        self.R = []                                   # [(hash, seq value)] in evaluation order, first occurrence
        seen = set()
        for d, v in self.log:
            h = self.it.hash_of_desc[d]
            if h not in seen:
                seen.add(h)
                self.R.append((h, v))
        self.init_obs = []                            # coq literals
        self.init_meta = []
        self.exec_obs = []
        self.exec_meta = []
        sc.write(prog)

    def viol(self, what, **kw):
        self.ck.violation(dict({'kind': 'impl-violation', 'what': what, 'program': self.name, 'prog': self.prog,
                                'jugfile': lg.render_python(self.prog)}, **kw))

    def one_state(self, items, backend, root):
        """items: [(hash, value)] -> real init + check on a store holding exactly those"""
        ck = self.ck
        if backend == 'file':
            jd = os.path.join(root, 'jd')
            shutil.rmtree(jd, ignore_errors=True)
            store = file_store(jd)
        else:
            store = dict_store()
        lg.fill_store(store, items)
        state = [[h, v] for h, v in items]
        try:
            r = lg.real_init(self.sc, store)
        except SystemExit:
            self.viol('the jugfile failed to load', store=state, backend=backend)
            ck.count('init: jugfile crashed')
            return
        code = lg.real_check(r['store'], r['space'])
        for what, n, d in marker_oracle(r['marks']):
            self.viol(what, store=state, backend=backend, marker=n, detail=d)
        loadable = [bool(t.can_load()) for t in r['objs']]
        if r['hasbarrier'] and code == 0:
            self.viol('check returned 0 while __jug__hasbarrier__ is set', store=state, backend=backend)
        if r['hasbarrier'] and all(loadable):
            self.viol('barrier closed although every loaded task has a result', store=state, backend=backend)
        if (code == 0) != all(loadable):
            self.viol('check exit code does not say whether every loaded task has a result', store=state,
                      backend=backend, code=code, loadable=loadable)
        it = self.it
        lit = '(%s, ([%s], [%s], %s, %s))' % (
            lg.coq_store(items, it), '; '.join(str(it.hash_id(h)) for h in r['tasks']),
            '; '.join(str(n) for n in obs_marks(r['marks'])), boollit(r['hasbarrier']), natlit(code))
        self.init_obs.append(lit)
        self.init_meta.append({'store': state, 'backend': backend, 'tasks': r['tasks'], 'names': r['names'],
                               'marks': obs_marks(r['marks']), 'hasbarrier': r['hasbarrier'], 'check': code})
        ck.count('init: hasbarrier' if r['hasbarrier'] else 'init: fully loaded')
        ck.count('init: backend %s' % backend)
        ck.count('check: exit %d' % code)
        ck.distinct((self.term, lit), self.nb > 0)
        if backend == 'file':
            store.close()

    def states(self, rng, cap, root):
        keys = self.R
        subs = choose_subsets(keys, rng, cap)
        for j, ix in enumerate(subs):
            items = [keys[i] for i in ix]
            if items and rng.random() < 0.18:
                # a stored value that is not the sequential one: the loader must follow the STORE
                k = rng.randrange(len(items))
                items = list(items)
                items[k] = (items[k][0], perturb(items[k][1], rng))
                self.ck.count('init: store with a non-sequential value')
            backend = 'file' if (j % 11 == 5) else 'dict'
            self.one_state(items, backend, root)

    def one_exec(self, items, backend, root, agrees):
        ck = self.ck
        via_main = False
        if backend == 'file':
            jd = os.path.join(root, 'jdx')
            shutil.rmtree(jd, ignore_errors=True)
            store = file_store(jd)
            lg.fill_store(store, items)
            store.close()
            via_main = (ck.dist.get('execute: backend file', 0) % 2 == 0)
            target = jd
        else:
            store = dict_store()
            lg.fill_store(store, items)
            target = store
        state = [[h, v] for h, v in items]
        try:
            code, mlog, out = lg.real_execute(self.sc, target, via_main=via_main)
        except lg.HarnessError:
            raise
        except Exception as e:                     # the code under test raised: a finding, not a harness failure
            self.viol('jug execute raised an exception', start=state, backend=backend,
                      exception='%s: %s' % (type(e).__name__, str(e)[:300]))
            ck.count('execute: raised')
            return
        if code != 0:
            self.viol('jug execute exited with an error', start=state, backend=backend, code=code, output=out[-600:])
            ck.count('execute: error exit')
            return
        if backend == 'file':
            store = file_store(jd)
        final = lg.store_items(store)
        loads = sum(1 for (n, _, _) in mlog if n == lg.TOPMARK)
        for what, n, d in marker_oracle(mlog):
            self.viol(what, start=state, backend=backend, marker=n, detail=d, during='execute')
        if agrees:
            # the theorem's conclusion, evaluated in Python: nothing contradicts the sequential values, every task
            # in scope at the end of the jugfile is stored, nothing of the start store is lost
            exp = dict(self.R)
            top = [self.it.hash_of_desc[d] for d, _ in self.scope]
            bad = [k for k in final if k not in exp or final[k] != exp[k]] + [k for k in top if k not in final] + \
                  [h for h, _ in items if h not in final]
            if bad:
                self.viol('jug execute ended with a store different from the sequential evaluation', start=state,
                          backend=backend, expected=sorted(exp.items()), observed=sorted(final.items()), loads=loads,
                          keys=sorted(set(bad)), in_scope_at_end=top)
        r = lg.real_init(self.sc, store)
        code2 = lg.real_check(r['store'], r['space'])
        if r['hasbarrier'] or code2 != 0:
            self.viol('after jug execute finished, a barrier is still closed or check is non-zero', start=state,
                      backend=backend, hasbarrier=r['hasbarrier'], check=code2)
        it = self.it
        lit = '(%s, %s, %s, %s)' % (lg.coq_store(items, it), lg.coq_store(sorted(final.items()), it), natlit(loads), boollit(agrees))
        self.exec_obs.append(lit)
        self.exec_meta.append({'start': state, 'backend': backend, 'via_main': via_main, 'final': sorted(final.items()),
                               'loads': loads, 'agrees': agrees})
        ck.count('execute: backend %s%s' % (backend, ' (CLI main)' if via_main else ''))
        ck.count('execute: %d load(s)' % loads)
        ck.distinct((self.term, lit), self.nb > 0)
        if backend == 'file':
            store.close()

    def executes(self, rng, root, k):
        keys = self.R
        n = len(keys)
        self.one_exec([], 'dict', root, True)
        self.one_exec([], 'file', root, True)
        for j in range(k):
            ix = [i for i in range(n) if rng.random() < rng.choice([0.3, 0.6])]
            items = [keys[i] for i in ix]
            agrees = True
            if items and rng.random() < 0.25:
                q = rng.randrange(len(items))
                items[q] = (items[q][0], perturb(items[q][1], rng))
                agrees = False
            self.one_exec(items, 'file' if j % 3 == 2 else 'dict', root, agrees)


def run(ck):
    ck.prove()
    ck.trusted_base = core.DEFAULT_TRUSTED_BASE + [
        'C14: one worker (the multi-worker protocol is C01/C02); the task identifiers of the model are the real '
        'hashes, predicted for every branch with jug.task.Task(...).hash() on stub functions (harness/loadergen.py); '
        'values are integers mod 3 and pairs of them; task functions are rendered by hand in Gallina (fn_f ...)',
    ]
    ck.assumptions = ['C14_reload_loop: the sequential evaluation succeeds (every task reference is in scope), gives one '
                      'value per identifier (checked by functionalb on every execute case), and the start store does not '
                      'contradict it', 'C14_closed_barrier_*: Python scoping (wf [] p)']
    rng = ck.rng
    nprog = ck.n(220, 2600)
    cap = ck.n(36, 80)
    nexec = ck.n(2, 4)
    home = os.environ.get('HOME')
    init_cases, init_runs, exec_cases, exec_runs = [], [], [], []
    with jugrun.scratch_dir('jugv_c14_') as root:
        os.environ['HOME'] = root
        sc = lg.Scratch(root)
        try:
            progs = list(CORPUS)
            for i in range(nprog):
                style = i % 4
                if style == 0:
                    prog = lg.generate(rng, max_tasks=5, max_b=3, max_comp=1, branch_depth=2)
                elif style == 1:
                    prog = lg.generate(rng, max_tasks=6, max_b=4, max_comp=1, branch_depth=1, barrier_bias=1.8)
                elif style == 2:
                    prog = lg.generate(rng, max_tasks=7, max_b=3, max_comp=2, branch_depth=2, compound_bias=0.6)
                else:
                    prog = lg.generate(rng, max_tasks=4, max_b=4, max_comp=0, branch_depth=2, barrier_bias=2.5)
                progs.append(('gen%d' % i, prog))
            for name, prog in progs:
                pr = ProgramRun(ck, sc, name, prog)
                full = name in ('D18-witness',)
                pr.states(rng, 64 if full else cap, root)
                pr.executes(rng, root, nexec)
                init_cases.append('(%s,\n [%s])' % (pr.term, ';\n  '.join(pr.init_obs)))
                exec_cases.append('(%s,\n [%s])' % (pr.term, ';\n  '.join(pr.exec_obs)))
                init_runs.append(pr)
                exec_runs.append(pr)
                ck.count('programs')
                ck.count('programs with %d barrier/bvalue on the sequential path' % min(pr.nb, 4))
                if any(d[1].startswith('comp') for d, _ in pr.log):
                    ck.count('programs with a compound on the sequential path')
                if len(ck.samples) < 4 and pr.nb >= 2:
                    ck.sample({'jugfile': lg.render_python(prog)[len(lg.PRELUDE):], 'sequential_values': [[repr(d), v] for d, v in pr.log],
                               'states_tried': len(pr.init_obs), 'first_states': pr.init_meta[:3], 'executes': pr.exec_meta[:2]})
            jugrun.fresh()
        finally:
            sc.close()
            if home is None:
                os.environ.pop('HOME', None)
            else:
                os.environ['HOME'] = home
    nobs = sum(len(pr.init_obs) + len(pr.exec_obs) for pr in init_runs)
    fails = ck.cases('init', lg.COQ_IMPORTS, INIT_TYPE, 'chk_init', init_cases, shard=12, preamble=PREAMBLE)
    for i in (fails or [])[:3]:
        pin_init(ck, init_runs[i])
    if fails and len(fails) > 3:
        ck.count('init: further programs on which model and jug disagree (not pinned)', len(fails) - 3)
    fails = ck.cases('exec', lg.COQ_IMPORTS, EXEC_TYPE, 'chk_exec', exec_cases, shard=12, preamble=PREAMBLE)
    for i in (fails or [])[:3]:
        pin_exec(ck, exec_runs[i])
    if fails and len(fails) > 3:
        ck.count('execute: further programs on which model and jug disagree (not pinned)', len(fails) - 3)
    ck.case_total = nobs                   # evaluations = (jugfile, store state) pairs, not programs


def pin_init(ck, pr):
    """which store states of this program disagree with the model"""
    singles = ['(%s,\n [%s])' % (pr.term, o) for o in pr.init_obs]
    fails = ck.cases('init_pin', lg.COQ_IMPORTS, INIT_TYPE, 'chk_init', singles, shard=100, preamble=PREAMBLE)
    for j in (fails if fails else [0])[:3]:
        ck.violation({'kind': 'correspondence', 'what': 'loader: model and jug.init / check disagree', 'program': pr.name,
                      'prog': pr.prog, 'jugfile': lg.render_python(pr.prog), 'interning': pr.it.table(),
                      'observed': pr.init_meta[j], 'store': pr.init_meta[j]['store'], 'backend': pr.init_meta[j]['backend'],
                      'coq_program': pr.term, 'coq_observation': pr.init_obs[j]})


def pin_exec(ck, pr):
    singles = ['(%s,\n [%s])' % (pr.term, o) for o in pr.exec_obs]
    fails = ck.cases('exec_pin', lg.COQ_IMPORTS, EXEC_TYPE, 'chk_exec', singles, shard=100, preamble=PREAMBLE)
    for j in (fails if fails else [0])[:3]:
        ck.violation({'kind': 'correspondence', 'what': 'reload loop: model and jug execute disagree', 'program': pr.name,
                      'prog': pr.prog, 'jugfile': lg.render_python(pr.prog), 'interning': pr.it.table(),
                      'observed': pr.exec_meta[j], 'start': pr.exec_meta[j]['start'], 'backend': pr.exec_meta[j]['backend'],
                      'coq_program': pr.term, 'coq_observation': pr.exec_obs[j]})


# ---------------------------------------------------------------------------- replay
def replay(obj):
    prog = obj['prog']
    rc = 0
    with jugrun.scratch_dir('jugv_c14r_') as root:
        home = os.environ.get('HOME')
        os.environ['HOME'] = root
        sc = lg.Scratch(root)
        try:
            ck = lg.ReplayCheck('C14', obj.get('seed', 0))
            pr = ProgramRun(ck, sc, obj.get('program', 'replay'), prog)
            print(lg.render_python(prog)[len(lg.PRELUDE):])
            print('sequential values:', [(pr.it.desc_id(d), v) for d, v in pr.log])
            if 'start' in obj:
                items = [(h, tuplify(v)) for h, v in obj['start']]
                agrees = all(dict(pr.R).get(h) == v for h, v in items)
                pr.one_exec(items, obj.get('backend', 'dict'), root, agrees)
                print('execute from', [(pr.it.hash_id(h), v) for h, v in items], '->', pr.exec_meta[-1:] or 'failed')
                cases, typ, chk = ['(%s,\n [%s])' % (pr.term, o) for o in pr.exec_obs], EXEC_TYPE, 'chk_exec'
            else:
                items = [(h, tuplify(v)) for h, v in obj.get('store', [])]
                pr.one_state(items, obj.get('backend', 'dict'), root)
                print('init against', [(pr.it.hash_id(h), v) for h, v in items], '->', pr.init_meta[-1:] or 'failed')
                cases, typ, chk = ['(%s,\n [%s])' % (pr.term, o) for o in pr.init_obs], INIT_TYPE, 'chk_init'
            jugrun.fresh()
        finally:
            sc.close()
            if home is None:
                os.environ.pop('HOME', None)
            else:
                os.environ['HOME'] = home
    if ck.found:
        for o in ck.found:
            print('VIOLATED on the real code:', o.get('what'), dict((k, o[k]) for k in ('marker', 'detail', 'code', 'loadable', 'expected', 'observed') if k in o))
        rc = 1
    mrc, out = core.make(['Model/Loader.vo'])
    fails = ck.cases('replay', lg.COQ_IMPORTS, typ, chk, cases, preamble=PREAMBLE) if (mrc == 0 and cases) else None
    print('model vs observed:', 'agree' if fails == [] else ('DISAGREE' if fails else 'could not evaluate'))
    if fails != []:
        rc = 1
    return rc
