"""C14 - nothing after a barrier runs before everything before it is complete; bvalue returns the
stored value or stops the load; `jug execute` reloads until no barrier is closed and ends with the
sequential values; `jug check` is non-zero while a barrier is closed.

Proof: Props/C14.v over Model/Loader.v (all programs, all stores).
Tie: generated jugfiles (harness/loadergen.py: several barrier()/bvalue() calls, value-dependent
structure, compounds with barriers inside, marker statements after every barrier/bvalue) are loaded
with the REAL jug.init against every subset of the results of the sequential evaluation (all
subsets for <= 6 tasks, a structured sample above; some with a value replaced so that other branches
are taken), the REAL CheckCommand is run on each state, and the REAL `jug execute` is run to its end
on dict and file stores; coqc compares the loaded task list (by interned real hash), the markers,
the __jug__hasbarrier__ flag, the exit code of check, the final store and the number of loads with
Model.Loader (load / check / run_phases / seq_eval).
Long programs (loadergen.Deep: several dependency chains of 55-90 tasks, linked or independent, sinks of several
kinds before one barrier, chains continued after it, builders with a chain and a barrier inside) are loaded and
executed with only ~170 Python frames left, so that barrier() answers through its RecursionError fallback; their
store states are chosen by the dependency structure (all but one sink, all but a task and everything computed
from it, prefixes of the sequential run, holes, random).  Iterative programs (5-8 consecutive barrier/bvalue
phases running one function) and the generated ones are executed with --nr-wait-cycles 1..3.
Runs with tasks this worker cannot run: locks held / marked failed by others on some hashes, or task functions
that raise (always, or the first time only) under --keep-going [--keep-failed] or without it; the final store is
compared with Model.Loader.run_phases_l, the exit status with "a task function raised in this run".
Search: oracles evaluated on the real objects, independent of Coq: markers record at the moment they
run whether every task defined so far can be loaded / whether bvalue's result is the stored value;
check vs. hasbarrier; final store vs. a plain Python sequential evaluation of the program; exit status of
`jug execute` vs. the failures raised; locks of others untouched, tasks behind them not run."""
import itertools
import os
import shutil
import sys

from . import core
from .core import natlit, boollit
from . import jugrun
from . import loadergen as lg
import jug
import jug.task
from jug.backends.dict_store import dict_store
from jug.backends.file_store import file_store

EVIDENCE = dict(
    level='proof',
    rule='one evaluation = one (jugfile, store state) -> real jug.init + real check, or one (jugfile, start state, '
         'backend, options, locks / failing functions) -> real `jug execute` to its end; non-trivial when the jugfile '
         'has at least one barrier()/bvalue(); distinct = distinct (program term, store literal)',
    explanation='Coq theorems over the loader / reload-loop model + differential evaluation of the model against '
                'jug.init, CheckCommand and ExecuteCommand on generated jugfiles at every subset of earlier results',
)

# the D18 witness (check.py pruned the dependencies of a loadable task): u=f(1); t=g(u); barrier(); w=f(10)
# with only t stored.  Runs first; every subset of {u, t, w} is tried, {t} among them.
D18 = {'op': 'def', 'var': 't1', 'fn': 'f', 'args': [{'c': 1}, {'c': 0}],
       'k': {'op': 'def', 'var': 't2', 'fn': 'f', 'args': [{'t': 't1'}, {'c': 1}],
             'k': {'op': 'barrier',
                   'k': {'op': 'mark', 'n': 3, 'kind': 'bar',
                         'k': {'op': 'def', 'var': 't4', 'fn': 'f', 'args': [{'c': 2}, {'c': 2}],
                               'k': {'op': 'ret', 'arg': {'c': 0}}}}}}}
# two barriers, a value-dependent middle, a compound with a barrier inside (the probe of DESIGN.md)
PROBE = {'op': 'def', 'var': 't1', 'fn': 'f', 'args': [{'c': 1}, {'c': 1}],
         'k': {'op': 'def', 'var': 't2', 'fn': 'g', 'args': [{'t': 't1'}, {'c': 2}],
               'k': {'op': 'barrier',
                     'k': {'op': 'mark', 'n': 3, 'kind': 'bar',
                           'k': {'op': 'bvalue', 'var': 'v4', 'arg': {'t': 't2'}, 'plain_value': True, 'branches': {
                               '0': {'op': 'mark', 'n': 5, 'kind': 'bv', 'ref': {'t': 't2'}, 'vvar': 'v4',
                                     'k': {'op': 'def', 'var': 't6', 'fn': 'f', 'args': [{'t': 't2'}, {'v': 'v4', 'val': 0}],
                                           'k': {'op': 'ret', 'arg': {'c': 0}}}},
                               '1': {'op': 'mark', 'n': 7, 'kind': 'bv', 'ref': {'t': 't2'}, 'vvar': 'v4',
                                     'k': {'op': 'compound', 'var': 'c8', 'name': 'comp8', 'params': ['t1', 't2'],
                                           'body': {'op': 'def', 'var': 't9', 'fn': 'g', 'args': [{'t': 't1'}, {'t': 't2'}],
                                                    'k': {'op': 'barrier',
                                                          'k': {'op': 'mark', 'n': 10, 'kind': 'bar',
                                                                'k': {'op': 'def', 'var': 't11', 'fn': 'f', 'args': [{'t': 't9'}, {'c': 1}],
                                                                      'k': {'op': 'ret', 'arg': {'tup': [{'t': 't9'}, {'t': 't11'}]}}}}}},
                                           'k': {'op': 'def', 'var': 't12', 'fn': 'tsum', 'args': [{'t': 'c8'}],
                                                 'k': {'op': 'bvalue', 'var': 'v13', 'arg': {'t': 't12'}, 'plain_value': False, 'branches': {
                                                     '*': {'op': 'mark', 'n': 14, 'kind': 'bv', 'ref': {'t': 't12'}, 'vvar': 'v13',
                                                           'k': {'op': 'def', 'var': 't15', 'fn': 'f', 'args': [{'t': 't12'}, {'c': 2}],
                                                                 'k': {'op': 'ret', 'arg': {'c': 0}}}}}}}}},
                               '2': {'op': 'mark', 'n': 16, 'kind': 'bv', 'ref': {'t': 't2'}, 'vvar': 'v4',
                                     'k': {'op': 'def', 'var': 't17', 'fn': 'pair', 'args': [{'t': 't1'}, {'t': 't2'}],
                                           'k': {'op': 'barrier',
                                                 'k': {'op': 'mark', 'n': 18, 'kind': 'bar',
                                                       'k': {'op': 'def', 'var': 't19', 'fn': 'pfst', 'args': [{'t': 't17'}],
                                                             'k': {'op': 'ret', 'arg': {'c': 0}}}}}}}}}}}}}
CORPUS = [('D18-witness', D18), ('design-probe', PROBE)]


def d21_witness(links=70):
    """the D21 witness (Task.hash() died with RecursionError on long chains: bvalue() never opened, CompoundTask could not
    be imported, `jug check` crashed; fixed in /repo 94cab01): a chain; v = bvalue(its end); a second chain;
    c = comp(its end); a task on c; a third chain that nothing has hashed when `jug check` starts from the last task.
    No barrier() anywhere: only Task.hash() stands between these calls and the recursion limit."""
    n = [0]

    def fresh(p):
        n[0] += 1
        return '%s%d' % (p, n[0])

    def chain(out, start_c):
        cur = fresh('t')
        out.append({'op': 'def', 'var': cur, 'fn': 'f', 'args': [{'c': start_c}, {'c': 1}]})
        for i in range(links):
            nxt = fresh('t')
            out.append({'op': 'def', 'var': nxt, 'fn': 'f', 'args': [{'t': cur}, {'c': i % lg.M}]})
            cur = nxt
        return cur
    root = []
    a = chain(root, 0)
    v = fresh('v')
    rest = [{'op': 'mark', 'n': 900001, 'kind': 'bv', 'ref': {'t': a}, 'vvar': v}]
    root.append({'op': 'bvalue', 'var': v, 'arg': {'t': a}, 'plain_value': False, 'branches': {'*': rest}})
    b = chain(rest, 1)
    inner = fresh('t')
    body = [{'op': 'mark', 'n': 900002, 'kind': 'plain'},
            {'op': 'def', 'var': inner, 'fn': 'f', 'args': [{'t': b}, {'c': 2}]},
            {'op': 'ret', 'arg': {'t': inner}}]
    c = fresh('c')
    rest.append({'op': 'compound', 'var': c, 'name': fresh('comp'), 'params': [b], 'body': body})
    rest.append({'op': 'def', 'var': fresh('t'), 'fn': 'f', 'args': [{'t': c}, {'c': 0}]})
    chain(rest, 2)
    rest.append({'op': 'ret', 'arg': {'c': 0}})
    return lg.unflatten(root)


def d21_check_witness(links=70):
    """the other face of D21: two chains and nothing else - no barrier(), no bvalue() stops the load, so `jug check` (which
    asks the LAST task first) meets chains nothing has hashed, at every store state, the completed store included"""
    out, n = [], 0
    for c0 in (0, 1):
        n += 1
        out.append({'op': 'def', 'var': 't%d' % n, 'fn': 'f', 'args': [{'c': c0}, {'c': 2}]})
        for i in range(links):
            n += 1
            out.append({'op': 'def', 'var': 't%d' % n, 'fn': 'g' if i % 7 == 3 else 'f',
                        'args': [{'t': 't%d' % (n - 1)}, {'t': 't%d' % (n - 1)} if i % 7 == 3 else {'c': i % lg.M}]})
    out.append({'op': 'ret', 'arg': {'c': 0}})
    return lg.unflatten(out)

PREAMBLE = lg.COQ_PREAMBLE + '''
Definition iobs := (store * (list tid * list mark * bool * nat))%type.
Definition chk_one (p : jprog) (so : iobs) : bool :=
  let '(st, (ts, ms, hb, ck)) := so in
  let l := load st p in
  pos_list_eqb (ids (l_tasks l)) ts && pos_list_eqb (l_marks l) ms && Bool.eqb (l_hasbarrier l) hb &&
  Nat.eqb (check st p) ck.
Definition chk_init (c : jprog * list iobs) : bool := let '(p, obs) := c in forallb (chk_one p) obs.
(* start store, final store, number of loads, does the start store agree with the sequential values *)
Definition eobs := (store * store * nat * bool)%type.
Definition chk_run (p : jprog) (s : spine) (r : eobs) : bool :=
  let '(st0, fin, loads, ag) := r in
  let fuel := if ag then (sbn s + 1)%nat else 14%nat in
  let '(stF, exs) := run_phases fuel st0 p in
  store_eqb stF fin &&
  (if ag then Nat.eqb (List.length exs) loads && store_sub (stop_env s) fin && store_sub fin (slog s) &&
              negb (l_hasbarrier (load fin p)) && Nat.eqb (check fin p) 0
   else true).
(* a run in which this worker cannot run the tasks in [locks] (locked / failed by others, or raising under
   --keep-going): start store, those tasks, final store *)
Definition lobs := (store * list tid * store)%type.
Definition chk_lrun (p : jprog) (r : lobs) : bool :=
  let '(st0, locks, fin) := r in store_eqb (fst (run_phases_l locks 14 st0 p)) fin.
(* jug sleep-until while others write [incs] (one element per sleep): start store, incs, and what was seen:
   Some (store at exit, sleeps, loads) or None = slept again after the last write *)
Definition sobs := (store * list store * option (store * nat * nat))%type.
Definition chk_su (p : jprog) (r : sobs) : bool :=
  let '(st0, incs, o) := r in
  match sleep_until 14 st0 incs p, o with
  | Some (s, n, k), Some (fin, n', k') => store_eqb s fin && Nat.eqb n n' && Nat.eqb k k'
  | None, None => true
  | _, _ => false
  end.
(* jug execute while another process removes results before some loads: start store, what disappears before
   load 1, 2, ..., final store, number of loads *)
Definition robs := (store * list (list tid) * store * nat)%type.
Definition chk_rrun (p : jprog) (r : robs) : bool :=
  let '(st0, rms, fin, loads) := r in
  let '(stF, exs) := run_phases_rm rms 14 st0 p in store_eqb stF fin && Nat.eqb (List.length exs) loads.
(* a project whose jugfile selects its store itself, driven through the command line: after each command the exit
   code / counts it reported and the store the jugfile points to *)
Inductive cli := CCheck (code : nat) | CStatus (nc ni : nat) | CSleepUntil (exited : bool) | CExecute | CCleanup
               | CInvalidate (removed : list tid).
Fixpoint run_cli (p : jprog) (st : store) (steps : list (cli * store)) : bool :=
  match steps with
  | [] => true
  | (c, sto) :: r =>
      let l := load st p in
      let nc := List.length (filter (fun t => stored st (tid_of t)) (l_tasks l)) in
      match c with
      | CCheck code => Nat.eqb (check st p) code && store_eqb st sto && run_cli p sto r
      | CStatus a b => Nat.eqb nc a && Nat.eqb (List.length (l_tasks l) - nc) b && store_eqb st sto && run_cli p sto r
      | CSleepUntil ex => Bool.eqb (negb (l_hasbarrier l) && Nat.eqb (check st p) 0) ex && store_eqb st sto && run_cli p sto r
      | CExecute => store_eqb (fst (run_phases 14 st p)) sto && run_cli p sto r
      | CCleanup => store_eqb (cleanup st p) sto && run_cli p sto r
      | CInvalidate ks => store_eqb (remove_keys ks st) sto && run_cli p sto r
      end
  end.
Definition chk_exec (c : jprog * list eobs * list lobs * list sobs * list robs * list (store * list (cli * store))) : bool :=
  let '(p, runs, lruns, sruns, rruns, cruns) := c in
  match seq_eval p with
  | Some s => functionalb (slog s) && forallb (chk_run p s) runs && forallb (chk_lrun p) lruns && forallb (chk_su p) sruns &&
              forallb (chk_rrun p) rruns && forallb (fun sc => run_cli p (fst sc) (snd sc)) cruns
  | None => false
  end.
'''
INIT_TYPE = 'jprog * list iobs'
EXEC_TYPE = 'jprog * list eobs * list lobs * list sobs * list robs * list (store * list (cli * store))'
SLACK = 170                            # Python frames left to jug when a long program is loaded / executed (~4 per link)
LARGE = 40                             # programs with more results than this get structured store states


def tuplify(v):
    if isinstance(v, list):
        return tuple(tuplify(x) for x in v)
    return v


def perturb(v, rng):
    if isinstance(v, tuple):
        i = rng.randrange(2)
        w = list(v)
        w[i] = (w[i] + 1 + rng.randrange(2)) % lg.M
        return tuple(w)
    return (v + 1 + rng.randrange(2)) % lg.M


def choose_subsets(keys, rng, cap):
    n = len(keys)
    if n <= 6:
        return [list(c) for r in range(n + 1) for c in itertools.combinations(range(n), r)]
    seen, out = set(), []

    def add(ix):
        t = tuple(sorted(ix))
        if t not in seen:
            seen.add(t)
            out.append(list(t))
    for i in range(n + 1):
        add(range(i))                                  # what a sequential run leaves after i tasks
    for i in range(n):
        add([j for j in range(n) if j != i])           # a hole
        add([i])
    tries = 0
    while len(out) < cap and tries < 4 * cap:
        tries += 1
        p = rng.choice([0.3, 0.5, 0.7, 0.85])
        add([j for j in range(n) if rng.random() < p])
    return out[:max(cap, 2 * n + 2)]


def choose_subsets_large(n, deps, rng, cap):
    """store states of a long program, chosen by its dependency structure.  n results in evaluation order,
    deps[i] = the results i is computed from.  Everything / nothing; everything but one sink (a task nothing is
    computed from: the end of a chain, whichever chain) and but two; everything but a task and all that is
    computed from it (what workers leave when one of them is still at that task), two such; prefixes of the
    sequential run; single holes; random."""
    users = [[] for _ in range(n)]
    for i in range(n):
        for j in deps[i]:
            users[j].append(i)
    sinks = [i for i in range(n) if not users[i]]
    full = set(range(n))
    seen, out = set(), []

    def add(ix):
        t = tuple(sorted(ix))
        if t not in seen:
            seen.add(t)
            out.append(list(t))

    def closure(i):
        got, q = {i}, [i]
        while q:
            x = q.pop()
            for u in users[x]:
                if u not in got:
                    got.add(u)
                    q.append(u)
        return got
    add(full)
    add([])
    for x in sinks:
        add(full - {x})
    pairs = list(itertools.combinations(sinks, 2))
    rng.shuffle(pairs)
    for a, b in pairs[:5]:
        add(full - {a, b})
    for _ in range(7):
        add(full - closure(rng.randrange(n)))
    for _ in range(3):
        add(full - closure(rng.randrange(n)) - closure(rng.randrange(n)))
    for _ in range(5):
        add(range(rng.randrange(n + 1)))
    for _ in range(4):
        add(full - {rng.randrange(n)})
    tries = 0
    while len(out) < cap and tries < 4 * cap:
        tries += 1
        p = rng.choice([0.5, 0.9, 0.97, 0.99])
        add([j for j in range(n) if rng.random() < p])
    return out


def obs_marks(log):
    return [n for (n, _, _) in log]


def marker_oracle(log):
    bad = []
    for n, kind, d in log:
        if kind == 'bar' and not all(d):
            bad.append(('marker after barrier() ran while a task before it had no result', n,
                        d if len(d) <= 24 else {'tasks': len(d), 'without_result': [i for i, x in enumerate(d) if not x][:12]}))
        if kind == 'bv' and not d[0]:
            bad.append(('bvalue() returned although its argument has no stored result', n, d))
        elif kind == 'bv' and not d[1]:
            bad.append(('bvalue() returned a value that is not the stored one', n, d))
    return bad


def value_of(a, vals):
    """value of an argument descriptor given the values of the task descriptors"""
    if isinstance(a, lg.Desc):
        return vals[a]
    if a[0] == 'tup':
        return (value_of(a[1], vals), value_of(a[2], vals))
    return a[1]


class ProgramRun:
    """everything the tie does with one generated program"""
    def __init__(self, ck, sc, name, prog, slack=None):
        self.ck, self.sc, self.name, self.prog, self.slack = ck, sc, name, prog, slack
        self.it = lg.Interner(prog)
        self.term = lg.render_coq(prog, self.it)
        self.log, self.scope, self.nb, self.seq_marks = lg.seq_oracle(prog)
        self.R = []                                   # [(hash, seq value)] in evaluation order, first occurrence
        self.Rdesc = []
        seen = set()
        for d, v in self.log:
            h = self.it.hash_of_desc[d]
            if h not in seen:
                seen.add(h)
                self.R.append((h, v))
                self.Rdesc.append(d)
        self.large = len(self.R) > LARGE
        self.init_obs = []                            # coq literals
        self.init_meta = []
        self.exec_obs = []
        self.exec_meta = []
        self.lrun_obs = []
        self.lrun_meta = []
        self.su_obs = []
        self.su_meta = []
        self.rm_obs = []
        self.rm_meta = []
        self.cli_obs = []
        self.cli_meta = []
        sc.write(prog)

    def viol(self, what, **kw):
        o = {'kind': 'impl-violation', 'what': what, 'program': self.name}
        if self.large:
            o['prog_flat'] = lg.flatten(self.prog)     # (JSON cannot nest a few hundred continuations)
            o['jugfile'] = lg.render_python(self.prog)[len(lg.PRELUDE):]
        else:
            o['prog'] = self.prog
            o['jugfile'] = lg.render_python(self.prog)
        if self.slack is not None:
            o['slack'] = self.slack
        self.ck.violation(dict(o, **kw))

    def one_state(self, items, backend, root):
        """items: [(hash, value)] -> real init + check on a store holding exactly those"""
        ck = self.ck
        if backend == 'file':
            jd = os.path.join(root, 'jd')
            shutil.rmtree(jd, ignore_errors=True)
            store = file_store(jd)
        else:
            store = dict_store()
        lg.fill_store(store, items)
        state = [[h, v] for h, v in items]
        try:
            r = lg.real_init(self.sc, store, slack=self.slack, hash_now=False)
        except SystemExit:
            self.viol('the jugfile failed to load', store=state, backend=backend)
            ck.count('init: jugfile crashed')
            return
        try:
            code = lg.real_check(r['store'], r['space'], slack=self.slack)
        except lg.HarnessError:
            raise
        except Exception as e:                     # the code under test raised: a finding, not a harness failure
            self.viol('jug check raised an exception', store=state, backend=backend,
                      exception='%s: %s' % (type(e).__name__, str(e)[:200]))
            ck.count('check: raised')
            return
        lg.task_hashes(r)
        for what, n, d in marker_oracle(r['marks']):
            self.viol(what, store=state, backend=backend, marker=n, detail=d)
        loadable = [bool(t.can_load()) for t in r['objs']]
        if r['hasbarrier'] and code == 0:
            self.viol('check returned 0 while __jug__hasbarrier__ is set', store=state, backend=backend)
        if r['hasbarrier'] and all(loadable):
            self.viol('barrier closed although every loaded task has a result', store=state, backend=backend)
        if (code == 0) != all(loadable):
            self.viol('check exit code does not say whether every loaded task has a result', store=state,
                      backend=backend, code=code, loadable=loadable if len(loadable) <= 24 else len(loadable))
        it = self.it
        lit = '(%s, ([%s], [%s], %s, %s))' % (
            lg.coq_store(items, it), '; '.join(str(it.hash_id(h)) for h in r['tasks']),
            '; '.join(str(n) for n in obs_marks(r['marks'])), boollit(r['hasbarrier']), natlit(code))
        self.init_obs.append(lit)
        self.init_meta.append({'store': state, 'backend': backend, 'tasks': r['tasks'], 'names': r['names'],
                               'marks': obs_marks(r['marks']), 'hasbarrier': r['hasbarrier'], 'check': code})
        ck.count('init: hasbarrier' if r['hasbarrier'] else 'init: fully loaded')
        ck.count('init: backend %s' % backend)
        ck.count('check: exit %d' % code)
        if self.slack is not None:
            ck.count('init: long program under a low recursion limit')
        ck.distinct((self.term, lit), self.nb > 0)
        if backend == 'file':
            store.close()

    def deps(self):
        ix = dict((h, i) for i, (h, _) in enumerate(self.R))
        out = []
        for d in self.Rdesc:
            out.append(sorted(set(ix[self.it.hash_of_desc[x]] for x in lg.desc_deps(d) if self.it.hash_of_desc[x] in ix)))
        # the value of a compound is computed from what its builder returned: take the task defined just before it
        for i, d in enumerate(self.Rdesc):
            if d[1].startswith('comp') and i > 0:
                out[i] = sorted(set(out[i] + [i - 1]))
        return out

    def states(self, rng, cap, root):
        keys = self.R
        if self.large:
            subs = choose_subsets_large(len(keys), self.deps(), rng, cap)
        else:
            subs = choose_subsets(keys, rng, cap)
        file_done = False
        for j, ix in enumerate(subs):
            items = [keys[i] for i in ix]
            if items and rng.random() < 0.18:
                # a stored value that is not the sequential one: the loader must follow the STORE
                k = rng.randrange(len(items))
                items = list(items)
                items[k] = (items[k][0], perturb(items[k][1], rng))
                self.ck.count('init: store with a non-sequential value')
            if self.large:
                # file_store fsyncs every result it writes: one file-backed state per long program, a small one
                backend = 'file' if (not file_done and 0 < len(items) <= 80) else 'dict'
                file_done = file_done or backend == 'file'
            else:
                backend = 'file' if (j % 11 == 5) else 'dict'
            self.one_state(items, backend, root)

    def prepare(self, items, backend, root):
        if backend == 'file':
            jd = os.path.join(root, 'jdx')
            shutil.rmtree(jd, ignore_errors=True)
            store = file_store(jd)
            lg.fill_store(store, items)
            return store, jd
        store = dict_store()
        lg.fill_store(store, items)
        return store, store

    def one_exec(self, items, backend, root, agrees, nwc=1):
        ck = self.ck
        if lg.TIMEOUTS[0] >= 3:
            ck.count('execute: skipped after three runs that did not finish')
            return
        via_main = False
        store, target = self.prepare(items, backend, root)
        if backend == 'file':
            store.close()
            via_main = (ck.dist.get('execute: backend file', 0) % 2 == 0)
        state = [[h, v] for h, v in items]
        ctx = dict(start=state, backend=backend, nwc=nwc)
        try:
            code, mlog, out = lg.real_execute(self.sc, target, via_main=via_main, nwc=nwc, slack=self.slack)
        except lg.HarnessError:
            raise
        except lg.ExecTimeout as e:
            self.viol('jug execute did not finish (the unchanged code needs under 2 s on such a program)', waited=str(e), **ctx)
            ck.count('execute: timed out')
            return
        except Exception as e:                     # the code under test raised: a finding, not a harness failure
            self.viol('jug execute raised an exception', exception='%s: %s' % (type(e).__name__, str(e)[:300]), **ctx)
            ck.count('execute: raised')
            return
        if code != 0:
            self.viol('jug execute exited with an error', code=code, output=out[-600:], **ctx)
            ck.count('execute: error exit')
            return
        if backend == 'file':
            store = file_store(target)
        final = lg.store_items(store)
        loads = sum(1 for (n, _, _) in mlog if n == lg.TOPMARK)
        for what, n, d in marker_oracle(mlog):
            self.viol(what, marker=n, detail=d, during='execute', **ctx)
        if agrees:
            # the theorem's conclusion, evaluated in Python: nothing contradicts the sequential values, every task
            # in scope at the end of the jugfile is stored, nothing of the start store is lost
            exp = dict(self.R)
            top = [self.it.hash_of_desc[d] for d, _ in self.scope]
            bad = [k for k in final if k not in exp or final[k] != exp[k]] + [k for k in top if k not in final] + \
                  [h for h, _ in items if h not in final]
            if bad:
                self.viol('jug execute ended with a store different from the sequential evaluation',
                          expected=sorted(exp.items())[:60], observed=sorted(final.items())[:60], loads=loads,
                          keys=sorted(set(bad))[:40], in_scope_at_end=top[:60], **ctx)
        try:
            r = lg.real_init(self.sc, store, slack=self.slack, hash_now=False)
            code2 = lg.real_check(r['store'], r['space'], slack=self.slack)
        except lg.HarnessError:
            raise
        except (Exception, SystemExit) as e:
            self.viol('after jug execute finished, loading the jugfile or jug check failed',
                      exception='%s: %s' % (type(e).__name__, str(e)[:200]), **ctx)
            ck.count('execute: reload / check afterwards raised')
            return
        if r['hasbarrier'] or code2 != 0:
            self.viol('after jug execute finished, a barrier is still closed or check is non-zero',
                      hasbarrier=r['hasbarrier'], check=code2, loads=loads, **ctx)
        it = self.it
        lit = '(%s, %s, %s, %s)' % (lg.coq_store(items, it), lg.coq_store(sorted(final.items()), it), natlit(loads), boollit(agrees))
        self.exec_obs.append(lit)
        self.exec_meta.append({'start': state, 'backend': backend, 'via_main': via_main, 'final': sorted(final.items()),
                               'loads': loads, 'agrees': agrees, 'nwc': nwc})
        ck.count('execute: backend %s%s' % (backend, ' (CLI main)' if via_main else ''))
        ck.count('execute: %d load(s)' % min(loads, 6) if loads < 6 else 'execute: 6 or more loads')
        ck.count('execute: --nr-wait-cycles %d' % nwc)
        if self.slack is not None:
            ck.count('execute: long program under a low recursion limit')
        ck.distinct((self.term, lit), self.nb > 0)
        if backend == 'file':
            store.close()

    def executes(self, rng, root, k):
        keys = self.R
        n = len(keys)
        self.one_exec([], 'dict', root, True, nwc=rng.choice([1, 2, 3]))
        if not self.large or rng.random() < 0.25:
            self.one_exec([], 'file', root, True, nwc=rng.choice([1, 2, 3]))
        for j in range(k):
            if self.large:
                # a long program: start from a late state (most results present), otherwise the run is one long phase
                sub = rng.choice(choose_subsets_large(n, self.deps(), rng, 24)[2:])
                ix = sorted(sub)
            else:
                ix = [i for i in range(n) if rng.random() < rng.choice([0.3, 0.6])]
            items = [keys[i] for i in ix]
            agrees = True
            if items and rng.random() < 0.25:
                q = rng.randrange(len(items))
                items[q] = (items[q][0], perturb(items[q][1], rng))
                agrees = False
            self.one_exec(items, 'file' if (j % 3 == 2 and not self.large) else 'dict', root, agrees, nwc=rng.choice([1, 1, 2, 3]))

    # ------------------------------------------------------------------ tasks this worker cannot run
    def lrun(self, items, backend, root, mode, chosen, nwc, keep_going=True, keep_failed=False):
        """`jug execute` when some tasks cannot be run by this worker.
        mode 'held' / 'failed': other workers hold / have marked failed the locks of the hashes `chosen`;
        mode 'raises' / 'raises-once': the functions of the tasks `chosen` (indices into self.R) raise every time /
        the first time, run with --keep-going (or not) and --keep-failed (or not)."""
        ck, it = self.ck, self.it
        if lg.TIMEOUTS[0] >= 3:
            ck.count('execute: skipped after three runs that did not finish')
            return
        store, target = self.prepare(items, backend, root)
        state = [[h, v] for h, v in items]
        vals = dict((d, v) for d, v in self.log)
        fail, extra = None, []
        if mode in ('held', 'failed'):
            hashes = [self.R[i][0] for i in chosen]
            lg.set_locks(store, held=hashes if mode == 'held' else (), failed=hashes if mode == 'failed' else ())
            blocked = set(hashes)
        else:
            keys = set()
            for i in chosen:
                d = self.Rdesc[i]
                keys.add((d[1], tuple(value_of(a, vals) for a in d[2])))
            fail = dict((k, -1 if mode == 'raises' else 1) for k in keys)
            # every task with that function and those argument values raises (equal values, different hashes)
            blocked = set(self.it.hash_of_desc[d] for d in self.Rdesc
                          if not d[1].startswith('comp') and (d[1], tuple(value_of(a, vals) for a in d[2])) in keys)
            extra = (['--keep-going'] if keep_going else []) + (['--keep-failed'] if keep_failed else [])
        if backend == 'file':
            store.close()
        ctx = dict(start=state, backend=backend, nwc=nwc, mode=mode, chosen=list(chosen), options=extra,
                   blocked=sorted(blocked))
        try:
            code, mlog, out = lg.real_execute(self.sc, target, nwc=nwc, extra=extra, slack=self.slack, fail=fail)
        except lg.HarnessError:
            raise
        except lg.ExecTimeout as e:
            self.viol('jug execute did not finish (the unchanged code needs under 2 s on such a program)', waited=str(e), **ctx)
            ck.count('execute: timed out')
            return
        except Exception as e:
            self.viol('jug execute raised an exception', exception='%s: %s' % (type(e).__name__, str(e)[:300]), **ctx)
            ck.count('execute: raised')
            return
        raised = list(self.sc.marks.RAISED)
        if backend == 'file':
            store = file_store(target)
        final = lg.store_items(store)
        held, failed = lg.list_locks(store)
        for what, n, d in marker_oracle(mlog):
            self.viol(what, marker=n, detail=d, during='execute', **ctx)
        exp = dict(self.R)
        start = dict(items)
        agrees = all(exp.get(h) == v for h, v in items)
        bad = [h for h in start if final.get(h) != start[h]]
        if agrees:
            bad += [h for h in final if h not in exp or final[h] != exp[h]]
        if bad:
            self.viol('jug execute lost a result of the start store or stored a value different from the sequential one',
                      keys=sorted(set(bad))[:40], **ctx)
        if mode in ('held', 'failed'):
            if code != 0:
                self.viol('jug execute exited with an error although no task function raised', code=code, output=out[-400:], **ctx)
            ran = [h for h in blocked if h in final and h not in start]
            if ran:
                self.viol('a task was run although another worker holds its lock / it is marked failed', keys=sorted(ran), **ctx)
            want = (sorted(blocked), []) if mode == 'held' else ([], sorted(blocked))
            if (held, failed) != want:
                self.viol('jug execute changed locks that are not its own', locks_after=[held, failed], locks_before=list(want), **ctx)
        else:
            failed_exit = code != 0
            if failed_exit != bool(raised):
                self.viol('exit status of jug execute does not say whether a task function raised in this run',
                          code=list(code) if isinstance(code, tuple) else code, raised=[list(map(repr, r)) for r in raised][:6], **ctx)
            if keep_going and isinstance(code, tuple):
                self.viol('an exception of a task function left jug execute --keep-going', code=list(code), **ctx)
            stored_blocked = [h for h in blocked if h in final and h not in start]
            if mode == 'raises' and stored_blocked:
                self.viol('a task whose function raises has a result', keys=sorted(stored_blocked), **ctx)
            if keep_failed and keep_going:
                if held or [h for h in failed if h not in blocked] or (bool(failed) != bool(raised)):
                    self.viol('--keep-failed: the failed locks left are not those of the tasks that raised',
                              locks_after=[held, failed], raised=len(raised), **ctx)
            elif keep_going and (held or failed):
                self.viol('jug execute left locks behind', locks_after=[held, failed], **ctx)
        ck.count('blocked run: %s%s' % (mode, (' ' + ' '.join(extra)) if extra else ('' if mode in ('held', 'failed') else ' (stops at the first failure)')))
        if raised:
            ck.count('blocked run: a task function raised')
        loads = sum(1 for (n, _, _) in mlog if n == lg.TOPMARK)
        ck.count('blocked run: %s' % ('1 load' if loads == 1 else 'several loads'))
        # the model: the blocked tasks are never run, everything else as usual (not for a function that raises only
        # once, nor without --keep-going: the run ends at the first failure)
        modelled = mode in ('held', 'failed') or (mode == 'raises' and keep_going)
        meta = dict(ctx, final=sorted(final.items()), code=list(code) if isinstance(code, tuple) else code,
                    raised=len(raised), loads=loads, keep_going=keep_going, keep_failed=keep_failed, modelled=modelled)
        if modelled:
            lit = '(%s, [%s], %s)' % (lg.coq_store(items, it), '; '.join(str(it.hash_id(h)) for h in sorted(blocked)),
                                      lg.coq_store(sorted(final.items()), it))
            self.lrun_obs.append(lit)
            self.lrun_meta.append(meta)
            ck.distinct((self.term, lit), self.nb > 0)
        else:
            ck.distinct((self.term, repr(sorted(meta.items(), key=lambda kv: kv[0]))), self.nb > 0)
        self.nlruns = getattr(self, 'nlruns', 0) + 1
        if backend == 'file':
            store.close()

    # ------------------------------------------------------------------ jug sleep-until
    def one_sleep_until(self, items, writes, backend, root):
        """the real `jug sleep-until` started on a store holding `items`, while others write writes[i] during the
        i-th sleep"""
        ck, it = self.ck, self.it
        store, target = self.prepare(items, backend, root)
        state = [[h, v] for h, v in items]
        ctx = dict(start=state, backend=backend, sleep_until={'writes': [[[h, v] for h, v in w] for w in writes]})
        try:
            status, sleeps, used, mlog = lg.real_sleep_until(self.sc, store, writes, slack=self.slack)
        except lg.HarnessError:
            raise
        except lg.ExecTimeout as e:
            self.viol('jug sleep-until did not come back', waited=str(e), **ctx)
            return
        except Exception as e:
            self.viol('jug sleep-until raised an exception', exception='%s: %s' % (type(e).__name__, str(e)[:300]), **ctx)
            ck.count('sleep-until: raised')
            return
        final = lg.store_items(store)
        loads = sum(1 for (n, _, _) in mlog if n == lg.TOPMARK)
        for what, n, d in marker_oracle(mlog):
            self.viol(what, marker=n, detail=d, during='sleep-until', **ctx)
        # the oracle, independent of the model: a fresh load + check of the store as sleep-until left it
        try:
            r = lg.real_init(self.sc, store, slack=self.slack, hash_now=False)
            code = lg.real_check(r['store'], r['space'], slack=self.slack)
        except lg.HarnessError:
            raise
        except (Exception, SystemExit) as e:
            self.viol('after jug sleep-until, loading the jugfile or jug check failed',
                      exception='%s: %s' % (type(e).__name__, str(e)[:200]), **ctx)
            return
        complete = (not r['hasbarrier']) and code == 0
        if status == 0 and not complete:
            self.viol('jug sleep-until exited with 0 while a barrier is closed or a task of the jugfile has no result',
                      hasbarrier=r['hasbarrier'], check=code, sleeps=sleeps, loads=loads,
                      without_result=[lg.hx(t.hash()) for t in r['objs'] if not t.can_load()][:12], **ctx)
        elif status == 'waiting' and complete:
            # not a violation of C14 (it never exits too EARLY): sleep-until waits for the tasks of the load it made, e.g. the
            # inner tasks of a compound that was expanded then, although the compound's value has arrived in the meantime
            # and a fresh load would be complete (notes/strengthen_loader.txt, observation F4).  The model says the same.
            ck.count('sleep-until: still waiting for tasks of a stale load although a fresh load is complete (F4)')
        elif status not in (0, 'waiting'):
            self.viol('jug sleep-until exited with an error', code=list(status), **ctx)
        obs = 'None' if status != 0 else '(Some (%s, %s, %s))' % (lg.coq_store(sorted(final.items()), it), natlit(sleeps), natlit(loads))
        lit = '(%s, [%s], %s)' % (lg.coq_store(items, it), '; '.join(lg.coq_store(w, it) for w in writes), obs)
        self.su_obs.append(lit)
        self.su_meta.append(dict(ctx, status=status if status in (0, 'waiting') else list(status), sleeps=sleeps, loads=loads,
                                 final=sorted(final.items()), nwc=1))
        ck.count('sleep-until: %s' % ('exited 0' if status == 0 else 'still waiting when the others stopped'))
        ck.count('sleep-until: %s' % ('1 load' if loads == 1 else ('2 loads' if loads == 2 else '3 or more loads')))
        ck.distinct((self.term, lit), self.nb > 0)
        if backend == 'file':
            store.close()

    def sleep_untils(self, rng, root, k):
        n = len(self.R)
        if n == 0:
            return
        for j in range(k):
            r = rng.random()
            if r < 0.55:
                have = set()
            elif r < 0.8:
                have = set(range(rng.randrange(n + 1)))
            else:
                have = set(i for i in range(n) if rng.random() < 0.4)
            rest = [i for i in range(n) if i not in have]
            r = rng.random()
            if r < 0.25:
                rng.shuffle(rest)                       # sleep-until does not care in which order results appear
                ck_order = 'any order'
            elif r < 0.33:
                rest.reverse()
                ck_order = 'reverse order'
            else:
                ck_order = 'sequential order'
            todo = [self.R[i] for i in rest]
            r = rng.random()
            if todo and r < 0.15:
                todo.pop(rng.randrange(len(todo)))     # a result nobody produces (its task is locked elsewhere, failed ...)
                self.ck.count('sleep-until: a result never arrives')
            elif todo and r < 0.25:
                q = rng.randrange(len(todo))
                todo[q] = (todo[q][0], perturb(todo[q][1], rng))
                self.ck.count('sleep-until: a result is not the sequential value')
            writes = []
            big = max(1, len(todo) // rng.choice([4, 6, 9])) if self.large else 0
            while todo:
                c = rng.choice([1, 1, 1, 2, 2, 3, 5, len(todo)]) if not self.large else max(1, big + rng.randrange(-big // 2, big // 2 + 1))
                writes.append(todo[:c])
                todo = todo[c:]
            self.ck.count('sleep-until: results arrive in %s' % ck_order)
            backend = 'file' if (rng.random() < 0.15 and not self.large) else 'dict'
            self.one_sleep_until([self.R[i] for i in sorted(have)], writes, backend, root)

    # ------------------------------------------------------------------ results removed under the running worker
    def users_closure(self):
        deps = self.deps()
        users = [[] for _ in deps]
        for i, ds in enumerate(deps):
            for j in ds:
                users[j].append(i)

        def closure(i):
            got, q = {i}, [i]
            while q:
                x = q.pop()
                for u in users[x]:
                    if u not in got:
                        got.add(u)
                        q.append(u)
            return got
        return closure

    def rm_run(self, items, backend, root, at_loads, nwc, rng):
        """`jug execute` (one store object for the whole run) while ANOTHER process - a second store object on the same
        data, never the worker's - removes a result and everything computed from it (what jug invalidate does) right
        before the loads in at_loads (1 = the first).  The markers after barrier()/bvalue() ask a fresh store object."""
        ck, it = self.ck, self.it
        store, target = self.prepare(items, backend, root)
        if backend == 'file':
            store.close()
        marks = self.sc.marks
        closure = self.users_closure()
        index = dict((h, i) for i, (h, _) in enumerate(self.R))
        removed, state = {}, {'load': 0}

        def other():
            return file_store(target) if backend == 'file' else store

        def onload():
            state['load'] += 1
            if state['load'] in at_loads:
                o = other()
                present = [h for h, _ in self.R if o.can_load(h.encode('ascii'))]
                if present:
                    pick = rng.choice(present)
                    rm = sorted(self.R[i][0] for i in closure(index[pick]) if self.R[i][0] in present)
                    o.remove_many([h.encode('ascii') for h in rm])
                    removed[state['load']] = rm
        state0 = [[h, v] for h, v in items]
        ctx = dict(start=state0, backend=backend, nwc=nwc, removal={'at_loads': sorted(at_loads)})
        marks.ONLOAD.append(onload)
        if backend == 'file':
            marks.FRESH[:] = [lambda: file_store(target)]
        try:
            code, mlog, out = lg.real_execute(self.sc, target, nwc=nwc, slack=self.slack)
        except lg.HarnessError:
            raise
        except lg.ExecTimeout as e:
            self.viol('jug execute did not finish (the unchanged code needs under 2 s on such a program)', waited=str(e), **ctx)
            return
        except Exception as e:
            self.viol('jug execute raised an exception', exception='%s: %s' % (type(e).__name__, str(e)[:300]), **ctx)
            return
        finally:
            del marks.ONLOAD[:]
            del marks.FRESH[:]
        ctx['removed'] = dict((str(k), v) for k, v in sorted(removed.items()))
        loads = sum(1 for (n, _, _) in mlog if n == lg.TOPMARK)
        for what, n, d in marker_oracle(mlog):
            self.viol(what, marker=n, detail=d, during='execute while another process removes results', loads=loads, **ctx)
        if code != 0:
            self.viol('jug execute exited with an error after another process removed results', code=code, output=out[-500:], loads=loads, **ctx)
            ck.count('removal run: error exit')
            return
        o = other()
        final = lg.store_items(o)
        exp = dict(self.R)
        top = [it.hash_of_desc[d] for d, _ in self.scope]
        bad = [k for k in final if k not in exp or final[k] != exp[k]] + [k for k in top if k not in final]
        if bad:
            self.viol('jug execute ended with a store different from the sequential evaluation (results were removed on the way)',
                      keys=sorted(set(bad))[:40], loads=loads, **ctx)
        rms = [removed.get(k, []) for k in range(1, max(list(removed) + [0]) + 1)]
        lit = '(%s, [%s], %s, %s)' % (lg.coq_store(items, it), '; '.join('[%s]' % '; '.join(str(it.hash_id(h)) for h in rm) for rm in rms),
                                      lg.coq_store(sorted(final.items()), it), natlit(loads))
        self.rm_obs.append(lit)
        self.rm_meta.append(dict(ctx, final=sorted(final.items()), loads=loads))
        ck.count('removal run: %s' % ('results removed before a load' if removed else 'no load at which something was to be removed'))
        ck.count('removal run: backend %s' % backend)
        ck.distinct((self.term, lit), self.nb > 0)

    def removal_runs(self, rng, root, k):
        n = len(self.R)
        if n == 0:
            return
        for j in range(k):
            items = [] if rng.random() < 0.7 else [self.R[i] for i in range(rng.randrange(n + 1))]
            at = rng.choice([{2}, {2}, {2}, {3}, {2, 3}, {1}])
            backend = 'file' if (rng.random() < 0.7 and not self.large) else 'dict'
            self.rm_run(items, backend, root, at, rng.choice([1, 2, 3]), rng)

    # ------------------------------------------------------------------ a project that selects its store itself
    def cli_run(self, itemsX, itemsD, kind, cmds, root, rng):
        """The jugfile calls jug.set_jugdir(X) itself (X: another directory, or a store object); every command is run through
        jug.jug.main(['jug', cmd, jugfile, '--jugdir', D]) with D another directory that may hold stale results of an
        earlier run.  Every command has to work on X - the store execute writes to and barrier() asks."""
        import jug.jug
        ck, it, sc = self.ck, self.it, self.sc
        X, D = os.path.join(root, 'jdX'), os.path.join(root, 'jdD')
        shutil.rmtree(X, ignore_errors=True)
        shutil.rmtree(D, ignore_errors=True)
        if kind == 'object':
            sc.marks.XSTORE = dict_store()
            header = 'import jug\nfrom %s import XSTORE\njug.set_jugdir(XSTORE)\n\n' % lg.MARKMOD
            openX = lambda: sc.marks.XSTORE
        else:
            header = 'import jug\njug.set_jugdir(%r)\n\n' % X
            openX = lambda: file_store(X)
        sx = openX()
        lg.fill_store(sx, itemsX)
        sd = file_store(D)
        lg.fill_store(sd, itemsD)
        keysD = sorted(lg.hx(k) for k in sd.list())
        sc.write(self.prog, header=header)
        ctx = dict(start=[[h, v] for h, v in itemsX], stale=[[h, v] for h, v in itemsD], cli={'kind': kind, 'cmds': list(cmds)})
        steps, metas = [], []
        try:
            for k, cmd in enumerate(cmds):
                before = lg.store_items(openX())
                # what the project looks like now, loaded by the harness against X
                r = lg.real_init(sc, openX())
                loadable = [bool(t.can_load()) for t in r['objs']]
                complete = (not r['hasbarrier']) and all(loadable)
                argv = ['jug', cmd if cmd != 'invalidate' else 'invalidate', sc.jugfile, '--jugdir', D]
                target = None
                if cmd == 'invalidate':
                    names = sorted(set(t.name for t in r['objs'] if not t.name.startswith('jug.')))
                    target = rng.choice(names) if names else 'jvjf.f'
                    argv += ['--target', target]
                    bad_ids = set()
                    for t in r['objs']:                       # creation order: dependencies come first
                        if t.name == target or any(id(dep) in bad_ids for dep in t.dependencies()):
                            bad_ids.add(id(t))
                    want_removed = sorted(set(lg.hx(t.hash()) for t in r['objs'] if id(t) in bad_ids and lg.hx(t.hash()) in before))
                elif cmd == 'execute':
                    argv += ['--nr-wait-cycles', '2', '--wait-cycle-time', '0', '--will-cite']
                elif cmd == 'status':
                    argv += ['--short']
                code, outtxt = self.run_main(argv)
                after = lg.store_items(openX())
                c2 = dict(ctx, step=k, cmd=cmd, code=code if not isinstance(code, tuple) else list(code))
                keysD2 = sorted(lg.hx(x) for x in file_store(D).list())
                if keysD2 != keysD:
                    self.viol('a command changed the results in the command-line jugdir although the jugfile selects another store',
                              before=len(keysD), after=len(keysD2), **c2)
                    keysD = keysD2
                if cmd == 'check':
                    if (code == 0) != complete:
                        self.viol('jug check does not report the state of the store the jugfile uses (exit 0 iff no barrier closed and '
                                  'every task stored THERE)', hasbarrier=r['hasbarrier'], complete=complete, **c2)
                    lit = '(CCheck %s, %s)' % (natlit(code if isinstance(code, int) else 99), lg.coq_store(sorted(after.items()), it))
                elif cmd == 'sleep-until':
                    exited = code == 0
                    if exited != complete:
                        self.viol('jug sleep-until exits / waits against another store than the one the jugfile uses', complete=complete, **c2)
                    lit = '(CSleepUntil %s, %s)' % (boollit(exited), lg.coq_store(sorted(after.items()), it))
                elif cmd == 'status':
                    import re
                    m = re.search(r'All tasks complete \((\d+) tasks\)', outtxt)
                    if m:
                        nc, ni = int(m.group(1)), 0
                    else:
                        m = re.search(r'(\d+) tasks waiting to be run, (\d+) failed, (\d+) complete, \((none|\d+) active\)', outtxt)
                        if not m:
                            self.viol('jug status printed nothing recognisable', output=outtxt[-300:], **c2)
                            return
                        nc, ni = int(m.group(3)), int(m.group(1)) + int(m.group(2)) + (0 if m.group(4) == 'none' else int(m.group(4)))
                    if (nc, ni) != (sum(loadable), len(loadable) - sum(loadable)):
                        self.viol('jug status counts are not those of the store the jugfile uses', status=[nc, ni],
                                  expected=[sum(loadable), len(loadable) - sum(loadable)], **c2)
                    lit = '(CStatus %s %s, %s)' % (natlit(nc), natlit(ni), lg.coq_store(sorted(after.items()), it))
                elif cmd == 'execute':
                    if code != 0:
                        self.viol('jug execute exited with an error', output=outtxt[-400:], **c2)
                        return
                    exp = dict(self.R)
                    if all(exp.get(h) == v for h, v in before.items()):
                        top = [it.hash_of_desc[d] for d, _ in self.scope]
                        bad = [h for h in after if h not in exp or after[h] != exp[h]] + [h for h in top if h not in after]
                        if bad:
                            self.viol('jug execute did not leave its results in the store the jugfile selects', keys=sorted(set(bad))[:20], **c2)
                    lit = '(CExecute, %s)' % lg.coq_store(sorted(after.items()), it)
                elif cmd == 'cleanup':
                    keep = set(r['tasks'])
                    bad = [h for h in before if h in keep and after.get(h) != before[h]] + [h for h in after if h not in keep]
                    if bad:
                        self.viol('jug cleanup did not clean the store the jugfile uses (kept exactly the results of loaded tasks)',
                                  keys=sorted(set(bad))[:20], **c2)
                    lit = '(CCleanup, %s)' % lg.coq_store(sorted(after.items()), it)
                else:
                    got = sorted(h for h in before if h not in after)
                    if got != want_removed or any(after.get(h) != v for h, v in before.items() if h not in got):
                        self.viol('jug invalidate did not remove from the store the jugfile uses exactly the results of the named '
                                  'tasks and of everything computed from them', target=target, removed=got, expected=want_removed, **c2)
                    lit = '(CInvalidate [%s], %s)' % ('; '.join(str(it.hash_id(h)) for h in want_removed), lg.coq_store(sorted(after.items()), it))
                if cmd != 'execute' and cmd != 'sleep-until' and isinstance(code, tuple):
                    self.viol('jug %s raised an exception' % cmd, **c2)
                    return
                steps.append(lit)
                metas.append({'cmd': cmd, 'code': c2['code'], 'target': target, 'store_after': sorted(after.items())})
                ck.count('project with its own store: jug %s' % cmd)
        finally:
            sc.write(self.prog)
            jugrun.fresh()
        lit = '(%s, [%s])' % (lg.coq_store(itemsX, it), ';\n   '.join(steps))
        self.cli_obs.append(lit)
        self.cli_meta.append(dict(ctx, steps=metas, nwc=2))
        ck.count('project with its own store: %s, command-line jugdir %s' % (
            'a store object' if kind == 'object' else 'another directory', 'holds stale results' if itemsD else 'empty'))
        ck.distinct((self.term, lit), self.nb > 0)

    def run_main(self, argv):
        """jug.jug.main(argv) in-process -> (exit code | ('raised', ...) | 'waiting', printed output)"""
        import time
        import signal
        import jug.jug
        from jug.hooks.register import reset_all_hooks
        del jug.task.alltasks[:]
        sargv, path = list(sys.argv), list(sys.path)
        term = signal.getsignal(signal.SIGTERM)
        orig = time.sleep

        def nosleep(sec):
            if sec:
                raise lg.StillWaiting()
        code = None
        from . import patching
        sleep_patch = patching.patch_everywhere(orig, nosleep, home=time, name='sleep')     # also jug's own `from time import sleep` globals
        try:
            with jugrun.quiet() as (out, err):
                sleep_patch.__enter__()
                try:
                    with lg.time_limit(lg.EXEC_TIME_LIMIT):
                        jug.jug.main(list(argv))
                    code = 0
                except SystemExit as e:
                    code = 0 if e.code in (None, 0) else (e.code if isinstance(e.code, int) else 1)
                except lg.StillWaiting:
                    code = 'waiting'
                except lg.ExecTimeout as e:
                    code = ('raised', 'ExecTimeout', str(e)[:200])
                except Exception as e:
                    code = ('raised', type(e).__name__, str(e)[:200])
        finally:
            sleep_patch.__exit__(None, None, None)
            sys.argv[:] = sargv
            sys.path[:] = path
            try:
                signal.signal(signal.SIGTERM, term)
            except (ValueError, TypeError):
                pass
            reset_all_hooks()
        return code, out.getvalue() + err.getvalue()

    def cli_runs(self, rng, root, k):
        n = len(self.R)
        for j in range(k):
            r = rng.random()
            itemsX = [] if r < 0.4 else ([self.R[i] for i in range(rng.randrange(n + 1))] if r < 0.7 else [kv for kv in self.R if rng.random() < 0.5])
            r = rng.random()
            itemsD = [] if r < 0.35 else (list(self.R) if r < 0.8 else [kv for kv in self.R if rng.random() < 0.6])
            cmds = [rng.choice(['check', 'check', 'status', 'sleep-until', 'invalidate', 'cleanup']) for _ in range(rng.choice([1, 2, 2, 3]))]
            cmds += ['execute'] + [rng.choice(['check', 'status', 'sleep-until', 'invalidate', 'cleanup', 'execute']) for _ in range(rng.choice([2, 3, 4]))]
            cmds += ['check']
            self.cli_run(itemsX, itemsD, 'object' if rng.random() < 0.3 else 'directory', cmds, root, rng)

    def blocked_runs(self, rng, root, k):
        n = len(self.R)
        if n == 0:
            return
        plain = [i for i, d in enumerate(self.Rdesc) if not d[1].startswith('comp')]
        for j in range(k):
            r = rng.random()
            items = [] if rng.random() < 0.6 else [self.R[i] for i in range(n) if rng.random() < 0.4]
            have = set(h for h, _ in items)
            nwc = rng.choice([1, 2, 2, 3])
            backend = 'file' if (rng.random() < 0.2 and not self.large) else 'dict'
            if r < 0.35 or not plain:
                chosen = sorted(rng.sample(range(n), min(n, rng.choice([1, 1, 2]))))
                self.lrun(items, backend, root, rng.choice(['held', 'held', 'failed']), chosen, nwc)
            else:
                cand = [i for i in plain if self.R[i][0] not in have] or plain
                chosen = sorted(rng.sample(cand, min(len(cand), rng.choice([1, 1, 1, 2]))))
                mode = rng.choice(['raises', 'raises', 'raises-once'])
                kg = rng.random() < 0.8
                self.lrun(items, backend, root, mode, chosen, nwc, keep_going=kg, keep_failed=rng.random() < 0.5)


def run(ck):
    ck.prove()
    ck.trusted_base = core.DEFAULT_TRUSTED_BASE + [
        'C14: one worker (the multi-worker protocol is C01/C02; what other workers leave behind enters as store states and '
        'as locks held / marked failed); the task identifiers of the model are the real '
        'hashes, predicted for every branch with jug.task.Task(...).hash() on stub functions (harness/loadergen.py); '
        'values are integers mod 3 and pairs of them; task functions are rendered by hand in Gallina (fn_f ...); long '
        'programs are run with sys.setrecursionlimit(current depth + %d) around jug.init / jug execute only' % SLACK,
    ]
    ck.assumptions = ['C14_reload_loop: the sequential evaluation succeeds (every task reference is in scope), gives one '
                      'value per identifier (checked by functionalb on every execute case), and the start store does not '
                      'contradict it', 'C14_closed_barrier_*: Python scoping (wf [] p)']
    rng = ck.rng
    nprog = ck.n(180, 1800)
    ndeep = ck.n(8, 50)
    niter = ck.n(10, 60)
    cap = ck.n(36, 80)
    nexec = ck.n(2, 4)
    home = os.environ.get('HOME')
    init_cases, init_runs, exec_cases, exec_runs = [], [], [], []
    with jugrun.scratch_dir('jugv_c14_') as root:
        os.environ['HOME'] = root
        sc = lg.Scratch(root)
        try:
            progs = [(n, p, None) for n, p in CORPUS] + [('D21-check-witness', d21_check_witness(), SLACK), ('D21-witness', d21_witness(), SLACK)]
            for i in range(nprog):
                style = i % 4
                if style == 0:
                    prog = lg.generate(rng, max_tasks=5, max_b=3, max_comp=1, branch_depth=2)
                elif style == 1:
                    prog = lg.generate(rng, max_tasks=6, max_b=4, max_comp=1, branch_depth=1, barrier_bias=1.8)
                elif style == 2:
                    prog = lg.generate(rng, max_tasks=7, max_b=3, max_comp=2, branch_depth=2, compound_bias=0.6, kw_bias=0.5)
                else:
                    prog = lg.generate(rng, max_tasks=4, max_b=4, max_comp=0, branch_depth=2, barrier_bias=2.5)
                progs.append(('gen%d' % i, prog, None))
            for i in range(niter):
                progs.append(('iter%d' % i, lg.generate_iter(rng), None))
            for i in range(ndeep):
                progs.append(('deep%d' % i, lg.generate_deep(rng), SLACK))
            for name, prog, slack in progs:
                pr = ProgramRun(ck, sc, name, prog, slack=slack)
                full = name in ('D18-witness',)
                pr.states(rng, 64 if full else cap, root)
                pr.executes(rng, root, nexec)
                if pr.nb > 0:
                    pr.blocked_runs(rng, root, 2 if name.startswith('gen') else 3)
                pr.sleep_untils(rng, root, 2 if (pr.nb > 0 or pr.large) else 1)
                if pr.nb > 0:
                    pr.removal_runs(rng, root, 2 if not name.startswith('gen') else 1)
                if not pr.large and (pr.nb > 0 or len(progs) < 40) and rng.random() < (1.0 if not name.startswith('gen') else 0.4):
                    pr.cli_runs(rng, root, 1)
                init_cases.append('(%s,\n [%s])' % (pr.term, ';\n  '.join(pr.init_obs)))
                exec_cases.append(exec_case(pr.term, ';\n  '.join(pr.exec_obs), ';\n  '.join(pr.lrun_obs), ';\n  '.join(pr.su_obs),
                                            ';\n  '.join(pr.rm_obs), ';\n  '.join(pr.cli_obs)))
                init_runs.append(pr)
                exec_runs.append(pr)
                ck.count('programs')
                ck.count('programs with %d barrier/bvalue on the sequential path' % pr.nb if pr.nb < 4 else
                         'programs with 4 or more barrier/bvalue on the sequential path')
                if pr.large:
                    ck.count('programs with long dependency chains')
                if any(d[1].startswith('comp') for d, _ in pr.log):
                    ck.count('programs with a compound on the sequential path')
                if len(ck.samples) < 4 and pr.nb >= 2 and not pr.large:
                    ck.sample({'jugfile': lg.render_python(prog)[len(lg.PRELUDE):], 'sequential_values': [[repr(d), v] for d, v in pr.log],
                               'states_tried': len(pr.init_obs), 'first_states': pr.init_meta[:3], 'executes': pr.exec_meta[:2],
                               'blocked_runs': pr.lrun_meta[:1]})
            jugrun.fresh()
        finally:
            sc.close()
            if home is None:
                os.environ.pop('HOME', None)
            else:
                os.environ['HOME'] = home
    nobs = sum(len(pr.init_obs) + len(pr.exec_obs) + getattr(pr, 'nlruns', 0) + len(pr.su_obs) + len(pr.rm_obs) + sum(len(m['steps']) for m in pr.cli_meta) for pr in init_runs)
    # long programs: one per shard (their literals are large), the others 12 per shard
    fails = cases_by_size(ck, 'init', INIT_TYPE, 'chk_init', init_cases, init_runs)
    for i in (fails or [])[:3]:
        pin_init(ck, init_runs[i])
    if fails and len(fails) > 3:
        ck.count('init: further programs on which model and jug disagree (not pinned)', len(fails) - 3)
    fails = cases_by_size(ck, 'exec', EXEC_TYPE, 'chk_exec', exec_cases, exec_runs)
    for i in (fails or [])[:3]:
        pin_exec(ck, exec_runs[i])
    if fails and len(fails) > 3:
        ck.count('execute: further programs on which model and jug disagree (not pinned)', len(fails) - 3)
    ck.case_total = nobs                   # evaluations = (jugfile, store state) pairs, not programs
    # many workers x barrier phases: lock-step runs of the real `jug execute` reload loop by several workers on programs with
    # barrier()/bvalue(), validated against Model/ExecCase.v bexec_case_ok (harness/execbarrier.py; notes/EXEC_BARRIER_SPEC.md)
    from . import execbarrier
    execbarrier.tie(ck)


def exec_case(term, e='', l='', s='', r='', c=''):
    return '(%s,\n [%s],\n [%s],\n [%s],\n [%s],\n [%s])' % (term, e, l, s, r, c)


def cases_by_size(ck, name, typ, chk, cases, runs):
    """small programs in shards of 12, long ones in shards of 1 (evaluated in parallel); failing indices into `cases`"""
    small = [i for i, pr in enumerate(runs) if not pr.large]
    big = [i for i, pr in enumerate(runs) if pr.large]
    out, broken = [], False
    f1 = ck.cases(name, lg.COQ_IMPORTS, typ, chk, [cases[i] for i in small], shard=12, preamble=PREAMBLE)
    if f1 is None:
        broken = True
    else:
        out += [small[j] for j in f1]
    if big:
        f2 = ck.cases(name + '_long', lg.COQ_IMPORTS, typ, chk, [cases[i] for i in big], shard=1, preamble=PREAMBLE)
        if f2 is None:
            broken = True
        else:
            out += [big[j] for j in f2]
    return None if broken else sorted(out)


def pin_init(ck, pr):
    """which store states of this program disagree with the model"""
    singles = ['(%s,\n [%s])' % (pr.term, o) for o in pr.init_obs]
    fails = ck.cases('init_pin', lg.COQ_IMPORTS, INIT_TYPE, 'chk_init', singles, shard=100, preamble=PREAMBLE)
    for j in (fails if fails else [0])[:3]:
        ck.violation(dict(prog_fields(pr), **{
            'kind': 'correspondence', 'what': 'loader: model and jug.init / check disagree', 'program': pr.name,
            'observed': pr.init_meta[j] if not pr.large else dict(pr.init_meta[j], tasks=len(pr.init_meta[j]['tasks']), names=None),
            'store': pr.init_meta[j]['store'], 'backend': pr.init_meta[j]['backend'],
            'coq_observation': pr.init_obs[j] if not pr.large else '(long)'}))


def prog_fields(pr):
    if pr.large:
        return {'prog_flat': lg.flatten(pr.prog), 'jugfile': lg.render_python(pr.prog)[len(lg.PRELUDE):], 'slack': pr.slack}
    return {'prog': pr.prog, 'jugfile': lg.render_python(pr.prog), 'interning': pr.it.table(), 'coq_program': pr.term,
            'slack': pr.slack}


def pin_exec(ck, pr):
    singles = [exec_case(pr.term, e=o) for o in pr.exec_obs] + [exec_case(pr.term, l=o) for o in pr.lrun_obs] + \
              [exec_case(pr.term, s=o) for o in pr.su_obs] + [exec_case(pr.term, r=o) for o in pr.rm_obs] + \
              [exec_case(pr.term, c=o) for o in pr.cli_obs]
    metas = [('exec', m) for m in pr.exec_meta] + [('blocked', m) for m in pr.lrun_meta] + [('sleep-until', m) for m in pr.su_meta] + \
            [('removal', m) for m in pr.rm_meta] + [('cli', m) for m in pr.cli_meta]
    fails = ck.cases('exec_pin', lg.COQ_IMPORTS, EXEC_TYPE, 'chk_exec', singles, shard=100, preamble=PREAMBLE)
    for j in (fails if fails else [0])[:3]:
        kind, m = metas[j]
        o = dict(prog_fields(pr), **{
            'kind': 'correspondence', 'program': pr.name, 'observed': m if not (pr.large and 'final' in m) else dict(m, final=len(m['final'])),
            'start': m['start'], 'backend': m.get('backend', 'file'),
            'nwc': m.get('nwc', 1), 'coq_observation': singles[j][len(pr.term) + 3:] if not pr.large else '(long)'})
        if kind == 'exec':
            o['what'] = 'reload loop: model and jug execute disagree'
        elif kind == 'blocked':
            o['what'] = 'reload loop with tasks this worker cannot run: model and jug execute disagree'
            o['blocked_run'] = {'mode': m['mode'], 'chosen': m['chosen'], 'keep_going': m['keep_going'], 'keep_failed': m['keep_failed']}
        elif kind == 'sleep-until':
            o['what'] = 'jug sleep-until: model (Loader.sleep_until) and SleepUntilCommand disagree'
            o['sleep_until'] = m['sleep_until']
        elif kind == 'removal':
            o['what'] = 'reload loop while another process removes results: model (run_phases_rm) and jug execute disagree'
            o['removal'] = m['removal']
        else:
            o['what'] = 'a project that selects its store itself, driven through the command line: model and jug disagree'
            o['cli'] = m['cli']
            o['stale'] = m['stale']
        ck.violation(o)


# ---------------------------------------------------------------------------- replay
def replay(obj):
    if obj.get('kind2') == 'exec-barrier':
        from . import execbarrier
        return execbarrier.replay(obj)
    prog = obj['prog'] if obj.get('prog') else lg.unflatten(obj['prog_flat'])
    rc = 0
    with jugrun.scratch_dir('jugv_c14r_') as root:
        home = os.environ.get('HOME')
        os.environ['HOME'] = root
        sc = lg.Scratch(root)
        try:
            ck = lg.ReplayCheck('C14', obj.get('seed', 0))
            pr = ProgramRun(ck, sc, obj.get('program', 'replay'), prog, slack=obj.get('slack'))
            if pr.large:
                print('(long program: %d statements, %d results on the sequential path; recursion slack %s)'
                      % (lg.nstatements(prog), len(pr.R), pr.slack))
            else:
                print(lg.render_python(prog)[len(lg.PRELUDE):])
                print('sequential values:', [(pr.it.desc_id(d), v) for d, v in pr.log])
            short = (lambda kv: kv) if not pr.large else (lambda kv: '%d results' % len(kv))
            br = obj.get('blocked_run') or ({'mode': obj['mode'], 'chosen': obj['chosen'],
                                             'keep_going': '--keep-going' in obj.get('options', []),
                                             'keep_failed': '--keep-failed' in obj.get('options', [])} if 'mode' in obj else None)
            if obj.get('cli') is not None:
                import random
                items = [(h, tuplify(v)) for h, v in obj['start']]
                stale = [(h, tuplify(v)) for h, v in obj.get('stale', [])]
                pr.cli_run(items, stale, obj['cli']['kind'], obj['cli']['cmds'], root, random.Random(obj.get('seed', 0)))
                for m in pr.cli_meta[-1:]:
                    for st in m['steps']:
                        print(' jug %-11s -> %s   %s' % (st['cmd'] + ((' ' + st['target']) if st['target'] else ''), st['code'],
                                                     [(pr.it.hash_id(h), v) for h, v in st['store_after']]))
                cases, typ, chk = [exec_case(pr.term, c=o) for o in pr.cli_obs], EXEC_TYPE, 'chk_exec'
            elif obj.get('removal') is not None:
                import random
                items = [(h, tuplify(v)) for h, v in obj['start']]
                pr.rm_run(items, obj.get('backend', 'file'), root, set(obj['removal']['at_loads']), obj.get('nwc', 1), random.Random(obj.get('seed', 0)))
                print('execute from', short([(pr.it.hash_id(h), v) for h, v in items]), 'with removals before loads', obj['removal']['at_loads'], '->',
                      [dict((k, m[k]) for k in ('loads', 'removed')) for m in pr.rm_meta[-1:]] or 'see the violations')
                cases, typ, chk = [exec_case(pr.term, r=o) for o in pr.rm_obs], EXEC_TYPE, 'chk_exec'
            elif obj.get('sleep_until') is not None:
                items = [(h, tuplify(v)) for h, v in obj['start']]
                writes = [[(h, tuplify(v)) for h, v in w] for w in obj['sleep_until']['writes']]
                pr.one_sleep_until(items, writes, obj.get('backend', 'dict'), root)
                print('sleep-until from', short([(pr.it.hash_id(h), v) for h, v in items]), 'while others write',
                      [[pr.it.hash_id(h) for h, _ in w] if not pr.large else len(w) for w in writes], '->',
                      [dict((k, m[k]) for k in ('status', 'sleeps', 'loads')) for m in pr.su_meta[-1:]] or 'see the violations')
                cases, typ, chk = [exec_case(pr.term, s=o) for o in pr.su_obs], EXEC_TYPE, 'chk_exec'
            elif br is not None:
                items = [(h, tuplify(v)) for h, v in obj['start']]
                pr.lrun(items, obj.get('backend', 'dict'), root, br['mode'], br['chosen'], obj.get('nwc', 1),
                        keep_going=br.get('keep_going', True), keep_failed=br.get('keep_failed', False))
                print('blocked run (%s) from' % br['mode'], short([(pr.it.hash_id(h), v) for h, v in items]), '->',
                      [dict((k, m[k]) for k in ('code', 'raised', 'loads', 'blocked')) for m in pr.lrun_meta[-1:]] or 'see the violations')
                cases, typ, chk = [exec_case(pr.term, l=o) for o in pr.lrun_obs], EXEC_TYPE, 'chk_exec'
            elif 'start' in obj:
                items = [(h, tuplify(v)) for h, v in obj['start']]
                agrees = all(dict(pr.R).get(h) == v for h, v in items)
                pr.one_exec(items, obj.get('backend', 'dict'), root, agrees, nwc=obj.get('nwc', 1))
                print('execute from', short([(pr.it.hash_id(h), v) for h, v in items]), '->',
                      [dict((k, (m[k] if k != 'final' else short(m[k]))) for k in ('loads', 'final', 'nwc')) for m in pr.exec_meta[-1:]] or 'failed')
                cases, typ, chk = [exec_case(pr.term, e=o) for o in pr.exec_obs], EXEC_TYPE, 'chk_exec'
            else:
                items = [(h, tuplify(v)) for h, v in obj.get('store', [])]
                pr.one_state(items, obj.get('backend', 'dict'), root)
                print('init against', short([(pr.it.hash_id(h), v) for h, v in items]), '->',
                      [dict((k, (m[k] if (k != 'tasks' or not pr.large) else len(m[k]))) for k in ('tasks', 'marks', 'hasbarrier', 'check'))
                       for m in pr.init_meta[-1:]] or 'failed')
                cases, typ, chk = ['(%s,\n [%s])' % (pr.term, o) for o in pr.init_obs], INIT_TYPE, 'chk_init'
            jugrun.fresh()
        finally:
            sc.close()
            if home is None:
                os.environ.pop('HOME', None)
            else:
                os.environ['HOME'] = home
    if ck.found:
        for o in ck.found:
            print('VIOLATED on the real code:', o.get('what'), dict((k, o[k]) for k in ('marker', 'detail', 'code', 'loadable', 'raised', 'keys', 'locks_after', 'loads', 'sleeps', 'hasbarrier', 'check', 'without_result', 'cmd', 'step', 'complete', 'status', 'expected', 'removed', 'target') if k in o))
        rc = 1
    mrc, out = core.make(['Model/Loader.vo'])
    fails = ck.cases('replay', lg.COQ_IMPORTS, typ, chk, cases, preamble=PREAMBLE) if (mrc == 0 and cases) else None
    if not cases:
        print('model vs observed: (this kind of run has no model case)')
    else:
        print('model vs observed:', 'agree' if fails == [] else ('DISAGREE' if fails else 'could not evaluate'))
        if fails != []:
            rc = 1
    return rc
