"""Shared by C14 (barriers / bvalue) and C18 (compound tasks): a small language of jugfiles.

A program is a tree (JSON-able dicts):
  {'op':'def', 'var':'t3', 'fn':'f', 'args':[ARG,...], 'k':NODE}
  {'op':'mark', 'n':5, 'kind':'plain'|'bar'|'bv', 'ref':ARG?, 'vvar':str?, 'k':NODE}
  {'op':'barrier', 'k':NODE}
  {'op':'bvalue', 'var':'v4', 'arg':ARG, 'plain_value':bool, 'branches':{'0':NODE,'1':NODE,'2':NODE} | {'*':NODE}}
  {'op':'compound', 'var':'c5', 'name':'comp5', 'params':[var,...], 'body':NODE, 'k':NODE,
   'formals':[names]?  (parameter names of the builder; default = params: a builder can be called several times, with
                        other tasks, the same tasks in another order),
   'kwf':{'k':0,...}?  (keyword parameters of the builder with their defaults), 'kw':{'k':1.0}? (the ones passed in this
                        call; any of 0 1 2 0.0 1.0 2.0 False True - the builder uses int(k); 'body' is the builder's body
                        with the values of this call written into its {'v':'k','val':..} arguments)}
  {'op':'ret', 'arg':ARG}
  ARG = {'c':int} | {'t':var} | {'tup':[ARG,ARG]} | {'v':var,'val':int}
It is rendered (a) to Python source using the real jug API, (b) to a Gallina term of type
Model.Loader.jprog, and (c) interpreted sequentially in Python without jug (the oracle).
Task identifiers of the model are interned real hashes, predicted for every branch with the real
hashing code (jug.task.Task(...).hash() on stub functions carrying the jugfile's names)."""
import os
import sys

from . import core
from . import jugrun
import jug
import jug.jug
import jug.task
import jug.options
from jug.backends.dict_store import dict_store
from jug.backends.file_store import file_store

M = 3                                  # values are integers mod M, or pairs of those
MODNAME = 'jvjf'
MARKMOD = 'jugv_marks'
TOPMARK = 999999                       # the marker at the top of every generated jugfile (counts the loads)

PRELUDE = '''from jug import TaskGenerator, barrier, bvalue, value
from jug.compound import CompoundTaskGenerator
from %s import mark, mark_bar, mark_bv, maybe_fail


@TaskGenerator
def f(x, c):
    maybe_fail('f', x, c)
    return (2 * x + c + 1) %% 3


@TaskGenerator
def g(x, y):
    maybe_fail('g', x, y)
    return (x + 2 * y) %% 3


@TaskGenerator
def pair(x, y):
    maybe_fail('pair', x, y)
    return (x, y)


@TaskGenerator
def tsum(p):
    maybe_fail('tsum', p)
    return (p[0] + 2 * p[1] + 1) %% 3


@TaskGenerator
def pfst(p):
    maybe_fail('pfst', p)
    return p[0]

''' % MARKMOD

MARKS_SRC = '''"""marker side effects of generated jugfiles (C14/C18 harness)"""
import jug.task

LOG = []          # (n, kind, detail)
FAIL = {}         # (function name, argument values) -> -1: raises every time, k > 0: raises the next k times
RAISED = []       # (function name, argument values) of every injected failure that was raised


def maybe_fail(name, *args):
    k = FAIL.get((name, args), 0)
    if k:
        if k > 0:
            FAIL[(name, args)] = k - 1
        RAISED.append((name, args))
        raise ValueError('injected failure in %s%r' % (name, args))


ONLOAD = []       # callables run by the first statement of the jugfile (mark(999999)), i.e. at the start of every load
FRESH = []        # [callable returning a NEW store object on the data the jugfile's store is on]: the markers then ask
                  # that one, not the (long-lived) store object of the running command


def _has(t):
    if FRESH:
        return bool(FRESH[0]().can_load(t.hash()))
    return bool(t.can_load())


def mark(n):
    LOG.append((n, 'plain', None))
    if n == 999999:
        for f in list(ONLOAD):
            f()


def mark_bar(n):
    # executed right after a barrier(): which of the tasks defined so far have a result NOW
    LOG.append((n, 'bar', [_has(t) for t in jug.task.alltasks]))


def _loadable(x):
    if isinstance(x, jug.task.Task):
        return _has(x)
    if isinstance(x, (tuple, list)):
        return all(_loadable(e) for e in x)
    return True


def _stored_value(x):
    if isinstance(x, jug.task.Task):
        return jug.task.Task.store.load(x.hash())
    if isinstance(x, tuple):
        return tuple(_stored_value(e) for e in x)
    return x


def mark_bv(n, v, x):
    # executed right after v = bvalue(x): was x loadable, and is v what the store holds
    ok = _loadable(x)
    LOG.append((n, 'bv', [ok, bool(ok and _stored_value(x) == v)]))
'''

FNS = {
    'f': lambda x, c: (2 * x + c + 1) % 3,
    'g': lambda x, y: (x + 2 * y) % 3,
    'pair': lambda x, y: (x, y),
    'tsum': lambda p: (p[0] + 2 * p[1] + 1) % 3,
    'pfst': lambda p: p[0],
}
FN_SIG = {'f': (('int', 'const'), 'int'), 'g': (('int', 'int'), 'int'), 'pair': (('int', 'int'), 'pair'),
          'tsum': (('pair',), 'int'), 'pfst': (('pair',), 'int')}

COQ_PREAMBLE = '''
Local Open Scope positive_scope.
Definition m3 (z : Z) : val := VInt (z mod 3)%Z.
Definition fn_f (vs : list val) : val := match vs with [VInt x; VInt c] => m3 (2 * x + c + 1)%Z | _ => VInt 0 end.
Definition fn_g (vs : list val) : val := match vs with [VInt x; VInt y] => m3 (x + 2 * y)%Z | _ => VInt 0 end.
Definition fn_pair (vs : list val) : val := match vs with [x; y] => VTup [x; y] | _ => VInt 0 end.
Definition fn_tsum (vs : list val) : val := match vs with [VTup [VInt x; VInt y]] => m3 (x + 2 * y + 1)%Z | _ => VInt 0 end.
Definition fn_pfst (vs : list val) : val := match vs with [VTup [x; _]] => x | _ => VInt 0 end.
Fixpoint sel (v : val) (bs : list (val * jprog)) (d : jprog) : jprog :=
  match bs with [] => d | (w, p) :: r => if val_eqb v w then p else sel v r d end.
Definition I (z : Z) : val := VInt z.
Definition P2 (a b : Z) : val := VTup [VInt a; VInt b].
Definition T (i : positive) (args : list arg) (f : list val -> val) : task := mkTask i args f.
Definition K (z : Z) : arg := AVal (VInt z).
Definition ids (ts : list task) : list tid := map tid_of ts.
Definition pos_list_eqb := list_eqb Pos.eqb.
Definition nat_list_eqb := list_eqb Nat.eqb.
'''
COQ_IMPORTS = 'From JugV Require Import Model.Loader.'


class HarnessError(RuntimeError):
    pass


# ------------------------------------------------------------------------------------ generation
class Gen:
    KWVALS = (0, 1, 2, 0.0, 1.0, 2.0, False, True)      # int(v) is a value mod 3; 1, 1.0 and True are three different arguments

    def __init__(self, rng, max_tasks=6, max_b=3, max_comp=2, branch_depth=2, compound_bias=0.0, barrier_bias=1.0, kw_bias=0.0):
        self.rng = rng
        self.n = 0
        self.kw_bias = kw_bias           # > 0: builders with keyword parameters, builders called more than once
        self.builders = []
        self.max_tasks = max_tasks
        self.max_b = max_b
        self.max_comp = max_comp
        self.branch_depth = branch_depth
        self.compound_bias = compound_bias
        self.barrier_bias = barrier_bias

    def fresh(self, p):
        self.n += 1
        return '%s%d' % (p, self.n)

    def int_arg(self, env, allow_const=True):
        rng = self.rng
        cands = [{'t': v} for (v, ty, _) in env if ty == 'int']
        vals = [{'v': v, 'val': x} for (v, ty, x) in env if ty == 'known']
        r = rng.random()
        if cands and r < 0.7:
            return rng.choice(cands)
        if vals and r < 0.85:
            return rng.choice(vals)
        if allow_const or not cands:
            return {'c': rng.randrange(M)}
        return rng.choice(cands)

    def pair_arg(self, env):
        rng = self.rng
        cands = [{'t': v} for (v, ty, _) in env if ty == 'pair']
        if cands and rng.random() < 0.5:
            return rng.choice(cands)
        return {'tup': [self.int_arg(env), self.int_arg(env)]}

    def gen_def(self, env):
        rng = self.rng
        has_pair = any(ty == 'pair' for (_, ty, _) in env)
        fns = ['f', 'f', 'g', 'g', 'pair', 'tsum'] + (['pfst', 'tsum'] if has_pair else [])
        fn = rng.choice(fns)
        sig, rty = FN_SIG[fn]
        args = []
        for s in sig:
            if s == 'int':
                args.append(self.int_arg(env))
            elif s == 'const':
                a = self.int_arg(env)
                args.append(a if ('c' in a or 'v' in a) else {'c': rng.randrange(M)})
            else:
                args.append(self.pair_arg(env))
        return fn, args, rty

    def block(self, env, st, in_body):
        """st: counters along this path {'tasks','b','comp','bdepth','len'}"""
        rng = self.rng
        st = dict(st)
        tasks_here = [(v, ty) for (v, ty, _) in env if ty in ('int', 'pair')]
        stop_p = 0.0 if st['len'] < 2 else (0.12 if st['tasks'] < self.max_tasks else 1.0)
        if st['len'] >= 12 or rng.random() < stop_p:
            return self.end(env, in_body)
        st['len'] += 1
        w = {'def': 4.0 if st['tasks'] < self.max_tasks else 0.0,
             'barrier': (1.6 * self.barrier_bias) if (st['b'] < self.max_b and tasks_here) else 0.0,
             'bvalue': (2.2 * self.barrier_bias) if (st['b'] < self.max_b and tasks_here) else 0.0,
             'compound': (1.2 + self.compound_bias) if (st['comp'] < self.max_comp and st['tasks'] + 2 <= self.max_tasks + 1) else 0.0,
             'mark': 0.3}
        tot = sum(w.values())
        r = rng.random() * tot
        op = 'mark'
        for k, x in w.items():
            if r < x:
                op = k
                break
            r -= x
        if op == 'def':
            fn, args, rty = self.gen_def(env)
            var = self.fresh('t')
            st['tasks'] += 1
            return {'op': 'def', 'var': var, 'fn': fn, 'args': args, 'k': self.block(env + [(var, rty, None)], st, in_body)}
        if op == 'mark':
            return {'op': 'mark', 'n': self.fresh_mark(), 'kind': 'plain', 'k': self.block(env, st, in_body)}
        if op == 'barrier':
            st['b'] += 1
            st['after_barrier'] = set(v for (v, _) in tasks_here)
            return {'op': 'barrier', 'k': {'op': 'mark', 'n': self.fresh_mark(), 'kind': 'bar', 'k': self.block(env, st, in_body)}}
        if op == 'bvalue':
            st['b'] += 1
            ints = [v for (v, ty) in tasks_here if ty == 'int']
            var = self.fresh('v')
            if ints and (rng.random() < 0.8 or len(tasks_here) < 2):
                tv = rng.choice(ints)
                arg = {'t': tv}
                plain = tv in st.get('after_barrier', ()) and rng.random() < 0.5
                branches = {}
                deep = st['bdepth'] < self.branch_depth
                st2 = dict(st)
                st2['bdepth'] += 1
                if deep:
                    for x in range(M):
                        branches[str(x)] = {'op': 'mark', 'n': self.fresh_mark(), 'kind': 'bv', 'ref': arg, 'vvar': var,
                                            'k': self.block(env + [(var, 'known', x)], st2, in_body)}
                else:
                    # no more branching: the continuation does not look at the value
                    branches['*'] = {'op': 'mark', 'n': self.fresh_mark(), 'kind': 'bv', 'ref': arg, 'vvar': var,
                                     'k': self.block(env, st2, in_body)}
                return {'op': 'bvalue', 'var': var, 'arg': arg, 'plain_value': plain, 'branches': branches}
            # bvalue of a structure (tuple of tasks / pair task): stops unless everything in it is stored
            if any(ty == 'pair' for (_, ty) in tasks_here) and rng.random() < 0.5:
                arg = {'t': rng.choice([v for (v, ty) in tasks_here if ty == 'pair'])}
            else:
                a = {'t': rng.choice([v for (v, _) in tasks_here])}
                b = {'t': rng.choice([v for (v, _) in tasks_here])} if rng.random() < 0.8 else {'c': rng.randrange(M)}
                arg = {'tup': [a, b]}
            return {'op': 'bvalue', 'var': var, 'arg': arg, 'plain_value': False,
                    'branches': {'*': {'op': 'mark', 'n': self.fresh_mark(), 'kind': 'bv', 'ref': arg, 'vvar': var,
                                       'k': self.block(env, st, in_body)}}}
        if op == 'compound':
            st['comp'] += 1
            var = self.fresh('c')
            vis = [(v, ty, x) for (v, ty, x) in env if ty in ('int', 'pair')]
            if self.kw_bias and self.builders and rng.random() < 0.55:
                # another call of a builder defined earlier: other tasks, the same tasks in another order, other keyword
                # arguments (or the same ones written as another type), or exactly the same call again
                fit = [b for b in self.builders if all(any(ty == fty for (_, ty, _) in vis) for fty in b['ftypes'])
                       and st['tasks'] + b['ntasks'] + 1 <= self.max_tasks + 2]
                if fit:
                    b = rng.choice(fit)
                    last = b['calls'][-1]
                    r = rng.random()
                    if r < 0.45 or not b['formals']:
                        actuals = list(last[0])
                        if not all(any(v == a for (v, _, _) in vis) for a in actuals):
                            actuals = None
                    elif r < 0.7 and len(b['formals']) == 2 and b['ftypes'][0] == b['ftypes'][1]:
                        actuals = list(reversed(last[0]))
                        if not all(any(v == a for (v, _, _) in vis) for a in actuals):
                            actuals = None
                    else:
                        actuals = None
                    if actuals is None:
                        actuals = [rng.choice([v for (v, ty, _) in vis if ty == fty]) for fty in b['ftypes']]
                    kw = dict(last[1])
                    if b['kwf'] and rng.random() < 0.8:
                        k = rng.choice(sorted(b['kwf']))
                        r = rng.random()
                        if r < 0.25 and k in kw:
                            del kw[k]                                   # falls back to the default
                        elif r < 0.55:
                            same = [v for v in self.KWVALS if int(v) == int(kw.get(k, b['kwf'][k])) and type(v) is not type(kw.get(k))]
                            kw[k] = rng.choice(same)                    # the same number, another type
                        else:
                            kw[k] = rng.choice(self.KWVALS)
                    vals = dict((k, int(kw.get(k, d))) for k, d in b['kwf'].items())
                    b['calls'].append((list(actuals), dict(kw)))
                    st['tasks'] += b['ntasks'] + 1
                    st['b'] += b['nb']
                    return {'op': 'compound', 'var': var, 'name': b['name'], 'params': actuals, 'formals': list(b['formals']),
                            'kwf': dict(b['kwf']), 'kw': kw, 'body': subst_known(b['body'], vals) if vals else b['body'],
                            'k': self.block(env + [(var, b['rty'], None)], st, in_body)}
            rng.shuffle(vis)
            params = sorted(vis[:rng.choice([0, 1, 1, 2, 2])], key=lambda e: e[0])
            name = self.fresh('comp')
            kwf, kw = {}, {}
            if self.kw_bias and rng.random() < self.kw_bias:
                for k in (['k'] if rng.random() < 0.6 else ['k', 'w']):
                    kwf[k] = rng.randrange(M)
                    if rng.random() < 0.6:
                        kw[k] = rng.choice(self.KWVALS)
            known = [(k, 'known', int(kw.get(k, d))) for k, d in sorted(kwf.items())]
            bst = {'tasks': st['tasks'], 'b': st['b'], 'comp': st['comp'], 'bdepth': max(st['bdepth'], self.branch_depth - 1), 'len': 1}
            body = self.body(list(params) + known, bst)
            rty = self.ret_type(body, dict((v, ty) for (v, ty, _) in params))
            ntasks = self.count_path_tasks(body)
            nb = self.count_path_b(body)
            st['tasks'] += ntasks + 1
            st['b'] += nb
            node = {'op': 'compound', 'var': var, 'name': name, 'params': [v for (v, _, _) in params], 'body': body}
            if kwf:
                node['kwf'], node['kw'] = kwf, kw
            if self.kw_bias and rty != 'mixed':
                self.builders.append({'name': name, 'formals': [v for (v, _, _) in params], 'ftypes': [ty for (_, ty, _) in params],
                                      'kwf': kwf, 'body': body, 'rty': rty, 'ntasks': ntasks, 'nb': nb,
                                      'calls': [([v for (v, _, _) in params], dict(kw))]})
            node['k'] = self.block(env + [(var, rty, None)], st, in_body)
            return node
        raise AssertionError(op)

    def fresh_mark(self):
        self.n += 1
        return self.n

    def body(self, env, st):
        # a builder defines at least one task (or a nested compound) and returns something made of its tasks
        st = dict(st)
        fn, args, rty = self.gen_def(env)
        var = self.fresh('t')
        st['tasks'] += 1
        return {'op': 'mark', 'n': self.fresh_mark(), 'kind': 'plain',
                'k': {'op': 'def', 'var': var, 'fn': fn, 'args': args, 'k': self.block(env + [(var, rty, None)], st, True)}}

    def end(self, env, in_body):
        rng = self.rng
        if not in_body:
            return {'op': 'ret', 'arg': {'c': 0}}
        tasks = [(v, ty) for (v, ty, _) in env if ty in ('int', 'pair')]
        ints = [v for (v, ty) in tasks if ty == 'int']
        r = rng.random()
        if r < 0.5 and tasks:
            return {'op': 'ret', 'arg': {'t': tasks[-1][0]}}       # most recent task (or nested compound)
        if r < 0.8 and ints:
            a = {'t': rng.choice(ints)}
            b = {'t': rng.choice(ints)} if rng.random() < 0.75 else {'c': rng.randrange(M)}
            return {'op': 'ret', 'arg': {'tup': [a, b]}}
        if tasks:
            return {'op': 'ret', 'arg': {'t': rng.choice(tasks)[0]}}
        return {'op': 'ret', 'arg': {'c': rng.randrange(M)}}

    def ret_type(self, node, types):
        """type of what a body returns (the same on every branch by construction? no: take per-branch; we force 'int'/'pair' by checking all)"""
        tys = set()

        def walk(n, types):
            op = n['op']
            if op == 'ret':
                a = n['arg']
                if 'tup' in a:
                    tys.add('pair')
                elif 't' in a:
                    tys.add(types[a['t']])
                else:
                    tys.add('int')
            elif op == 'def':
                walk(n['k'], dict(types, **{n['var']: FN_SIG[n['fn']][1]}))
            elif op == 'compound':
                walk(n['k'], dict(types, **{n['var']: self.ret_type(n['body'], body_env(n, types))}))
            elif op == 'bvalue':
                for b in n['branches'].values():
                    walk(b, types)
            else:
                walk(n['k'], types)
        walk(node, types)
        if len(tys) == 1:
            return tys.pop()
        return 'mixed'

    def count_path_tasks(self, node):
        op = node['op']
        if op == 'ret':
            return 0
        if op == 'def':
            return 1 + self.count_path_tasks(node['k'])
        if op == 'compound':
            return 1 + self.count_path_tasks(node['body']) + self.count_path_tasks(node['k'])
        if op == 'bvalue':
            return max(self.count_path_tasks(b) for b in node['branches'].values())
        return self.count_path_tasks(node['k'])

    def count_path_b(self, node):
        op = node['op']
        if op == 'ret':
            return 0
        if op == 'compound':
            return self.count_path_b(node['body']) + self.count_path_b(node['k'])
        if op == 'bvalue':
            return 1 + max(self.count_path_b(b) for b in node['branches'].values())
        if op == 'barrier':
            return 1 + self.count_path_b(node['k'])
        return self.count_path_b(node['k'])


def fix_mixed(node, rng):
    """A compound whose branches return different types would make later uses ill-typed: make every
    user of a 'mixed' variable impossible by construction - we simply regenerate such programs."""
    return node


def has_mixed(node, types=None):
    types = types or {}
    op = node['op']
    g = Gen(None)
    if op == 'ret':
        return False
    if op == 'def':
        return has_mixed(node['k'], dict(types, **{node['var']: FN_SIG[node['fn']][1]}))
    if op == 'compound':
        bt = body_env(node, types)
        rty = g.ret_type(node['body'], bt)
        return rty == 'mixed' or has_mixed(node['body'], bt) or has_mixed(node['k'], dict(types, **{node['var']: rty}))
    if op == 'bvalue':
        return any(has_mixed(b, types) for b in node['branches'].values())
    return has_mixed(node['k'], types)


def generate(rng, **kw):
    for _ in range(50):
        g = Gen(rng, **kw)
        prog = g.block([], {'tasks': 0, 'b': 0, 'comp': 0, 'bdepth': 0, 'len': 0}, False)
        if not has_mixed(prog):
            return prog
    raise HarnessError('could not generate a well-typed program')


# ------------------------------------------------------------------------------------ flat form of a program
def flatten(node):
    """the same program as a list of statements (continuations 'k' unrolled; builders and the branches of a bvalue are
    lists again): nesting depth = nesting of builders / branches, not the number of statements.  Used for replay files
    (JSON cannot hold a few hundred levels of nesting) and by the generators of long programs."""
    out = []
    while True:
        op = node['op']
        if op == 'ret':
            out.append(dict(node))
            return out
        if op == 'bvalue':
            st = dict((k, v) for k, v in node.items() if k != 'branches')
            st['branches'] = dict((x, flatten(b)) for x, b in node['branches'].items())
            out.append(st)
            return out
        st = dict((k, v) for k, v in node.items() if k not in ('k', 'body'))
        if op == 'compound':
            st['body'] = flatten(node['body'])
        out.append(st)
        node = node['k']


def unflatten(stmts):
    last = dict(stmts[-1])
    if last['op'] == 'bvalue':
        last['branches'] = dict((x, unflatten(b)) for x, b in last['branches'].items())
    elif last['op'] != 'ret':
        raise HarnessError('a statement list must end in ret or bvalue')
    node = last
    for st in reversed(stmts[:-1]):
        st = dict(st)
        if st['op'] == 'compound':
            st['body'] = unflatten(st['body'])
        st['k'] = node
        node = st
    return node


def nstatements(node):
    n = 0
    for st in flatten(node):
        n += 1
        if st['op'] == 'bvalue':
            n += sum(nstatements(unflatten(b)) for b in st['branches'].values())
        elif st['op'] == 'compound':
            n += nstatements(unflatten(st['body']))
    return n


# ------------------------------------------------------------------------------------ long programs
class Deep:
    """Jugfiles with long dependency chains: when such a file is loaded under a recursion limit smaller than ~4 frames
    per link, hashing the end of a chain raises RecursionError inside jug: barrier() then answers through its
    explicit-stack fallback (jug/barrier.py:_can_load_limit_recursion), Task.hash() - reached from bvalue(), value(),
    CompoundTask's probe, `jug check` - through its bottom-up fallback (defect D21, fixed in /repo 94cab01).
    Several chains (independent, or linked to one another), sinks of different kinds; what meets the chain ends whose
    hash is NOT cached yet: a barrier(), a bvalue() of such an end, a compound called on such an end (its builder
    with a chain and possibly a barrier inside); then further chains that continue the earlier ones, met by the
    next barrier / bvalue / compound; value-dependent continuations with chains inside."""

    def __init__(self, rng, chain=(55, 90), max_tasks=420, nfirst=(1, 2, 2, 2, 3, 3)):
        self.rng, self.chain, self.max_tasks, self.nfirst = rng, chain, max_tasks, nfirst
        self.n = 0
        self.ntasks = 0

    def fresh(self, p):
        self.n += 1
        return '%s%d' % (p, self.n)

    def mark_n(self):
        self.n += 1
        return self.n

    def d(self, out, env, fn, args, dist):
        var = self.fresh('t')
        out.append({'op': 'def', 'var': var, 'fn': fn, 'args': args})
        env.append((var, FN_SIG[fn][1], dist))
        self.ntasks += 1
        return var

    @staticmethod
    def dist_of(env, var):
        for v, _, dd in env:
            if v == var:
                return dd
        raise KeyError(var)

    def chain_from(self, out, env, start, others):
        """a chain of int tasks; start: a var or None; others: int vars of other chains that may be linked in"""
        rng = self.rng
        lo, hi = self.chain
        L = rng.randint(lo, hi)
        if start is None:
            cur = self.d(out, env, 'f', [{'c': rng.randrange(M)}, {'c': rng.randrange(M)}], 1)
        else:
            cur = start
        for _ in range(L):
            dist = self.dist_of(env, cur) + 1
            r = rng.random()
            if r < 0.70:
                cur = self.d(out, env, 'f', [{'t': cur}, {'c': rng.randrange(M)}], dist)
            elif r < 0.85:
                cur = self.d(out, env, 'g', [{'t': cur}, {'t': cur}], dist)
            elif r < 0.93 and others:
                o = rng.choice(others)
                cur = self.d(out, env, 'g', [{'t': cur}, {'t': o}], max(dist, self.dist_of(env, o) + 1))
            else:
                cur = self.d(out, env, 'g', [{'t': cur}, {'c': rng.randrange(M)}], dist)
        # how the chain ends: as it is, or in a sink of another kind
        r = rng.random()
        dist = self.dist_of(env, cur) + 1
        if r < 0.3:
            cur = self.d(out, env, 'tsum', [{'tup': [{'t': cur}, {'c': rng.randrange(M)}]}], dist)
        elif r < 0.45:
            p = self.d(out, env, 'pair', [{'t': cur}, {'t': cur}], dist)
            cur = self.d(out, env, 'pfst', [{'t': p}], dist + 1)
        return cur

    def shallow(self, out, env, ends):
        """a few short tasks (sinks of their own, or hanging off the ends of chains)"""
        rng = self.rng
        for _ in range(rng.choice([0, 1, 1, 2])):
            if ends and rng.random() < 0.5:
                e = rng.choice(ends)
                self.d(out, env, 'f', [{'t': e}, {'c': rng.randrange(M)}], self.dist_of(env, e) + 1)
            else:
                self.d(out, env, 'f', [{'c': rng.randrange(M)}, {'c': rng.randrange(M)}], 1)

    def segment(self, out, env, nchains, starts, prefer=None):
        """prefer: a task the first chain continues with probability 3/4 (what the previous round produced)"""
        rng = self.rng
        ends = []
        for j in range(nchains):
            if self.ntasks + self.chain[1] + 8 > self.max_tasks:
                break
            if j == 0 and prefer is not None and rng.random() < 0.75:
                start = prefer
            else:
                start = rng.choice(starts) if (starts and rng.random() < 0.6) else None
            ends.append(self.chain_from(out, env, start, [e for e in ends if rng.random() < 0.5]))
            if rng.random() < 0.3:
                self.shallow(out, env, ends)
        if rng.random() < 0.6:
            self.shallow(out, env, ends)
        if not ends:
            ends.append(self.d(out, env, 'f', [{'c': rng.randrange(M)}, {'c': rng.randrange(M)}], 1))
        return ends

    def room(self):
        return self.ntasks + self.chain[1] + 8 <= self.max_tasks

    def compound(self, out, env, par, ends):
        """c = comp(par): a builder with a chain (and possibly a barrier) inside; then a task that uses c"""
        rng = self.rng
        name, var = self.fresh('comp'), self.fresh('c')
        body, benv = [], [(par, 'int', 0)]
        body.append({'op': 'mark', 'n': self.mark_n(), 'kind': 'plain'})
        if self.room() and rng.random() < 0.8:
            e = self.chain_from(body, benv, par, [])
        else:
            e = self.d(body, benv, 'f', [{'t': par}, {'c': rng.randrange(M)}], 1)
        if rng.random() < 0.6:
            body.append({'op': 'barrier'})
            body.append({'op': 'mark', 'n': self.mark_n(), 'kind': 'bar'})
            e = self.d(body, benv, 'f', [{'t': e}, {'c': rng.randrange(M)}], 1)
        body.append({'op': 'ret', 'arg': {'t': e} if rng.random() < 0.7 else {'tup': [{'t': e}, {'c': rng.randrange(M)}]}})
        out.append({'op': 'compound', 'var': var, 'name': name, 'params': [par], 'body': body})
        rty = 'int' if 't' in body[-1]['arg'] else 'pair'
        env.append((var, rty, 0))
        if rty == 'int':
            return self.d(out, env, 'f', [{'t': var}, {'c': rng.randrange(M)}], 1)
        return self.d(out, env, 'tsum', [{'t': var}], 1)

    def program(self, first=None, rounds=None):
        """first: what meets the unhashed chain ends first ('barrier' | 'bvalue' | 'compound'; None: drawn)"""
        rng = self.rng
        root, env = [], []
        out = root
        nf = rng.choice(self.nfirst)
        # nf = 0: no chain at the head - whatever comes first (a compound, say) is the head of the chains that follow
        ends = self.segment(out, env, nf, []) if nf else [self.d(out, env, 'f', [{'c': rng.randrange(M)}, {'c': rng.randrange(M)}], 1)]
        nrounds = rounds or rng.choice([1, 2, 2, 3])
        complete = set()
        r = -1
        while r + 1 < nrounds:
            r += 1
            prefer = None
            act = first if (r == 0 and first) else rng.choice(['barrier', 'barrier', 'barrier', 'bvalue', 'bvalue', 'compound', 'compound'])
            if act == 'barrier':
                out.append({'op': 'barrier'})
                out.append({'op': 'mark', 'n': self.mark_n(), 'kind': 'bar'})
                complete = set(v for (v, _, _) in env)       # value() may be used on these from here on
            elif act == 'bvalue':
                # v = bvalue(end of a chain): nothing has hashed that chain yet; the rest of the file is its continuation
                tv = rng.choice(ends)
                var = self.fresh('v')
                rest = [{'op': 'mark', 'n': self.mark_n(), 'kind': 'bv', 'ref': {'t': tv}, 'vvar': var}]
                out.append({'op': 'bvalue', 'var': var, 'arg': {'t': tv}, 'plain_value': False, 'branches': {'*': rest}})
                out = rest
            else:
                prefer = self.compound(out, env, rng.choice(ends), ends)
                ends = ends + [prefer]
                if r == nrounds - 1 and nrounds < 4 and self.room() and rng.random() < 0.7:
                    nrounds += 1        # something after the compound: a chain that hangs on it, met from its far end
            if r < nrounds - 1 and self.room():
                ends = self.segment(out, env, rng.choice([1, 1, 2]), ends, prefer)
        if rng.random() < 0.3:
            # v = bvalue(end); the value decides what follows (another chain and a barrier in two of the branches)
            tv = rng.choice(ends)
            var = self.fresh('v')
            branches = {}
            for x in range(M):
                b, benv = [], list(env)
                b.append({'op': 'mark', 'n': self.mark_n(), 'kind': 'bv', 'ref': {'t': tv}, 'vvar': var})
                if x == 0 or not self.room():
                    self.d(b, benv, 'f', [{'t': tv}, {'v': var, 'val': x}], 1)
                else:
                    e2 = self.segment(b, benv, 1, ends)
                    if x == 1:
                        b.append({'op': 'barrier'})
                        b.append({'op': 'mark', 'n': self.mark_n(), 'kind': 'bar'})
                    self.d(b, benv, 'f', [{'t': e2[-1]}, {'v': var, 'val': x}], 1)
                b.append({'op': 'ret', 'arg': {'c': 0}})
                branches[str(x)] = b
            out.append({'op': 'bvalue', 'var': var, 'arg': {'t': tv}, 'plain_value': tv in complete and rng.random() < 0.5, 'branches': branches})
        else:
            self.shallow(out, env, ends)
            out.append({'op': 'ret', 'arg': {'c': 0}})
        return unflatten(root)


def generate_deep(rng, first=None, rounds=None, **kw):
    return Deep(rng, **kw).program(first=first, rounds=rounds)


def generate_iter(rng, rounds=(5, 8)):
    """an iterative computation: many consecutive barrier / bvalue phases, each running the same task function
    (x = step(x); v = bvalue(x) ...), the shape on which the reload loop of `jug execute` has to count progress"""
    g = Gen(rng)
    fn = rng.choice(['f', 'f', 'g'])
    out = []
    prev = None
    n = rng.randint(*rounds)
    for i in range(n):
        var = g.fresh('t')
        if fn == 'f':
            a0 = prev if prev is not None else {'c': rng.randrange(M)}
            args = [a0, {'c': rng.randrange(M)}]
        else:
            a0 = prev if prev is not None else {'c': rng.randrange(M)}
            args = [a0, rng.choice([a0, {'c': rng.randrange(M)}])]
        out.append({'op': 'def', 'var': var, 'fn': fn, 'args': args})
        prev = {'t': var}
        if i == n - 1 and rng.random() < 0.5:
            break
        if rng.random() < 0.3:
            out.append({'op': 'barrier'})
            out.append({'op': 'mark', 'n': g.fresh_mark(), 'kind': 'bar'})
        else:
            v = g.fresh('v')
            # the continuation goes on as one list: the value is not inspected ('*'), the next step uses the task
            rest = [{'op': 'mark', 'n': g.fresh_mark(), 'kind': 'bv', 'ref': {'t': var}, 'vvar': v}]
            out.append({'op': 'bvalue', 'var': v, 'arg': {'t': var}, 'plain_value': False, 'branches': {'*': rest}})
            out = _Tail(out, rest)
    out.append({'op': 'ret', 'arg': {'c': 0}})
    return unflatten(out.root if isinstance(out, _Tail) else out)


class _Tail:
    """statement list whose appends go to the innermost open continuation"""
    def __init__(self, outer, inner):
        self.root = outer.root if isinstance(outer, _Tail) else outer
        self.inner = inner

    def append(self, st):
        self.inner.append(st)


# ------------------------------------------------------------------------------------ rendering to Python
def py_arg(a):
    if 'c' in a:
        return str(a['c'])
    if 't' in a:
        return a['t']
    if 'v' in a:
        return a['v']
    return '(%s, %s)' % (py_arg(a['tup'][0]), py_arg(a['tup'][1]))


def render_python(prog, header=''):
    funcs = []
    defined = set()

    def block(node, ind, out):
        pad = '    ' * ind
        op = node['op']
        if op == 'ret':
            if ind > 0 and out is not None and out.get('in_body'):
                out['lines'].append('%sreturn %s' % (pad, py_arg(node['arg'])))
            else:
                out['lines'].append('%spass' % pad)
            return
        if op == 'def':
            out['lines'].append('%s%s = %s(%s)' % (pad, node['var'], node['fn'], ', '.join(py_arg(a) for a in node['args'])))
            block(node['k'], ind, out)
        elif op == 'mark':
            if node['kind'] == 'plain':
                out['lines'].append('%smark(%d)' % (pad, node['n']))
            elif node['kind'] == 'bar':
                out['lines'].append('%smark_bar(%d)' % (pad, node['n']))
            else:
                out['lines'].append('%smark_bv(%d, %s, %s)' % (pad, node['n'], node['vvar'], py_arg(node['ref'])))
            block(node['k'], ind, out)
        elif op == 'barrier':
            out['lines'].append('%sbarrier()' % pad)
            block(node['k'], ind, out)
        elif op == 'bvalue':
            call = 'value' if node['plain_value'] else 'bvalue'
            out['lines'].append('%s%s = %s(%s)' % (pad, node['var'], call, py_arg(node['arg'])))
            br = node['branches']
            if '*' in br:
                block(br['*'], ind, out)
            else:
                for i, x in enumerate(sorted(br)):
                    out['lines'].append('%s%s %s == %s:' % (pad, 'if' if i == 0 else 'elif', node['var'], x))
                    block(br[x], ind + 1, out)
        elif op == 'compound':
            if node['name'] not in defined:
                defined.add(node['name'])
                kwf = node.get('kwf') or {}
                fo = {'lines': [], 'in_body': True}
                fo['lines'].append('@CompoundTaskGenerator')
                fo['lines'].append('def %s(%s):' % (node['name'], ', '.join(list(formals_of(node)) + ['%s=%d' % kv for kv in sorted(kwf.items())])))
                for k in sorted(kwf):
                    fo['lines'].append('    %s = int(%s)' % (k, k))
                block(node['body'], 1, fo)
                funcs.append('\n'.join(fo['lines']))
            out['lines'].append('%s%s = %s(%s)' % (pad, node['var'], node['name'], ', '.join(
                list(node['params']) + ['%s=%r' % kv for kv in sorted((node.get('kw') or {}).items())])))
            block(node['k'], ind, out)
        else:
            raise AssertionError(op)

    main = {'lines': [], 'in_body': False}
    main['lines'].append('mark(%d)' % TOPMARK)
    block(prog, 0, main)
    return PRELUDE + header + '\n\n'.join(funcs) + '\n\n' + '\n'.join(main['lines']) + '\n'


# ------------------------------------------------------------------------------------ descriptors and real hashes
class Desc(tuple):
    """descriptor ('T', function name, argument descriptors) of a task.  Interned (mkdesc): equal descriptors are one
    object, compared and hashed by identity - the nested tuples of a long chain with g(t, t) links would otherwise be
    walked once per path (exponentially many)."""
    def __eq__(self, other):
        return self is other

    def __ne__(self, other):
        return self is not other

    def __hash__(self):
        return self.uid

    def __repr__(self):
        return '%s#%d(%s)' % (self[1], self.uid, ', '.join([_short(a) for a in self[2]] + ['%s=%r' % (k, a[1]) for k, a in self.kw]))


def _short(a):
    if isinstance(a, Desc):
        return '%s#%d' % (a[1], a.uid)
    if a[0] == 'tup':
        return '(%s, %s)' % (_short(a[1]), _short(a[2]))
    return str(a[1])


def _akey(a):
    if isinstance(a, Desc):
        return ('D', a.uid)
    if a[0] == 'tup':
        return ('tup', _akey(a[1]), _akey(a[2]))
    return (a[0], type(a[1]).__name__, a[1])          # 1, 1.0 and True are equal in Python but not for jug's hash


_DESCS = {}


def mkdesc(fn, args, kw=()):
    """kw: ((name, ('c', value)), ...) keyword arguments (compounds only)"""
    key = (fn, tuple(_akey(a) for a in args), tuple((k, _akey(a)) for k, a in kw))
    d = _DESCS.get(key)
    if d is None:
        d = Desc(('T', fn, tuple(args)))
        d.uid = len(_DESCS) + 1
        d.kw = tuple(kw)
        _DESCS[key] = d
    return d


def desc_deps(d):
    """the task descriptors directly inside the arguments of d"""
    out = []

    def walk(a):
        if isinstance(a, Desc):
            out.append(a)
        elif a[0] == 'tup':
            walk(a[1])
            walk(a[2])
    for a in d[2]:
        walk(a)
    return out


def formals_of(node):
    return node.get('formals') or node['params']


def body_env(node, env):
    """the scope of the builder's body: its formal parameters bound to what the call passes"""
    return dict((f, env[p]) for f, p in zip(formals_of(node), node['params']))


def kw_desc(node):
    return tuple(sorted((k, ('c', v)) for k, v in (node.get('kw') or {}).items()))


def compound_desc(node, env, first=lambda x: x):
    return mkdesc(node['name'], tuple(first(env[p]) for p in node['params']), kw_desc(node))


def subst_known(node, vals):
    """the body of a builder with other values for its keyword parameters: every {'v': name, 'val': _} of a name in vals"""
    def arg(a):
        if 'v' in a and a['v'] in vals:
            return {'v': a['v'], 'val': vals[a['v']]}
        if 'tup' in a:
            return {'tup': [arg(x) for x in a['tup']]}
        return a
    out = []
    for st in flatten(node):
        st = dict(st)
        if st['op'] == 'def':
            st['args'] = [arg(a) for a in st['args']]
        elif st['op'] == 'ret':
            st['arg'] = arg(st['arg'])
        elif st['op'] == 'mark' and 'ref' in st:
            st['ref'] = arg(st['ref'])
        elif st['op'] == 'bvalue':
            st['arg'] = arg(st['arg'])
            st['branches'] = dict((x, flatten(subst_known(unflatten(b), vals))) for x, b in st['branches'].items())
        elif st['op'] == 'compound':
            inner = dict((k, v) for k, v in vals.items() if k not in formals_of(st) and k not in (st.get('kwf') or {}))
            st['body'] = flatten(subst_known(unflatten(st['body']), inner)) if inner else st['body']
        out.append(st)
    return unflatten(out)


def arg_desc(a, env):
    if 'c' in a:
        return ('c', a['c'])
    if 'v' in a:
        return ('c', a['val'])
    if 't' in a:
        return env[a['t']]
    return ('tup', arg_desc(a['tup'][0], env), arg_desc(a['tup'][1], env))


class Hasher:
    """real jug hashes of the tasks a generated jugfile can define, without running it"""
    def __init__(self, modname=MODNAME):
        self.modname = modname
        self.stubs = {}
        self.memo = {}

    def stub(self, name):
        if name not in self.stubs:
            def fn(*a):
                raise HarnessError('stub called')
            fn.__name__ = name
            fn.__qualname__ = name
            fn.__module__ = self.modname
            self.stubs[name] = fn
        return self.stubs[name]

    def build(self, d):
        if d[0] == 'c':
            return d[1]
        if d[0] == 'tup':
            return (self.build(d[1]), self.build(d[2]))
        return self.task(d)

    def task(self, d):
        if d not in self.memo:
            n0 = len(jug.task.alltasks)
            args = [self.build(a) for a in d[2]]
            t = jug.task.Task(self.stub(d[1]), *args, **dict((k, self.build(a)) for k, a in d.kw))
            h = t.hash()
            del jug.task.alltasks[n0:]
            self.memo[d] = (t, h.decode('ascii') if isinstance(h, bytes) else str(h))
        return self.memo[d][0]

    def hash(self, d):
        self.task(d)
        return self.memo[d][1]


def all_descs(prog):
    """every task descriptor in every branch, in a deterministic order"""
    out = []

    def walk(node, env):
        op = node['op']
        if op == 'ret':
            return
        if op == 'def':
            d = mkdesc(node['fn'], tuple(arg_desc(a, env) for a in node['args']))
            out.append(d)
            walk(node['k'], dict(env, **{node['var']: d}))
        elif op == 'compound':
            d = compound_desc(node, env)
            out.append(d)
            walk(node['body'], body_env(node, env))
            walk(node['k'], dict(env, **{node['var']: d}))
        elif op == 'bvalue':
            for x in sorted(node['branches']):
                walk(node['branches'][x], env)
        else:
            walk(node['k'], env)
    walk(prog, {})
    seen, res = set(), []
    for d in out:
        if d not in seen:
            seen.add(d)
            res.append(d)
    return res


def builder_marks(prog):
    """{marker at the top of a builder: descriptors of the compounds it builds (one per distinct call)}, all branches"""
    out = {}

    def walk(node, env):
        op = node['op']
        if op == 'ret':
            return
        if op == 'def':
            d = mkdesc(node['fn'], tuple(arg_desc(a, env) for a in node['args']))
            walk(node['k'], dict(env, **{node['var']: d}))
        elif op == 'compound':
            d = compound_desc(node, env)
            if node['body']['op'] == 'mark':
                out.setdefault(node['body']['n'], [])
                if d not in out[node['body']['n']]:
                    out[node['body']['n']].append(d)
            walk(node['body'], body_env(node, env))
            walk(node['k'], dict(env, **{node['var']: d}))
        elif op == 'bvalue':
            for x in sorted(node['branches']):
                walk(node['branches'][x], env)
        else:
            walk(node['k'], env)
    walk(prog, {})
    return out


class Interner:
    def __init__(self, prog):
        self.hasher = Hasher()
        self.descs = all_descs(prog)
        self.id_of_hash = {}
        self.hash_of_desc = {}
        for d in self.descs:
            h = self.hasher.hash(d)
            self.hash_of_desc[d] = h
            if h not in self.id_of_hash:
                self.id_of_hash[h] = len(self.id_of_hash) + 1
        self.unknown = {}

    def desc_id(self, d):
        return self.id_of_hash[self.hash_of_desc[d]]

    def hash_id(self, h):
        """id of an observed hash; hashes the prediction does not know get ids of their own"""
        h = h.decode('ascii') if isinstance(h, bytes) else str(h)
        if h in self.id_of_hash:
            return self.id_of_hash[h]
        if h not in self.unknown:
            self.unknown[h] = 100000 + len(self.unknown)
        return self.unknown[h]

    def table(self):
        return {'ids': dict((h, i) for h, i in self.id_of_hash.items()), 'unknown': self.unknown,
                'descs': [[repr(d), self.hash_of_desc[d]] for d in self.descs]}


# ------------------------------------------------------------------------------------ rendering to Gallina
def coq_val(v):
    if isinstance(v, tuple):
        if len(v) == 2 and all(isinstance(x, int) and not isinstance(x, bool) for x in v):
            return '(P2 (%d) (%d))' % v
        return '(VTup [%s])' % '; '.join(coq_val(x) for x in v)
    if isinstance(v, bool) or not isinstance(v, int):
        return '(I (-99))'             # outside the modelled universe (only a broken jug puts such a value anywhere)
    return '(I (%d))' % v


def coq_arg(a, env, it):
    if 'c' in a:
        return '(K %d)' % a['c']
    if 'v' in a:
        return '(K %d)' % a['val']
    if 't' in a:
        return '(ATask %d)' % it.desc_id(env[a['t']])
    return '(ATup [%s; %s])' % (coq_arg(a['tup'][0], env, it), coq_arg(a['tup'][1], env, it))


def render_coq(prog, it):
    def walk(node, env):
        op = node['op']
        if op == 'ret':
            return '(Ret %s)' % coq_arg(node['arg'], env, it)
        if op == 'def':
            d = mkdesc(node['fn'], tuple(arg_desc(a, env) for a in node['args']))
            return '(Def (T %d [%s] fn_%s)\n %s)' % (it.desc_id(d), '; '.join(coq_arg(a, env, it) for a in node['args']),
                                                   node['fn'], walk(node['k'], dict(env, **{node['var']: d})))
        if op == 'mark':
            return '(Mark %d %s)' % (node['n'], walk(node['k'], env))
        if op == 'barrier':
            return '(Barrier %s)' % walk(node['k'], env)
        if op == 'bvalue':
            br = node['branches']
            if '*' in br:
                return '(BValue %s (fun _ => %s))' % (coq_arg(node['arg'], env, it), walk(br['*'], env))
            alts = '; '.join('(I %s, %s)' % (x, walk(br[x], env)) for x in sorted(br))
            return '(BValue %s (fun v => sel v [%s] (Ret (K 0))))' % (coq_arg(node['arg'], env, it), alts)
        if op == 'compound':
            d = compound_desc(node, env)
            cargs = '; '.join(['(ATask %d)' % it.desc_id(env[p]) for p in node['params']] +
                              ['(K %d)' % int(v) for _, v in sorted((node.get('kw') or {}).items())])
            body = walk(node['body'], body_env(node, env))
            return '(Compound %d [%s]\n %s\n %s)' % (it.desc_id(d), cargs, body, walk(node['k'], dict(env, **{node['var']: d})))
        raise AssertionError(op)
    return '(Mark %d %s)' % (TOPMARK, walk(prog, {}))


def coq_store(items, it):
    """items: iterable of (hash, python value)"""
    return '[' + '; '.join('(%d, %s)' % (it.hash_id(h), coq_val(v)) for h, v in items) + ']'


# ------------------------------------------------------------------------------------ sequential oracle (no jug)
def seq_oracle(prog):
    """plain sequential evaluation: returns (log [(desc, value)] in evaluation order, top-level scope
    [(desc, value)], number of barrier/bvalue calls, markers)"""
    log, marks = [], []
    nb = [0]

    def aval(a, env):
        if 'c' in a:
            return a['c']
        if 'v' in a:
            return a['val']
        if 't' in a:
            return env[a['t']][1]
        return (aval(a['tup'][0], env), aval(a['tup'][1], env))

    def walk(node, env):
        op = node['op']
        if op == 'ret':
            return env, aval(node['arg'], env)
        if op == 'def':
            d = mkdesc(node['fn'], tuple(arg_desc(a, dict((k, x[0]) for k, x in env.items())) for a in node['args']))
            v = FNS[node['fn']](*[aval(a, env) for a in node['args']])
            log.append((d, v))
            return walk(node['k'], dict(env, **{node['var']: (d, v)}))
        if op == 'mark':
            marks.append(node['n'])
            return walk(node['k'], env)
        if op == 'barrier':
            nb[0] += 1
            return walk(node['k'], env)
        if op == 'bvalue':
            nb[0] += 1
            v = aval(node['arg'], env)
            br = node['branches']
            return walk(br['*'] if '*' in br else br[str(v)], env)
        if op == 'compound':
            d = compound_desc(node, env, first=lambda x: x[0])
            _, v = walk(node['body'], body_env(node, env))
            log.append((d, v))
            return walk(node['k'], dict(env, **{node['var']: (d, v)}))
        raise AssertionError(op)
    env, _ = walk(prog, {})
    return log, list(env.values()), nb[0], marks


# ------------------------------------------------------------------------------------ driving the real code
class Scratch:
    """a scratch directory holding the marker module and the generated jugfile"""
    def __init__(self, root):
        self.root = root
        with open(os.path.join(root, MARKMOD + '.py'), 'w') as fh:
            fh.write(MARKS_SRC)
        if root not in sys.path:
            sys.path.insert(0, root)
        sys.modules.pop(MARKMOD, None)
        import importlib
        self.marks = importlib.import_module(MARKMOD)
        self.jugfile = os.path.join(root, MODNAME + '.py')

    def write(self, prog, header=''):
        with open(self.jugfile, 'w') as fh:
            fh.write(render_python(prog, header))

    def close(self):
        if self.root in sys.path:
            sys.path.remove(self.root)
        sys.modules.pop(MARKMOD, None)
        sys.modules.pop(MODNAME, None)


def hx(k):
    return k.decode('ascii') if isinstance(k, bytes) else str(k)


def fill_store(store, items):
    for h, v in items:
        store.dump(v, h.encode('ascii'))


HARNESS_RECLIMIT = 30000                # the harness' own recursive walks over programs of a few hundred statements
if sys.getrecursionlimit() < HARNESS_RECLIMIT:
    sys.setrecursionlimit(HARNESS_RECLIMIT)


def stack_depth():
    f, n = sys._getframe(), 0
    while f is not None:
        n += 1
        f = f.f_back
    return n


class low_recursion:
    """run the real code with only `slack` Python frames left (None: no change), as a user's interpreter has
    sys.getrecursionlimit() = 1000 and chains of a few hundred tasks"""
    def __init__(self, slack):
        self.slack = slack

    def __enter__(self):
        self.old = sys.getrecursionlimit()
        if self.slack is not None:
            sys.setrecursionlimit(stack_depth() + self.slack)

    def __exit__(self, *a):
        sys.setrecursionlimit(self.old)


def real_init(sc, store, slack=None, hash_now=True):
    """jug.init on the generated jugfile against `store`, as `jug execute` does it before each phase.
    Returns dict(tasks=[hash...], names=[...], hasbarrier=bool, marks=[(n, kind, detail)...], space).
    hash_now=False: the hashes of the loaded tasks are not asked for here ('tasks' is None until task_hashes(r)), so
    that what runs next (jug check) meets the tasks as jug.init left them - hashes of long chains not cached."""
    del jug.task.alltasks[:]
    del sc.marks.LOG[:]
    path = list(sys.path)
    try:
        with jugrun.quiet():
            with low_recursion(slack):
                st, space = jug.jug.init(sc.jugfile, store)
    finally:
        sys.path[:] = path
    tasks = list(jug.task.alltasks)
    return {'tasks': [hx(t.hash()) for t in tasks] if hash_now else None, 'names': [t.name for t in tasks],
            'hasbarrier': bool(space.get('__jug__hasbarrier__', False)), 'marks': list(sc.marks.LOG),
            'space': space, 'store': st, 'objs': tasks}


def task_hashes(r):
    if r['tasks'] is None:
        r['tasks'] = [hx(t.hash()) for t in r['objs']]      # creation order: every hash needs cached ones only
    return r['tasks']


def real_check(store, space, slack=None):
    """the real CheckCommand on what is loaded now -> exit code (an exception of jug propagates)"""
    from jug.subcommands.check import check as check_cmd
    try:
        with jugrun.quiet():
            with low_recursion(slack):
                check_cmd.run(store=store, options=None, jugspace=space)
    except SystemExit as e:
        return 0 if e.code in (None, 0) else (e.code if isinstance(e.code, int) else 1)
    raise HarnessError('jug check did not exit')


def exec_argv(sc, jugdir_str, nwc=1, extra=()):
    return ['execute', sc.jugfile, '--jugdir', jugdir_str, '--nr-wait-cycles', str(nwc),
            '--wait-cycle-time', '0', '--will-cite'] + list(extra)


_OPTS = {}


def exec_options(sc, jugdir_str='dict_store', nwc=1, extra=()):
    """the parsed options of `jug execute <jugfile> --nr-wait-cycles nwc --wait-cycle-time 0 <extra>`; parsed by
    jug.options.parse once per distinct command line (16 ms each), a fresh shallow copy per run"""
    import copy
    key = (sc.jugfile, jugdir_str, nwc, tuple(extra))
    if key not in _OPTS:
        _OPTS[key] = jug.options.parse(exec_argv(sc, jugdir_str, nwc, extra))
    return copy.copy(_OPTS[key])


class no_zero_sleep:
    """--wait-cycle-time 0: jug calls time.sleep(0) in every wait cycle, which costs a scheduler round trip on a
    busy machine; sleep(0) returns at once while `jug execute` runs in-process"""
    def __enter__(self):
        import time
        from . import patching
        orig = time.sleep
        # also where jug holds the function under its own global (`from time import sleep` at module level)
        self.cm = patching.patch_everywhere(orig, lambda s: None if not s else orig(s), home=time, name='sleep')
        self.cm.__enter__()

    def __exit__(self, *a):
        self.cm.__exit__(None, None, None)


class ExecTimeout(BaseException):
    """`jug execute` run in-process did not come back (BaseException: execution_loop --keep-going must not swallow it)"""


EXEC_TIME_LIMIT = 90                    # seconds; the unchanged code needs well under 2 s on any generated program
TIMEOUTS = [0]                          # runs that hit the limit so far; later runs get 10 s, callers stop after 3


class time_limit:
    def __init__(self, seconds):
        self.seconds = seconds

    def __enter__(self):
        import signal

        if TIMEOUTS[0]:
            self.seconds = min(self.seconds, 10)

        def onalarm(signum, frame):
            TIMEOUTS[0] += 1
            raise ExecTimeout('no result after %d s' % self.seconds)
        self.signal = signal
        self.old = signal.signal(signal.SIGALRM, onalarm)
        signal.setitimer(signal.ITIMER_REAL, self.seconds)

    def __exit__(self, *a):
        self.signal.setitimer(self.signal.ITIMER_REAL, 0)
        self.signal.signal(self.signal.SIGALRM, self.old)


def real_execute(sc, store_or_path, via_main=False, nwc=1, extra=(), slack=None, fail=None):
    """`jug execute` in-process to its end.  nwc: --nr-wait-cycles; extra: further options (--keep-going ...);
    fail: {(function name, argument values): -1 | k} failures injected into the task functions.
    Returns (exit code, marker log of all loads, output); the injected failures raised are in sc.marks.RAISED;
    an exception that leaves `jug execute` is returned as exit code ('raised', type name, message)."""
    import signal
    from jug.hooks.register import reset_all_hooks
    from jug.subcommands import cmdapi
    del jug.task.alltasks[:]
    del sc.marks.LOG[:]
    del sc.marks.RAISED[:]
    sc.marks.FAIL.clear()
    sc.marks.FAIL.update(fail or {})
    argv, path = list(sys.argv), list(sys.path)
    term = signal.getsignal(signal.SIGTERM)
    code = 0
    try:
        with jugrun.quiet() as (out, err):
            try:
                with time_limit(EXEC_TIME_LIMIT), no_zero_sleep(), low_recursion(slack):
                    if via_main:
                        jug.jug.main(['jug'] + exec_argv(sc, store_or_path, nwc, extra))
                    else:
                        opts = exec_options(sc, nwc=nwc, extra=extra)
                        opts.jugdir = store_or_path
                        cmdapi.run('execute', options=opts, store=None, jugspace=None)
            except SystemExit as e:
                code = 0 if e.code in (None, 0) else e.code
            except ValueError as e:
                if not fail or 'injected failure' not in str(e):
                    raise
                code = ('raised', type(e).__name__, str(e))
    finally:
        sc.marks.FAIL.clear()
        sys.argv[:] = argv
        sys.path[:] = path
        try:
            signal.signal(signal.SIGTERM, term)
        except (ValueError, TypeError):
            pass
        reset_all_hooks()
    return code, list(sc.marks.LOG), out.getvalue() + err.getvalue()


# ------------------------------------------------------------------------------------ jug sleep-until
class StillWaiting(BaseException):
    """the scripted other worker has nothing left to write and sleep-until sleeps again"""


def real_sleep_until(sc, store, writes, slack=None):
    """the real SleepUntilCommand in-process.  time.sleep is replaced: every sleep is one turn of the other workers,
    who dump writes[i] = [(hash, value), ...] into the store (through `store`; a file_store object per call site).
    Returns (status, sleeps, turns used, marker log of all loads): status 0 = exited with 0, ('exit', code),
    'waiting' = slept again after the last write (it would wait for ever)."""
    import time
    from jug.subcommands.check import sleep_until as cmd
    del jug.task.alltasks[:]
    del sc.marks.LOG[:]
    argv, path = list(sys.argv), list(sys.path)
    import copy
    if ('sleep-until', sc.jugfile) not in _OPTS:
        _OPTS[('sleep-until', sc.jugfile)] = jug.options.parse(['sleep-until', sc.jugfile, '--jugdir', 'dict_store'])
    opts = copy.copy(_OPTS[('sleep-until', sc.jugfile)])
    st = {'sleeps': 0, 'i': 0}

    def turn(seconds):
        st['sleeps'] += 1
        if st['i'] >= len(writes):
            raise StillWaiting()
        for h, v in writes[st['i']]:
            store.dump(v, h.encode('ascii'))
        st['i'] += 1
    from . import patching
    orig = time.sleep
    status = None
    sleep_patch = None
    try:
        with jugrun.quiet():
            with time_limit(EXEC_TIME_LIMIT), low_recursion(slack):
                store1, space = jug.jug.init(sc.jugfile, store)
                sleep_patch = patching.patch_everywhere(orig, turn, home=time, name='sleep')    # also jug's own `from time import sleep` globals
                sleep_patch.__enter__()
                try:
                    cmd.run(options=opts, store=store1, jugspace=space)
                    raise HarnessError('jug sleep-until returned without exiting')
                except SystemExit as e:
                    status = 0 if e.code in (None, 0) else ('exit', e.code)
                except StillWaiting:
                    status = 'waiting'
    finally:
        if sleep_patch is not None:
            sleep_patch.__exit__(None, None, None)
        sys.argv[:] = argv
        sys.path[:] = path
    return status, st['sleeps'], st['i'], list(sc.marks.LOG)


# ------------------------------------------------------------------------------------ locks left by other workers
def set_locks(store, held=(), failed=()):
    """what another worker leaves behind: a lock it holds (or held when it was killed), a lock marked failed
    (--keep-failed).  Taken through lock objects of their own, as another process would."""
    for h in list(held) + list(failed):
        lk = store.getlock(h.encode('ascii'))
        if not lk.get():
            raise HarnessError('could not take the lock of %s' % h)
    for h in failed:
        lk = store.getlock(h.encode('ascii'))
        if not lk.fail():
            raise HarnessError('could not mark the lock of %s failed' % h)


def list_locks(store):
    """(sorted held, sorted failed) hashes"""
    held, failed = [], []
    for k in store.listlocks():
        lk = store.getlock(k)
        (failed if lk.is_failed() else held).append(hx(k))
    return sorted(held), sorted(failed)


def store_items(store):
    """{hash: value} of everything stored"""
    res = {}
    for k in store.list():
        res[hx(k)] = store.load(k)
    return res


class ReplayCheck(core.Check):
    """a Check for replay(): no side effects on /verif/replays, violations are only collected"""
    def __init__(self, prop, seed=0):
        import random
        import time
        self.prop, self.tier, self.seed = prop, 'quick', seed
        self.rng = random.Random(seed)
        self.t0 = time.time()
        self.violations, self.known_lines, self.obligations, self.samples = [], [], [], []
        self.counts, self.notes, self.assumptions, self.trusted_base = {}, [], [], []
        self.case_total, self.case_distinct, self.dist, self.replay_n = 0, set(), {}, 0
        self.broken, self.viol_by_what, self.suppressed, self.known_findings = [], {}, 0, []
        self.found = []
        os.makedirs(core.CASEDIR, exist_ok=True)

    def violation(self, replay_obj, found_input=True):
        self.found.append(replay_obj)
        return None
